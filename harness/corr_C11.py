"""C11 -- the out-of-line ABI module is equivalent to the in-line FFI.

Theorems (lean/CffiVerif/Props/C11.lean) over Model/Opcode.lean: the 4-byte opcode encoding
round-trips, integer constants in [-2^63, 2^64) round-trip through (value mod 2^64, <=0 flag),
the global / struct+field / enum / typename records decode to what was encoded, and realising
the emitted `_types` table at the index of any declared type gives that type back.

Tie to the code
  * translate/opcodes.py regenerates every number the model uses (OP_*, _CFFI_OP_*, flags, the
    shifts of format_four_bytes / cdl_4bytes / _CFFI_GETARG ...) from the working tree.
  * Oracle (no model involved): random cdefs; the in-line `cffi.FFI()` against the module written
    by `emit_python_code()` and imported: identity of non-aggregate ctypes, kind / name / size /
    alignment / fields of aggregates, constants and enumerators, list_types(); with a
    gcc-compiled library generated next to the cdef: addresses, types, values and call results
    of functions and globals through both dlopen()s.
  * Correspondence: the byte strings of the real generated module are decoded by the Lean model
    (driver) and compared with what the real backend realises from them; the emitter side of
    the model (`emitTable`, record encoders) is compared with the real generated strings.
"""
import ast
import importlib
import itertools
import os
import sys
import warnings

import common
from common import InfraError

sys.path.insert(0, os.path.join(common.VERIF, "translate"))
import opcodes as tr_opcodes   # noqa: E402

MANIFEST = {
    "text": "Kernel-checked theorems about a model of the out-of-line ABI serialisation: 4-byte opcodes written by "
            "CffiOp.as_python_bytes/format_four_bytes are read back by cdl_4bytes/_CFFI_GETOP/_CFFI_GETARG for every "
            "op < 256 and -2^23 <= arg < 2^23; integer constants in [-2^63, 2^64) survive the (value mod 2^64, <=0 flag) "
            "encoding read by realize_global_int; global, struct/union+field, enum and typename records decode to what "
            "was encoded; and for every type set laid out by collect_type_table, realize_c_type_or_func on the emitted "
            "table at a declared type's index rebuilds that type (functions with argument slots and FUNCTION_END flags, "
            "arrays with their LEN slot, NOOP indirections).  The opcode numbers of cffi_opcode.py and parse_c_type.h "
            "are regenerated each run and proved equal.  On the real implementation, random cdefs are compared in-line "
            "vs. imported emit_python_code() module (ctypes, aggregates, constants, list_types, dlopen'ed functions and "
            "globals of a compiled library), and the real module's bytes are decoded by the model and compared with "
            "what the backend realises.",
    "note": "Trusted: Lean kernel; the translator's regexes; the harness (generator, canonicalisers, ast parsing of the "
            "generated module).  Modelled not verified: Python int shifts/masks as floor division/modulo, `|` of "
            "disjoint bit ranges as `+`; C strings as NUL-terminated byte lists; the table is a pure value (the "
            "write-back that gives ctype identity is not modelled); struct layout, enum base type selection, "
            "pycparser and parse_c_type (C01, C10, C07) are outside this property's model.",
    "technique": "Lean 4 proof (arithmetic on bytes by omega; induction over the layout passes and over types) + "
                 "translator-regenerated opcode tables + differential correspondence against real generated modules",
}

RULE = ("random cdefs of 4..18 declarations drawn from: typedef chains (pointers, arrays incl. lengths whose low byte "
        "is an opcode number, function pointers, function typedefs), tagged/anonymous/nested structs and unions with "
        "bit-fields, self references and flexible arrays, opaque structs, enums with values up to 64 bits, "
        "#define / static const integer constants of all magnitudes in [-2^63, 2^64), function declarations "
        "(variadic, __stdcall, struct by value), globals; one evaluation = one compared item (type string, "
        "aggregate, constant, list_types, lib symbol) or one model-vs-backend decoded record; non-trivial = the item "
        "involves an aggregate, a function type, an array or a constant beyond 32 bits; distinct = distinct "
        "(cdef, item) pairs")
ASSUMPTIONS = ["x86-64 SysV, little endian, LP64 (sizes of the primitive types, FFI_DEFAULT_ABI for __stdcall)",
               "dlopen() of the same path twice yields the same mapping (addresses comparable across the two libs)"]
TRUSTED_EXTRA = ["gcc for the generated test libraries of the lib streams"]

# ---------------------------------------------------------------------------------------------
# known-finding classes (predicates over failing `case` dicts)

def _is_int_outside_64(case):
    try:
        v = int(case.get("declared"))
    except (TypeError, ValueError):
        return False
    return not (-2 ** 63 <= v < 2 ** 64)


CLASSES = {
    # list_types() of the out-of-line module additionally shows 'FILE' / '_IO_FILE'
    "C11/file-in-list-types": lambda c: c.get("aspect") == "list_types" and c.get("only_FILE_differs") is True,
    # constants outside [-2^63, 2^64) come back masked to 64 bits
    "C11/const-outside-64-bit": lambda c: c.get("aspect") == "constant" and _is_int_outside_64(c),
    # in-line, the first `typedef struct S T;` renames the ctype of `struct S` to `T`; out-of-line it stays `struct S`
    "C11/typedef-renames-tagged-aggregate": lambda c: c.get("aspect") == "aggregate-name" and c.get("forced_by_typedef") is True,
    # api.py update_accessors() takes a global variable whose type is an enum for the enum's declaration:
    # the in-line library has no such attribute, the out-of-line one has
    "C11/inline-enum-typed-global": lambda c: (c.get("aspect") == "lib-global-missing" and c.get("var_kind") == "enum"
                                               and c.get("inline_error") == "AttributeError"),
    # the out-of-line FFI completes every struct/union the moment it is realised, so typeof() of an aggregate can
    # fail (ValueError / TypeError) when it reaches, through a pointer, another aggregate that uses the first one
    # by value in an array or function type; the same typeof() succeeds if the other aggregate is asked first
    "C11/realisation-order-dependent": lambda c: (c.get("aspect") in ("typeof-error", "lib-function-missing",
                                                                      "lib-global-missing")
                                                  and c.get("succeeds_in_other_order") is True),
    # `typedef struct {...} *p_t; typedef p_t q_t;`: collect_step_tables() emits the anonymous struct once per
    # typedef and then fails its own consistency assertion -- no module is written
    "C11/alias-of-named-pointer-typedef": lambda c: (c.get("aspect") == "emit" and c.get("alias_of_named_pointer") is True
                                                     and "AssertionError" in str(c.get("outofline"))
                                                     and "recompiler.py" in str(c.get("outofline"))),
    # a FUNCTION slot of `_types` whose signature reaches, through a struct that is completed eagerly, a pointer to
    # the same slot: realising the slot first re-enters its own realisation; assert() in
    # realize_c_type_or_func_lock_held aborts the process (without assert the slot is overwritten)
    "C11/reentrant-function-slot-abort": lambda c: (c.get("aspect") == "process-abort"
                                                    and c.get("self_reaching_function_type") is True),
}

# Findings of this builder that are not yet in KNOWN_FINDINGS.jsonl (a shared file): they are
# added to the run's open findings when the file has no entry of that class (see _pending()).
PENDING_FINDINGS = [
    {"property": "C11", "class": "C11/file-in-list-types",
     "witness": {"cdef": "extern FILE *fp0;\ntypedef int t0;\n", "aspect": "list_types"},
     "what": "a cdef that uses FILE: list_types() of the out-of-line module lists typedef 'FILE' and struct '_IO_FILE', the in-line FFI does not"},
    {"property": "C11", "class": "C11/const-outside-64-bit",
     "witness": {"cdef": "#define BIG 99999999999999999999999\n", "aspect": "constant", "item": "BIG",
                 "declared": "99999999999999999999999"},
     "what": "integer constants outside [-2^63, 2^64) (#define BIG 99999999999999999999999) come back masked to 64 bits from the out-of-line module (200376420520689663), exact in-line"},
    {"property": "C11", "class": "C11/typedef-renames-tagged-aggregate",
     "witness": {"cdef": "struct S { int a; };\ntypedef struct S S_t;\n", "aspect": "aggregate-name", "item": "struct S"},
     "what": "after `typedef struct S S_t;` the in-line ctype of `struct S` is named 'S_t' (forcename), the out-of-line one 'struct S' (same for union/enum tags)"},
    {"property": "C11", "class": "C11/inline-enum-typed-global",
     "witness": {"cdef": "enum En3 { E0, E1 };\nextern enum En3 g5;\n", "aspect": "lib-global-missing", "item": "g5",
                 "csrc": "enum En3 { E0, E1 };\nenum En3 g5;\n"},
     "what": "a global variable of enum type (`extern enum E g;`): the in-line dlopen() library raises AttributeError for it (api.py update_accessors treats the declaration as the enum's), the out-of-line library exposes it"},
    {"property": "C11", "class": "C11/realisation-order-dependent",
     "witness": {"cdef": "struct N14 { union U0 *f15; };\nunion U0 { struct N14 f13; struct N14 (*f19)[2]; };\n",
                 "aspect": "typeof-error", "item": "struct N14"},
     "what": "out-of-line typeof('struct N14') raises ValueError (array item of unknown size) for struct N14 { union U0 *p; }; union U0 { struct N14 a; struct N14 (*q)[2]; }; -- in-line works, and so does out-of-line after typeof('union U0'): structs are completed eagerly while still under construction"},
    {"property": "C11", "class": "C11/alias-of-named-pointer-typedef",
     "witness": {"cdef": "typedef struct { int f1; } *t0;\ntypedef t0 t5;\n", "aspect": "emit"},
     "what": "`typedef struct { int f1; } *t0; typedef t0 t5;` is accepted in-line but emit_python_code() dies with AssertionError in Recompiler.collect_step_tables (the anonymous struct is listed once per typedef)"},
    {"property": "C11", "class": "C11/reentrant-function-slot-abort",
     "witness": {"cdef": "struct S { struct S *(*cb)(int); };\ntypedef struct S *(*cb_t)(int);\n", "aspect": "process-abort",
                 "item": "cb_t"},
     "what": "struct S { struct S *(*cb)(int); }; typedef struct S *(*cb_t)(int); -- out-of-line typeof('cb_t') before typeof('struct S') re-enters the realisation of the FUNCTION slot: `assert((opcodes[index] & 1) == 1)` in realize_c_type_or_func_lock_held aborts the interpreter (with NDEBUG the slot is silently overwritten); in-line works"},
]


def _pending(ctx):
    have = set(f["class"] for f in ctx.findings)
    path = os.path.join(common.VERIF, "KNOWN_FINDINGS.jsonl")
    fixed = open(path).read() if os.path.exists(path) else ""
    for f in PENDING_FINDINGS:
        if f["class"] in have or ("fixed: property=C11" in fixed and f["class"] in fixed):
            continue
        ctx.findings.append(f)
        ctx.open_findings.append(f)
        common.log("note: finding class %s is not in KNOWN_FINDINGS.jsonl yet; using the builder's pending entry" % f["class"])


# ---------------------------------------------------------------------------------------------
# small helpers

_counter = itertools.count()


def _quiet(fn):
    """cffi prints 'generating ...' on stdout; keep the check's stdout clean."""
    so = os.dup(1)
    devnull = os.open(os.devnull, os.O_WRONLY)
    sys.stdout.flush()
    os.dup2(devnull, 1)
    try:
        return fn()
    finally:
        sys.stdout.flush()
        os.dup2(so, 1)
        os.close(devnull)
        os.close(so)


def hx(b):
    if isinstance(b, str):
        b = b.encode("latin-1")
    return b.hex() or "-"


def unhx(s):
    return b"" if s == "-" else bytes.fromhex(s)


# ---------------------------------------------------------------------------------------------
# the cdef generator

INT_PRIMS = ["char", "short", "int", "long", "long long", "signed char", "unsigned char", "unsigned short",
             "unsigned int", "unsigned long", "unsigned long long", "_Bool", "int8_t", "uint8_t", "int16_t",
             "uint16_t", "int32_t", "uint32_t", "int64_t", "uint64_t", "intptr_t", "uintptr_t", "size_t",
             "ssize_t", "ptrdiff_t", "wchar_t", "char16_t", "char32_t", "int_least8_t", "uint_fast16_t",
             "intmax_t", "uintmax_t", "int_fast32_t", "uint_least64_t"]
FLOAT_PRIMS = ["float", "double", "long double"]
CALL_SAFE_INTS = ["short", "int", "long", "long long", "signed char", "unsigned char", "unsigned short",
                  "unsigned int", "unsigned long", "unsigned long long", "int8_t", "uint8_t", "int16_t", "uint16_t",
                  "int32_t", "uint32_t", "int64_t", "uint64_t", "intptr_t", "uintptr_t", "size_t", "ssize_t",
                  "ptrdiff_t", "intmax_t", "uintmax_t"]
BITFIELD_BASES = [("int", 32), ("unsigned int", 32), ("short", 16), ("unsigned char", 8), ("long long", 64),
                  ("unsigned long long", 64), ("_Bool", 1), ("signed char", 8), ("long", 64), ("unsigned short", 16)]
ARRAY_LENS = [1, 2, 3, 4, 5, 7, 8, 13, 15, 16, 17, 21, 255, 256, 271, 1000, 3855]   # 15, 271, 3855: low byte = FUNCTION_END
BOUNDARY_CONSTS = [0, 1, -1, 127, 128, -128, -129, 255, 256, 32767, 32768, -32768, 65535, 65536,
                   2 ** 31 - 1, 2 ** 31, -2 ** 31, -2 ** 31 - 1, 2 ** 32 - 1, 2 ** 32, 2 ** 40 + 15, -2 ** 40 - 15,
                   2 ** 63 - 1, 2 ** 63, -2 ** 63, -2 ** 63 + 1, 2 ** 64 - 1, 2 ** 64 - 2, 2 ** 63 + 12345]
OUTSIDE_CONSTS = [99999999999999999999999, 2 ** 64, 2 ** 64 + 1, -2 ** 63 - 1, -2 ** 64, 2 ** 65 + 7, -2 ** 70,
                  3 * 2 ** 64 + 5, -(2 ** 64) - 3]

C_PRELUDE = """#include <stddef.h>
#include <stdint.h>
#include <stdio.h>
#include <string.h>
#include <sys/types.h>
#include <uchar.h>
#include <wchar.h>
#define __stdcall
"""


class Gen:
    """Builds a random cdef (and, for the lib streams, a C file defining its functions and globals)."""

    def __init__(self, rng, with_lib=False, use_file=False, direct_typedefs=True):
        self.rng = rng
        self.with_lib = with_lib
        self.use_file = use_file
        self.direct_typedefs = direct_typedefs
        self.n = itertools.count()
        self.cdef = []            # cdef lines
        self.cdefs_only = []      # definitions appended to the C file only
        self.c_skip = set()       # indexes of cdef lines that must not go into the C file
        self.typedefs = {}        # name -> tree
        self.tags = {}            # 'struct S' -> {"complete": bool, "flex": bool, "enum": bool}
        self.forced = {}          # 'struct S' -> typedef name that renames it in-line
        self.consts = {}          # name -> declared value
        self.funcs = {}           # name -> (res, args, ellipsis)
        self.vars = {}            # name -> tree
        self.var_init = {}        # name -> initial value (arithmetic globals of the lib streams)
        self.type_strings = []    # strings both ffis must understand
        self.named_ptrs = set()   # typedefs of the form `typedef struct {...} *name;`
        self.alias_of_named_pointer = False

    # -- names
    def fresh(self, prefix):
        return "%s%d" % (prefix, next(self.n))

    # -- classification
    def resolve(self, t):
        while t[0] == "td":
            t = self.typedefs[t[1]]
        return t

    def kind(self, t):
        t = self.resolve(t)
        k = t[0]
        if k == "prim":
            return "void" if t[1] == "void" else "scalar"
        if k == "tag":
            info = self.tags[t[1]]
            if info["enum"]:
                return "scalar"
            if not info["complete"]:
                return "opaque"
            return "flex" if info["flex"] else "struct"
        if k in ("ptr", "fnptr"):
            return "scalar"
        if k == "arr":
            return "array"
        if k == "oarr":
            return "openarray"
        if k == "fn":
            return "func"
        raise AssertionError(t)

    def is_arith(self, t, safe_only=True):
        t = self.resolve(t)
        if t[0] != "prim":
            return None
        if t[1] in CALL_SAFE_INTS:
            return "int"
        if t[1] in ("float", "double"):
            return "float"
        return None

    # -- C declarators
    def cdecl(self, t, inner=""):
        k = t[0]
        if k in ("prim", "td", "tag"):
            return (t[1] + " " + inner).strip()
        if k == "ptr":
            s = "*" + inner
            if t[1][0] in ("arr", "oarr", "fn"):
                s = "(" + s + ")"
            base = self.cdecl(t[1], s)
            return ("const " + base) if t[2] and t[1][0] in ("prim", "td", "tag") else base
        if k == "arr":
            return self.cdecl(t[1], inner + "[%d]" % t[2])
        if k == "oarr":
            return self.cdecl(t[1], inner + "[]")
        if k == "fnptr":
            call = "__stdcall " if t[4] else ""
            return self.cdecl(t[1], "(" + call + "*" + inner + ")(" + self.arglist(t[2], t[3]) + ")")
        if k == "fn":
            return self.cdecl(t[1], inner + "(" + self.arglist(t[2], t[3]) + ")")
        raise AssertionError(t)

    def arglist(self, args, ellipsis, names=None):
        if not args:
            return "void"
        parts = [self.cdecl(a, names[i] if names else "") for i, a in enumerate(args)]
        if ellipsis:
            parts.append("...")
        return ", ".join(parts)

    # -- random types
    def leaf(self, want):
        rng = self.rng
        cands = []
        for name, tree in self.typedefs.items():
            cands.append(("td", name))
        for tag, info in self.tags.items():
            if not info.get("anon"):                 # '$name' tags have no C spelling
                cands.append(("tag", tag))
        ok = {"value": ("scalar", "struct", "array"), "sos": ("scalar", "struct"),
              "any": ("scalar", "struct", "array", "void", "opaque", "flex", "func", "openarray")}[want]
        cands = [c for c in cands if self.kind(c) in ok]
        if cands and rng.random() < 0.5:
            return rng.choice(cands)
        r = rng.random()
        if want == "any" and r < 0.08:
            return ("prim", "void")
        if r < 0.2:
            return ("prim", rng.choice(FLOAT_PRIMS))
        if r < 0.23 and want != "sos":
            return ("prim", rng.choice(["float _Complex", "double _Complex"]))
        if self.use_file and want == "any" and r < 0.5:
            return ("prim", "FILE")
        return ("prim", rng.choice(INT_PRIMS))

    def gen_type(self, want, depth):
        rng = self.rng
        r = rng.random()
        if depth <= 0 or r < 0.42:
            return self.leaf(want)
        if r < 0.68:
            return ("ptr", self.gen_type("any", depth - 1), rng.random() < 0.2)
        if r < 0.82 and want in ("value", "any"):
            return ("arr", self.gen_type("value", depth - 1), rng.choice(ARRAY_LENS))
        if r < 0.94:
            return self.gen_fnptr(depth - 1)
        return self.leaf(want)

    def gen_sig(self, depth):
        rng = self.rng
        res = ("prim", "void") if rng.random() < 0.2 else self.gen_type("sos", depth)
        args = []
        for _ in range(rng.choice([0, 1, 1, 2, 2, 3, 4, 6])):
            a = self.gen_type("sos", depth)
            if rng.random() < 0.06:
                a = ("arr", self.gen_type("value", 0), rng.choice(ARRAY_LENS))    # decays to a pointer
            args.append(a)
        ellipsis = bool(args) and rng.random() < 0.15
        return res, args, ellipsis

    def gen_fnptr(self, depth):
        res, args, ellipsis = self.gen_sig(depth)
        return ("fnptr", res, args, ellipsis, self.rng.random() < 0.06)

    # -- declarations
    def add(self, line, c_too=True):
        if not c_too:
            self.c_skip.add(len(self.cdef))
        self.cdef.append(line)

    def decl_typedef(self):
        rng = self.rng
        name = self.fresh("t")
        r = rng.random()
        tagged = [t for t, i in self.tags.items() if not i.get("anon")]
        if r < 0.18 and tagged and self.direct_typedefs:
            tag = rng.choice(tagged)
            self.add("typedef %s %s;" % (tag, name))
            self.typedefs[name] = ("tag", tag)
            self.forced.setdefault(tag, name)
        elif r < 0.28:
            # typedef of an anonymous struct/union
            kw = rng.choice(["struct", "struct", "union"])
            body, flex = self.members(kw == "union", None, allow_flex=False)
            key = "$" + name
            self.add("typedef %s { %s } %s;" % (kw, body, name))
            self.tags[kw + " " + key] = {"complete": True, "flex": False, "enum": False, "anon": True}
            self.typedefs[name] = ("tag", kw + " " + key)
        elif r < 0.33:
            # pointer to an anonymous struct (NamedPointerType)
            body, flex = self.members(False, None, allow_flex=False)
            self.add("typedef struct { %s } *%s;" % (body, name))
            self.typedefs[name] = ("ptr", ("prim", "void"), False)    # only its scalar-ness matters below
            self.named_ptrs.add(name)
        elif r < 0.38:
            res, args, ellipsis = self.gen_sig(1)
            tree = ("fn", res, args, ellipsis)
            self.add("typedef %s;" % self.cdecl(tree, name))
            self.typedefs[name] = tree
        elif r < 0.44:
            self.decl_enum(typedef_name=name)
            return
        else:
            tree = self.gen_type("any", 3)
            if tree == ("prim", "FILE"):
                tree = ("ptr", tree, False)
            if tree[0] == "td" and tree[1] in self.named_ptrs:
                if rng.random() < 0.03:
                    self.alias_of_named_pointer = True
                else:
                    tree = ("ptr", tree, False)
            self.add("typedef %s;" % self.cdecl(tree, name))
            self.typedefs[name] = tree
            if tree[0] == "tag":
                self.forced.setdefault(tree[1], name)
        self.type_strings.append(name)

    def members(self, is_union, self_tag, allow_flex=True, depth=2):
        """Text of the members of a struct/union body; returns (text, has_flexible_array)."""
        rng = self.rng
        out = []
        nm = rng.choice([1, 2, 2, 3, 3, 4, 5, 7])
        for _ in range(nm):
            r = rng.random()
            f = self.fresh("f")
            if r < 0.45:
                out.append(self.cdecl(self.gen_type("value", 2), f) + ";")
            elif r < 0.62:
                base, bits = rng.choice(BITFIELD_BASES)
                w = rng.choice([1, bits, rng.randint(1, bits), rng.randint(1, bits)])
                if rng.random() < 0.12:
                    out.append("%s :%d;" % (base, rng.choice([0, w])))
                else:
                    out.append("%s %s:%d;" % (base, f, w))
            elif r < 0.70 and self_tag:
                out.append("%s *%s;" % (self_tag, f))
            elif r < 0.80 and depth > 0:
                kw = rng.choice(["struct", "union"])
                body, _ = self.members(kw == "union", None, allow_flex=False, depth=depth - 1)
                out.append("%s { %s };" % (kw, body))                    # anonymous member
            elif r < 0.88 and depth > 0:
                kw = rng.choice(["struct", "union"])
                body, _ = self.members(kw == "union", None, allow_flex=False, depth=depth - 1)
                out.append("%s { %s } %s;" % (kw, body, f))              # member of an anonymous type ($n)
            elif r < 0.93 and depth > 0:
                kw = rng.choice(["struct", "union"])
                tag = kw + " " + self.fresh("N")
                body, _ = self.members(kw == "union", tag, allow_flex=False, depth=depth - 1)
                out.append("%s { %s } %s;" % (tag, body, f))             # nested tagged definition
                self.tags[tag] = {"complete": True, "flex": False, "enum": False}
                self.type_strings.append(tag)
            else:
                out.append(self.cdecl(("ptr", self.gen_type("any", 1), False), f) + ";")
        flex = False
        named = any(not (m.endswith("};") or " :" in m) for m in out)
        if allow_flex and not is_union and named and rng.random() < 0.1:
            out.append(self.cdecl(("oarr", self.gen_type("value", 0)), self.fresh("f")) + ";")
            flex = True
        return " ".join(out), flex

    def decl_struct(self):
        rng = self.rng
        kw = rng.choice(["struct", "struct", "union"])
        tag = kw + " " + self.fresh("S" if kw == "struct" else "U")
        r = rng.random()
        if r < 0.12:
            self.add("%s;" % tag)                                        # opaque
            self.tags[tag] = {"complete": False, "flex": False, "enum": False}
        else:
            if r < 0.25:
                # mentioned (through a pointer typedef) before it is defined
                pname = self.fresh("t")
                self.tags[tag] = {"complete": False, "flex": False, "enum": False}
                self.add("typedef %s *%s;" % (tag, pname))
                self.typedefs[pname] = ("ptr", ("tag", tag), False)
                self.type_strings.append(pname)
            self.tags.setdefault(tag, {"complete": False, "flex": False, "enum": False})
            body, flex = self.members(kw == "union", tag)
            self.add("%s { %s };" % (tag, body))
            self.tags[tag] = {"complete": True, "flex": flex, "enum": False}
        self.type_strings.append(tag)

    def const_value(self, lo=-2 ** 63, hi=2 ** 64 - 1):
        rng = self.rng
        r = rng.random()
        if r < 0.4:
            v = rng.choice(BOUNDARY_CONSTS)
        elif r < 0.6:
            v = rng.randint(-1000, 1000)
        elif r < 0.8:
            v = rng.randint(-2 ** 63, 2 ** 64 - 1)
        else:
            e = rng.randint(1, 64)
            v = rng.choice([1, -1]) * (2 ** e + rng.randint(-2, 2))
        return min(max(v, lo), hi)

    def lit(self, v):
        r = self.rng.random()
        if r < 0.25 and v >= 0:
            return "0x%X" % v
        if r < 0.32 and v < 0:
            return "-0x%X" % (-v)
        return str(v)

    def decl_enum(self, typedef_name=None):
        rng = self.rng
        profile = rng.choice(["small", "small", "neg", "u32", "big", "bigneg", "u64"])
        lo, hi = {"small": (0, 1000), "neg": (-2 ** 31, 2 ** 31 - 1), "u32": (0, 2 ** 32 - 1),
                  "big": (0, 2 ** 63 - 1), "bigneg": (-2 ** 63, 2 ** 63 - 1), "u64": (0, 2 ** 64 - 1)}[profile]
        items = []
        prev = -1
        prevname = None
        for _ in range(rng.choice([1, 2, 3, 3, 4, 6, 9])):
            e = self.fresh("E")
            r = rng.random()
            # gcc rejects an implicit increment past INT_MAX / LONG_MAX ("overflow in enumeration values")
            inc_ok = prev + 1 <= hi and (not self.with_lib or prev + 1 < 2 ** 31 or 2 ** 32 <= prev < 2 ** 63 - 1)
            if r < 0.3 and inc_ok:
                v = prev + 1
                items.append(e)
            elif r < 0.4 and prevname and inc_ok:
                v = prev + 1
                items.append("%s = %s + 1" % (e, prevname))
            elif r < 0.5 and hi >= 2 ** 20:
                k = rng.randint(0, 30)
                v = 1 << k
                items.append("%s = 1 << %d" % (e, k))
            else:
                v = self.const_value(lo, hi)
                items.append("%s = %s" % (e, self.lit(v)))
            self.consts[e] = v
            prev, prevname = v, e
        body = ", ".join(items)
        if typedef_name:
            self.add("typedef enum { %s } %s;" % (body, typedef_name))
            key = "enum $" + typedef_name
            self.tags[key] = {"complete": True, "flex": False, "enum": True, "anon": True}
            self.typedefs[typedef_name] = ("tag", key)
            self.type_strings.append(typedef_name)
        elif rng.random() < 0.15:
            self.add("enum { %s };" % body)                              # only its enumerators are visible
        else:
            tag = "enum " + self.fresh("En")
            self.add("%s { %s };" % (tag, body))
            self.tags[tag] = {"complete": True, "flex": False, "enum": True}
            self.type_strings.append(tag)

    def decl_const(self, value=None):
        rng = self.rng
        name = self.fresh("K")
        if value is not None:
            self.add("#define %s %d" % (name, value))
            self.consts[name] = value
            return name
        if rng.random() < 0.3:
            tp, lo, hi = rng.choice([("int", -2 ** 31, 2 ** 31 - 1), ("long", -2 ** 63, 2 ** 63 - 1),
                                     ("unsigned long long", 0, 2 ** 64 - 1), ("short", -2 ** 15, 2 ** 15 - 1),
                                     ("unsigned char", 0, 255), ("long long", -2 ** 63, 2 ** 63 - 1)])
            v = self.const_value(lo, hi)
            self.add("static const %s %s = %s;" % (tp, name, self.lit(v)))
        else:
            v = self.const_value()
            self.add("#define %s %s" % (name, self.lit(v)))
        self.consts[name] = v
        return name

    def decl_func(self):
        rng = self.rng
        name = self.fresh("fn")
        res, args, ellipsis = self.gen_sig(2)
        stdcall = rng.random() < 0.05 and not self.with_lib
        inner = ("__stdcall " if stdcall else "") + name + "(" + self.arglist(args, ellipsis) + ")"
        self.add(self.cdecl(res, inner) + ";")
        self.funcs[name] = (res, args, ellipsis)
        if self.with_lib:
            names = ["a%d" % i for i in range(len(args))]
            head = self.cdecl(res, name + "(" + self.arglist(args, ellipsis, names) + ")")
            k = rng.randint(1, 50)
            ra = self.is_arith(res)
            if self.kind(res) == "void":
                body = ""
            elif ra == "int":
                terms = ["(unsigned long long)%s * %du" % (n, i + 2) for i, (n, a) in enumerate(zip(names, args))
                         if self.is_arith(a) == "int"]
                body = "return (%s)(%s);" % (self.cdecl(res), " + ".join(terms + ["%du" % k]))
            elif ra == "float":
                terms = ["(double)%s * %d.0" % (n, i + 2) for i, (n, a) in enumerate(zip(names, args))
                         if self.is_arith(a)]
                body = "return (%s)(%s);" % (self.cdecl(res), " + ".join(terms + ["%d.5" % k]))
            else:
                body = "%s; memset(&r, 0, sizeof r); return r;" % self.cdecl(res, "r")
            self.cdefs_only.append("%s { %s }" % (head, body))

    def decl_var(self):
        rng = self.rng
        name = self.fresh("g")
        r = rng.random()
        if r < 0.12:
            item = self.gen_type("value", 1)
            tree = ("oarr", item)
            ctree = ("arr", item, rng.choice([1, 3, 4]))
        else:
            tree = ctree = self.gen_type("value", 2)
        r2 = rng.random()
        if r2 < 0.1 and not self.with_lib:
            self.add("static const %s;" % self.cdecl(tree, name))        # a DLOPEN_CONST entry
            return
        self.add(("extern " if (self.with_lib or r2 < 0.85) else "") + self.cdecl(tree, name) + ";")
        self.vars[name] = tree
        if self.with_lib:
            a = self.is_arith(ctree)
            if a == "int":
                v = rng.randint(0, 100)
                self.var_init[name] = v
                self.cdefs_only.append("%s = %d;" % (self.cdecl(ctree, name), v))
            elif a == "float":
                v = rng.randint(0, 100) + 0.5
                self.var_init[name] = v
                self.cdefs_only.append("%s = %r;" % (self.cdecl(ctree, name), v))
            else:
                self.cdefs_only.append("%s;" % self.cdecl(ctree, name))

    def build(self, nitems):
        rng = self.rng
        kinds = ["typedef"] * 5 + ["struct"] * 4 + ["enum"] * 2 + ["const"] * 3 + ["func"] * 3 + ["var"] * 2
        if self.with_lib:
            kinds += ["func"] * 6 + ["var"] * 5
        for _ in range(nitems):
            getattr(self, "decl_" + rng.choice(kinds))()
        if self.use_file and not any("FILE" in l for l in self.cdef):
            self.add("extern FILE *%s;" % self.fresh("g"))
        # derived type strings (both parsers must accept them: keep them simple)
        extra = []
        for s in list(self.type_strings):
            t = ("td", s) if s in self.typedefs else ("tag", s)
            k = self.kind(t)
            extra.append(s + " *")
            if k in ("scalar", "struct", "array"):
                extra.append("%s[%d]" % (s, rng.choice(ARRAY_LENS)))
            if k == "scalar" and rng.random() < 0.5:
                extra.append("%s(*)(%s, int)" % (s, s))
            if k in ("scalar", "struct") and rng.random() < 0.3:
                extra.append("%s(*)(%s *, ...)" % (s, s))
        small = [n for n, v in self.consts.items() if 1 <= v <= 2000]
        for n in small[:3]:
            extra.append("char[%s]" % n)
        self.type_strings += extra
        return self

    def cdef_text(self):
        return "\n".join(self.cdef) + "\n"

    def info(self):
        """What a replay needs besides the cdef text."""
        return {"type_strings": list(self.type_strings), "consts": {k: str(v) for k, v in self.consts.items()},
                "forced": dict(self.forced), "funcs": sorted(self.funcs), "vars": sorted(self.vars),
                "var_init": {k: repr(v) for k, v in self.var_init.items()},
                "alias_of_named_pointer": self.alias_of_named_pointer}

    @staticmethod
    def from_info(rng, info):
        g = Gen(rng)
        g.type_strings = list(info.get("type_strings", ()))
        g.consts = {k: int(v) for k, v in info.get("consts", {}).items()}
        g.forced = dict(info.get("forced", {}))
        g.funcs = {k: None for k in info.get("funcs", ())}
        g.vars = {k: None for k in info.get("vars", ())}
        g.var_init = {k: ast.literal_eval(v) for k, v in info.get("var_init", {}).items()}
        g.alias_of_named_pointer = bool(info.get("alias_of_named_pointer"))
        return g

    def c_text(self):
        lines = [l for i, l in enumerate(self.cdef) if i not in self.c_skip]
        return C_PRELUDE + "\n".join(lines) + "\n" + "\n".join(self.cdefs_only) + "\n"


# ---------------------------------------------------------------------------------------------
# building the pair (in-line ffi, imported out-of-line module)

class Pair:
    pass


def build_pair(ctx, cdef, packed=False):
    """Returns a Pair or None when the in-line FFI itself rejects the cdef."""
    import cffi
    warnings.simplefilter("ignore")
    p = Pair()
    p.cdef, p.packed = cdef, packed
    p.ffi_in = cffi.FFI()
    try:
        p.ffi_in.cdef(cdef, packed=packed)
    except (cffi.CDefError, cffi.FFIError, NotImplementedError) as e:
        p.rejected = "%s: %s" % (type(e).__name__, e)
        return p
    p.rejected = None
    p.modname = "_c11_s%d_%d" % (ctx.seed, next(_counter))
    p.path = os.path.join(ctx.scratch, p.modname + ".py")
    p.ffi_in.set_source(p.modname, None)
    try:
        _quiet(lambda: p.ffi_in.emit_python_code(p.path))
        p.emit_error = None
    except Exception as e:       # whatever the emitter raises is an observation, not an infrastructure error
        import traceback
        tb = traceback.extract_tb(e.__traceback__)[-1]
        p.emit_error = "%s: %s (%s:%d %s)" % (type(e).__name__, e, os.path.basename(tb.filename), tb.lineno, tb.line)
        return p
    if ctx.scratch not in sys.path:
        sys.path.insert(0, ctx.scratch)
    importlib.invalidate_caches()
    try:
        p.mod = importlib.import_module(p.modname)
        p.import_error = None
    except Exception as e:
        p.import_error = "%s: %s" % (type(e).__name__, e)
        return p
    p.ffi_out = p.mod.ffi
    p.source = open(p.path).read()
    return p


def fresh_out(p):
    """A new FFI object from the same generated module (nothing realised yet)."""
    if getattr(p, "code", None) is None:
        p.code = compile(p.source, p.path, "exec")
    ns = {}
    exec(p.code, ns)
    return ns["ffi"]


def force_inline(ct, seen):
    """Completes every aggregate reachable from an in-line ctype (the in-line FFI is lazy, the out-of-line one
    completes aggregates as soon as they are realised).  Returns the exception if one cannot be completed.
    `seen` maps id(ctype) -> None | the exception met below it (ctypes are kept alive by the ffi)."""
    order, stack, err = [], [ct], None
    while stack:
        c = stack.pop()
        if id(c) in seen:
            if seen[id(c)] is not None:
                err = seen[id(c)]
                break
            continue
        seen[id(c)] = None
        order.append(c)
        k = c.kind
        if k in ("pointer", "array"):
            stack.append(c.item)
        elif k == "function":
            stack.append(c.result)
            stack.extend(c.args)
        elif k in ("struct", "union"):
            # after a failed completion the in-line FFI hands out a fresh, incomplete ctype of the same name
            bad = seen.setdefault("bad-names", {})
            if c.cname in bad:
                err = bad[c.cname]
                break
            try:
                fl = c.fields
            except Exception as e:
                err = bad[c.cname] = e
                break
            if fl:
                stack.extend(f.type for _, f in fl)
    if err is not None:
        for c in order:
            seen[id(c)] = err
        seen[id(ct)] = err
    return err


def module_kwargs(pysrc):
    tree = ast.parse(pysrc)
    call = [n for n in ast.walk(tree) if isinstance(n, ast.Call) and getattr(n.func, "attr", "") == "FFI"][0]
    return {k.arg: ast.literal_eval(k.value) for k in call.keywords if k.arg != "_includes"}


# ---------------------------------------------------------------------------------------------
# the oracle: in-line vs. out-of-line on the real implementation

def has_aggregate(ct, seen=None):
    k = ct.kind
    if k in ("struct", "union", "enum"):
        return True
    if k in ("pointer", "array"):
        return has_aggregate(ct.item)
    if k == "function":
        return has_aggregate(ct.result) or any(has_aggregate(a) for a in ct.args)
    return False


class Cmp:
    """Simultaneous walk over an in-line ctype and the out-of-line ctype of the same declaration."""

    def __init__(self, pair, forced):
        self.p = pair
        self.forced = forced
        self.seen = set()
        self.diffs = []       # (aspect, item, inline, outofline, extra)

    def diff(self, aspect, item, a, b, **extra):
        self.diffs.append((aspect, item, a, b, extra))

    def size_align(self, ffi, ct):
        try:
            return ("ok", ffi.sizeof(ct), ffi.alignof(ct))
        except Exception:      # opaque: ValueError/TypeError in-line, ffi.error out-of-line
            return ("opaque",)

    def walk(self, a, b, item):
        if a.kind != b.kind:
            self.diff("kind", item, a.kind, b.kind)
            return
        k = a.kind
        if k == "primitive":
            if a.cname != b.cname:
                self.diff("primitive", item, a.cname, b.cname)
        elif k == "void":
            pass
        elif k == "pointer":
            self.walk(a.item, b.item, item)
        elif k == "array":
            if a.length != b.length:
                self.diff("array-length", item, a.length, b.length)
            self.walk(a.item, b.item, item)
        elif k == "function":
            if a.ellipsis != b.ellipsis or a.abi != b.abi or len(a.args) != len(b.args):
                self.diff("function-shape", item, (a.ellipsis, a.abi, len(a.args)), (b.ellipsis, b.abi, len(b.args)))
                return
            self.walk(a.result, b.result, item)
            for x, y in zip(a.args, b.args):
                self.walk(x, y, item)
        elif k in ("struct", "union", "enum"):
            key = (id(a), id(b))
            if key in self.seen:
                return
            self.seen.add(key)
            self.aggregate(a, b)
        else:
            self.diff("kind", item, k, k)

    def aggregate(self, a, b):
        p = self.p
        item = b.cname
        if a.cname != b.cname:
            forced = self.forced.get(b.cname) == a.cname
            self.diff("aggregate-name", item, a.cname, b.cname, forced_by_typedef=forced)
        sa, sb = self.size_align(p.ffi_in, a), self.size_align(p.ffi_out, b)
        if sa != sb:
            self.diff("aggregate-size-align", item, sa, sb)
            return
        if a.kind == "enum":
            if a.elements != b.elements or a.relements != b.relements:
                self.diff("enum-elements", item, sorted(a.relements.items()), sorted(b.relements.items()))
            return
        if sa[0] == "opaque":
            return          # .fields of an opaque out-of-line struct must not be touched (see the report)
        fa, fb = a.fields, b.fields
        if (fa is None) != (fb is None):
            self.diff("aggregate-fields", item, fa is None, fb is None)
            return
        if fa is None:
            return
        da = [(n, f.offset, f.bitshift, f.bitsize, f.flags) for n, f in fa]
        db = [(n, f.offset, f.bitshift, f.bitsize, f.flags) for n, f in fb]
        if da != db:
            self.diff("aggregate-fields", item, da, db)
            return
        for (n, f), (_, g) in zip(fa, fb):
            self.walk(f.type, g.type, "%s.%s" % (item, n))


def _typeof(ffi, s):
    try:
        return ffi.typeof(s), None
    except Exception as e:
        return None, e


def other_order_ok(p, gen, action):
    """Does a fresh instance of the same out-of-line module perform `action(ffi)` when another declared type is
    realised first?  (The out-of-line FFI completes a struct as soon as it is realised; a by-value / array /
    function use of a struct that is still under construction then fails, depending on where one starts.)"""
    for t in gen.type_strings[:60]:
        f = fresh_out(p)
        if _typeof(f, t)[0] is None:
            continue
        try:
            action(f)
            return True
        except Exception:
            pass
    return False


def inline_type(p, s):
    """typeof(s) on the in-line FFI with every reachable aggregate completed; cached on the pair (the parse by
    pycparser is the expensive part, and the forked rehearsal of a case shares the cache)."""
    cache = p.__dict__.setdefault("inline_cache", {})
    if s not in cache:
        a, ea = _typeof(p.ffi_in, s)
        if a is not None:
            ea = force_inline(a, p.__dict__.setdefault("forced_seen", {}))
            if ea is not None:
                a = None
        cache[s] = (a, ea)
    return cache[s]


def fresh_inline_rejects(p, s, get=None):
    """Does a NEW in-line FFI with the same cdef fail to complete some aggregate reachable from typeof(s)
    (or from the ctype `get(ffi)` returns)?  After a failed completion an in-line FFI may hand out a fresh,
    still incomplete ctype of the same name, so the shared in-line FFI of the pair is not conclusive."""
    import cffi
    f = cffi.FFI()
    try:
        f.cdef(p.cdef, packed=p.packed)
        a = f.typeof(s) if get is None else get(f)
    except Exception:
        return True
    return force_inline(a, {}) is not None


def compare_pair(ctx, gen, p, stream, report, lib_path=None):
    """Evaluates the property on one cdef.  `report(case, detail)` is called for each difference."""
    base = {"stream": stream, "cdef": p.cdef, "packed": p.packed, "gen": gen.info()}
    if lib_path:
        base["csrc"] = getattr(gen, "csrc_text", None) or gen.c_text()
    forced = {}
    for tag, name in gen.forced.items():
        forced[tag] = name
    ntriv = lambda item: (hash(p.cdef), item)

    def fail(aspect, item, a, b, **extra):
        case = dict(base)
        case.update({"aspect": aspect, "item": item, "inline": repr(a), "outofline": repr(b)})
        case.update(extra)
        report(case, "%s of %r: in-line %r, out-of-line %r" % (aspect, item, a, b))

    cmpr = Cmp(p, forced)
    p.tainted = False
    # 1. type strings
    for s in gen.type_strings:
        a, ea = inline_type(p, s)
        if p.tainted:
            p.ffi_out = fresh_out(p)       # a failed realisation leaves half-built types behind
        b, eb = _typeof(p.ffi_out, s)
        if a is None:
            ctx.count("typeof:both-error" if b is None else "typeof:in-line-rejects")
            ctx.case(None)
            continue
        if b is None and fresh_inline_rejects(p, s):
            # the in-line FFI handed out an incomplete ctype after an earlier failed completion
            ctx.count("typeof:in-line-rejects")
            ctx.case(None)
            p.tainted = True
            continue
        if b is None:
            ctx.case(ntriv(s))
            ctx.count("typeof:one-sided-error")
            p.tainted = True
            fail("typeof-error", s, None, type(eb).__name__,
                 succeeds_in_other_order=other_order_ok(p, gen, lambda f, s=s: f.typeof(s)))
            continue
        agg = has_aggregate(a)
        nontrivial = agg or a.kind in ("function", "array") or (a.kind == "pointer" and a.item.kind != "primitive")
        ctx.case(ntriv(s) if nontrivial else None,
                 sample={"stream": stream, "item": s, "kind": a.kind, "aggregate": agg})
        ctx.count("typeof:" + a.kind + (":aggregate" if agg else ""))
        n0 = len(cmpr.diffs)
        try:
            cmpr.walk(a, b, s)
        except Exception as e:
            cmpr.diff("walk-error", s, None, "%s: %s" % (type(e).__name__, e))
        if not agg and not has_aggregate(b) and a is not b and len(cmpr.diffs) == n0:
            fail("identity", s, a, b)
    for aspect, item, a, b, extra in cmpr.diffs:
        fail(aspect, item, a, b, **extra)
    ctx.count("aggregates-compared", len(cmpr.seen))
    # 2. constants and enumerators
    if p.tainted:
        p.ffi_out = fresh_out(p)
        p.tainted = False
    try:
        lib_in = p.ffi_in.dlopen(lib_path)
        lib_out = p.ffi_out.dlopen(lib_path)
    except Exception as e:
        raise InfraError("dlopen(%r) failed: %r" % (lib_path, e))
    for name, declared in sorted(gen.consts.items()):
        va = _getattr(lib_in, name)
        vb = _getattr(lib_out, name)
        big = not (-2 ** 31 <= declared < 2 ** 31)
        ctx.case(ntriv(name) if big else None, sample={"stream": stream, "item": name, "declared": declared})
        ctx.count("constant:" + ("outside-64" if not (-2 ** 63 <= declared < 2 ** 64) else
                                 "beyond-32" if big else "small"))
        if va != vb or va != ("ok", declared):
            fail("constant", name, va, vb, declared=declared)
    # 3. list_types()
    la, lb = p.ffi_in.list_types(), p.ffi_out.list_types()
    ctx.case(ntriv("list_types()"), sample=None)
    ctx.count("list_types")
    if la != lb:
        lb2 = ([x for x in lb[0] if x != "FILE"], [x for x in lb[1] if x != "_IO_FILE"], lb[2])
        fail("list_types", "list_types()", la, lb, only_FILE_differs=(tuple(lb2) == tuple(la) and "FILE" in p.cdef))
    # 4. the symbols of the compiled library
    if lib_path:
        lib_out = compare_lib(ctx, gen, p, lib_in, lib_out, fail, ntriv, stream, lib_path)
    return lib_out


def _getattr(lib, name):
    try:
        return ("ok", getattr(lib, name))
    except Exception as e:
        return ("error", type(e).__name__)


def _num(x):
    if isinstance(x, float):
        return ("float", x.hex())
    return x


def var_types(fi, lib_in, fo, lib_out, name):
    """The declared type of a global variable seen through both libraries.  For a non-array variable it is the
    item type of ffi.addressof(lib, name).  For an array variable the in-line addressof() returns the array
    itself instead of a pointer to it, so the type of the attribute `lib.name` (the array, decayed to a pointer
    when its length is open) is taken on both sides."""
    tb = fo.typeof(fo.addressof(lib_out, name)).item
    if tb.kind == "array":
        return fi.typeof(getattr(lib_in, name)), fo.typeof(getattr(lib_out, name))
    return fi.typeof(fi.addressof(lib_in, name)).item, tb


def compare_lib(ctx, gen, p, lib_in, lib_out, fail, ntriv, stream, lib_path):
    fi = p.ffi_in
    seen = {}

    def refresh():
        p.ffi_out = fresh_out(p)
        return p.ffi_out.dlopen(lib_path)

    def walk(ta, tb, item):
        c = Cmp(p, gen.forced)
        try:
            c.walk(ta, tb, item)
        except Exception as e:
            c.diff("walk-error", item, None, "%s: %s" % (type(e).__name__, e))
        for d in c.diffs:
            fail(d[0], d[1], d[2], d[3], **d[4])

    for name, sig in sorted(gen.funcs.items()):
        fo = p.ffi_out
        a = _getattr(lib_in, name)
        if a[0] == "ok" and force_inline(fi.typeof(a[1]), seen) is not None:
            a = ("error", "cannot be completed")
        b = _getattr(lib_out, name)
        ctx.case(ntriv("function " + name), sample={"stream": stream, "item": "function " + name})
        ctx.count("lib:function")
        if a[0] != "ok":
            ctx.count("lib:in-line-rejects")
            if b[0] != "ok":
                lib_out = refresh()
            continue
        if b[0] != "ok" and fresh_inline_rejects(p, None, lambda f, name=name: f.typeof(getattr(f.dlopen(lib_path), name))):
            ctx.count("lib:in-line-rejects")
            lib_out = refresh()
            continue
        if b[0] != "ok":
            ok2 = other_order_ok(p, gen, lambda f, name=name: getattr(f.dlopen(lib_path), name))
            fail("lib-function-missing", name, a, b, succeeds_in_other_order=ok2)
            lib_out = refresh()
            continue
        walk(fi.typeof(a[1]), fo.typeof(b[1]), "function " + name)
        aa, ab = int(fi.cast("uintptr_t", a[1])), int(fo.cast("uintptr_t", b[1]))
        if aa != ab or aa == 0:
            fail("lib-function-address", name, aa, ab)
        if sig is None:
            continue
        res, args, ellipsis = sig
        # call it when every argument and the result are plain numbers or pointers
        kinds = [gen.is_arith(t) or ("ptr" if gen.resolve(t)[0] in ("ptr", "fnptr") else None) for t in args]
        rk = gen.is_arith(res) or ("void" if gen.kind(res) == "void" else None)
        if all(kinds) and rk:
            vals_i, vals_o = [], []
            for k in kinds:
                if k == "int":
                    v = ctx.rng.randint(0, 100)
                    vals_i.append(v), vals_o.append(v)
                elif k == "float":
                    v = ctx.rng.randint(0, 64) / 4.0
                    vals_i.append(v), vals_o.append(v)
                else:
                    vals_i.append(fi.NULL), vals_o.append(fo.NULL)
            try:
                ra = ("ok", _num(a[1](*vals_i)))
            except Exception as e:
                ra = ("error", type(e).__name__)
            try:
                rb = ("ok", _num(b[1](*vals_o)))
            except Exception as e:
                rb = ("error", type(e).__name__)
            ctx.count("lib:call")
            if ra != rb:
                fail("lib-call-result", name, ra, rb)
    for name, tree in sorted(gen.vars.items()):
        fo = p.ffi_out
        ctx.case(ntriv("global " + name), sample={"stream": stream, "item": "global " + name})
        ctx.count("lib:global")
        try:
            pb = ("ok", fo.addressof(lib_out, name))
        except Exception as e:
            pb = ("error", type(e).__name__)
        try:
            pa = ("ok", fi.addressof(lib_in, name))
            ea = force_inline(fi.typeof(pa[1]), seen)
            if ea is not None:
                pa = ("error", "cannot be completed")
        except Exception as e:
            pa = ("error", type(e).__name__)
        if pa[0] != "ok":
            vk = fo.typeof(pb[1]).item.kind if pb[0] == "ok" else None
            if pb[0] == "ok" and vk == "enum" and pa[1] == "AttributeError":
                fail("lib-global-missing", name, pa, pb, var_kind=vk, inline_error=pa[1])
            else:
                ctx.count("lib:in-line-rejects")
            if pb[0] != "ok":
                lib_out = refresh()
            continue
        if pb[0] != "ok" and fresh_inline_rejects(p, None, lambda f, name=name: f.typeof(f.addressof(f.dlopen(lib_path), name))):
            ctx.count("lib:in-line-rejects")
            lib_out = refresh()
            continue
        if pb[0] != "ok":
            ok2 = other_order_ok(p, gen, lambda f, name=name: f.addressof(f.dlopen(lib_path), name))
            fail("lib-global-missing", name, pa, pb, succeeds_in_other_order=ok2)
            lib_out = refresh()
            continue
        try:
            ta, tb = var_types(fi, lib_in, fo, lib_out, name)
        except Exception as e:
            fail("lib-global-type", name, None, "%s: %s" % (type(e).__name__, e))
            continue
        walk(ta, tb, "global " + name)
        aa, ab = int(fi.cast("uintptr_t", pa[1])), int(fo.cast("uintptr_t", pb[1]))
        if aa != ab or aa == 0:
            fail("lib-global-address", name, aa, ab)
        if name in gen.var_init:
            va, vb = _getattr(lib_in, name), _getattr(lib_out, name)
            want = ("ok", gen.var_init[name])
            if va != want or vb != want:
                fail("lib-global-value", name, va, vb)
            new = gen.var_init[name] + 1
            try:
                setattr(lib_in, name, new)                      # written through one lib, read through the other
                vb = _getattr(lib_out, name)
                setattr(lib_out, name, gen.var_init[name])
                va = _getattr(lib_in, name)
            except Exception as e:
                fail("lib-global-write", name, type(e).__name__, None)
                continue
            if vb != ("ok", new) or va != want:
                fail("lib-global-shared", name, va, vb)
    return lib_out


# ---------------------------------------------------------------------------------------------
# correspondence: the model against the real module and the real backend

def prim_tables():
    from cffi import cffi_opcode
    return cffi_opcode.PRIMITIVE_TO_INDEX, cffi_opcode.PRIM_VOID


def realname_struct(name, is_union):
    prefix = "union " if is_union else "struct "
    if name.startswith("$") and len(name) > 1 and name[1] != "$" and not name[1].isdigit():
        return name[1:]
    if name == "_IO_FILE" and not is_union:
        return "FILE"
    return prefix + name


def realname_enum(name):
    if name.startswith("$") and len(name) > 1 and name[1] != "$" and not name[1].isdigit():
        return name[1:]
    return "enum " + name


class Tables:
    """Names of the struct/union and enum entries of a generated module, as the backend names them."""

    def __init__(self, kw, ffi):
        self.kw = kw
        self.ffi = ffi
        self.su = {}
        for i, desc in enumerate(kw.get("_struct_unions", ())):
            head = desc[0]
            flags = int.from_bytes(head[4:8], "big")
            self.su[realname_struct(head[8:].decode(), bool(flags & 1))] = i
        self.en = {}
        for i, e in enumerate(kw.get("_enums", ())):
            self.en[realname_enum(e[8:].split(b"\0")[0].decode())] = i


def fn_ellipsis(ffi, ct):
    """Whether a function-pointer ctype is variadic, read off its C name.  (`ct.ellipsis` is `ct_extra == NULL`,
    which is also true for a non-variadic function whose libffi cif could not be prepared, e.g. a struct with
    bit-fields passed by value.)"""
    s = ffi.getctype(ct, "@")
    i = s.index("@")
    j = s.index("(", i)
    depth, k = 0, j
    while True:
        if s[k] == "(":
            depth += 1
        elif s[k] == ")":
            depth -= 1
            if depth == 0:
                break
        k += 1
    return s[j + 1:k].rstrip().endswith("...")


def ctype_toks(ct, tabs):
    """A real ctype in the token syntax of the driver (raises KeyError for an aggregate that is
    not in the module's tables)."""
    prim, void = prim_tables()
    k = ct.kind
    if k == "void":
        return ["P%d" % void]
    if k == "primitive":
        return ["P%d" % prim[ct.cname]]
    if k == "pointer":
        return ["*0"] + ctype_toks(ct.item, tabs)
    if k == "array":
        return (["O"] if ct.length is None else ["A%d" % ct.length]) + ctype_toks(ct.item, tabs)
    if k in ("struct", "union"):
        return ["S%d" % tabs.su[ct.cname]]
    if k == "enum":
        return ["E%d" % tabs.en[ct.cname]]
    if k == "function":
        out = ["*0", "F%d:%d" % (len(ct.args), int(fn_ellipsis(tabs.ffi, ct)))] + ctype_toks(ct.result, tabs)
        for a in ct.args:
            out += ctype_toks(a, tabs)
        return out
    raise KeyError(k)


def strip_abi(toks):
    """FFI_DEFAULT_ABI is the only ABI on this platform: drop the __stdcall bit of FUNCTION_END flags."""
    out = []
    for t in toks:
        if t.startswith("F") and ":" in t:
            n, f = t[1:].split(":")
            t = "F%s:%d" % (n, int(f) & 1)
        out.append(t)
    return out


def model_toks(tp, r, named):
    """A cffi.model type in the token syntax (the emitter's view)."""
    from cffi import model
    from cffi.cffi_opcode import PRIMITIVE_TO_INDEX, PRIM_VOID
    if isinstance(tp, model.VoidType):
        return ["P%d" % PRIM_VOID]
    if isinstance(tp, model.PrimitiveType):
        return ["P%d" % PRIMITIVE_TO_INDEX[tp.name]]
    if isinstance(tp, model.FunctionPtrType):
        return ["*0"] + model_toks(tp.as_raw_function(), r, named)
    if isinstance(tp, model.RawFunctionType):
        flags = int(tp.ellipsis) | (2 if tp.abi == "__stdcall" else 0)
        out = ["F%d:%d" % (len(tp.args), flags)] + model_toks(tp.result, r, named)
        for a in tp.args:
            out += model_toks(a, r, named)
        return out
    if isinstance(tp, model.NamedPointerType):
        q = named.setdefault(tp.name, 8 + len(named))
        return ["*%d" % q] + model_toks(tp.totype, r, named)
    if isinstance(tp, model.PointerType):
        return ["*%d" % tp.quals] + model_toks(tp.totype, r, named)
    if isinstance(tp, model.ArrayType):
        if tp.length is None:
            return ["O"] + model_toks(tp.item, r, named)
        return ["A%d" % tp.length] + model_toks(tp.item, r, named)
    if isinstance(tp, model.StructOrUnion):
        return ["S%d" % r._struct_unions[tp]]
    if isinstance(tp, model.EnumType):
        return ["E%d" % r._enums[tp]]
    raise KeyError(type(tp).__name__)


def py_escaped_to_bytes(s):
    """'\\x00\\x00\\x17\\x0D' (what as_python_bytes returns) -> bytes"""
    return bytes.fromhex(s.replace("\\x", ""))


class Corr:
    """Collects driver lines and the expectation for each answer."""

    def __init__(self, ctx):
        self.ctx = ctx
        self.lines = []
        self.expect = []      # None | (case, callable(answer) -> (ok, impl_view))

    def add(self, line, case=None, check=None):
        self.lines.append(line)
        self.expect.append(None if check is None else (case, check))

    def run(self):
        if not self.lines:
            return
        out = self.ctx.driver(self.lines)
        for line, o, e in zip(self.lines, out, self.expect):
            if e is None:
                continue
            case, check = e
            ok, impl = check(o)
            self.ctx.case(None)
            if not ok:
                c = dict(case)
                c["driver_line"] = line[:400]
                self.ctx.disagree(c, impl, o, case.get("what", ""))


def correspond_pair(ctx, corr, p, lib_out=None, gen=None, emit_side=True):
    """Model vs. real module / real backend for one generated module."""
    from cffi import recompiler, cffi_opcode
    kw = module_kwargs(p.source)
    ffi = fresh_out(p)
    if lib_out is not None:
        lib_out = ffi.dlopen(lib_out)
    tabs = Tables(kw, ffi)
    base = {"cdef": p.cdef, "packed": p.packed}
    types = kw.get("_types", b"")
    corr.add("types " + hx(types), dict(base, what="decodeTypes"), lambda o: (o == "ok %d" % (len(types) // 4), len(types) // 4))

    if emit_side:
        correspond_emit(ctx, corr, p, kw, types, base)
    correspond_read(ctx, corr, p, kw, ffi, tabs, lib_out, gen, base)


def correspond_emit(ctx, corr, p, kw, types, base):
    """Emitter side: the model's collect_type_table / record encoders vs the real strings (no realisation)."""
    from cffi import recompiler, cffi_opcode
    r = recompiler.Recompiler(p.ffi_in, p.modname, target_is_python=True)
    r.collect_type_table()
    r.collect_step_tables()
    named = {}
    decls = sorted(r._typesdict, key=str)
    try:
        toks = [" ".join(model_toks(tp, r, named)) for tp in decls]
    except KeyError as e:
        toks = None
        ctx.count("emit:untranslatable-" + str(e))
    if toks is not None:
        want = "ok %s %s" % (hx(types), ",".join(str(r._typesdict[tp]) for tp in decls))
        corr.add("emit " + " ; ".join(toks), dict(base, what="emitTable vs collect_type_table"),
                 lambda o, want=want: (o == want, want))
        ctx.count("emit:tables")
        ctx.count("emit:types", len(decls))
    for g, real in zip(r._lsts["global"], kw.get("_globals", ())[0::2]):
        val = g.check_value
        op = g.type_op
        if not isinstance(op.arg, int) or op.op is None or not isinstance(val, int):
            continue
        want = "ok %s %d" % (hx(real), val)
        corr.add("encglobal %d %d %s %d" % (op.op, op.arg, hx(g.name), val), dict(base, what="encodeGlobal", item=g.name),
                 lambda o, want=want: (o == want, want))
        corr.add("enc4 %d %d" % (op.op, op.arg), dict(base, what="encode4", item=g.name),
                 lambda o, op=op: (o == "ok " + hx(py_escaped_to_bytes(op.as_python_bytes())), op.as_python_bytes()))
    for s, real in zip(r._lsts["struct_union"], kw.get("_struct_unions", ())):
        flags = eval(s.flags, dict(cffi_opcode.G_FLAGS))
        parts = ["encstruct %d %d %s" % (s.type_index, flags, hx(s.name))]
        for f in s.c_fields:
            parts.append("| %d %d %d %s" % (f.field_type_op.op, f.field_type_op.arg, f.fbitsize, hx(f.name)))
        want = "ok " + " ".join(hx(x) for x in real)
        corr.add(" ".join(parts), dict(base, what="encodeStruct", item=s.name), lambda o, want=want: (o == want, want))
    for e, real in zip(r._lsts["enum"], kw.get("_enums", ())):
        es = e.allenums.split(",") if e.allenums else []
        corr.add("encenum %d %d %d %s %s" % (e.type_index, e.size, e.signed, hx(e.name), " ".join(hx(x) for x in es)),
                 dict(base, what="encodeEnum", item=e.name), lambda o, real=real: (o == "ok " + hx(real), hx(real)))
    for t, real in zip(r._lsts["typename"], kw.get("_typenames", ())):
        corr.add("enctypename %d %s" % (t.type_index, hx(t.name)), dict(base, what="encodeTypename", item=t.name),
                 lambda o, real=real: (o == "ok " + hx(real), hx(real)))



def correspond_read(ctx, corr, p, kw, ffi, tabs, lib_out, gen, base):
    """Reader side: the model's decoding of the real strings vs what the backend realises.
    Everything is observed on the backend NOW; the checks that run after the driver only compare strings."""
    from cffi import cffi_opcode

    def toks_or_none(fn):
        try:
            return " ".join(ctype_toks(fn(), tabs))
        except Exception:
            return None

    # typenames
    for t in kw.get("_typenames", ()):
        name = t[4:].decode()
        ct, err = _typeof(ffi, name)
        want = toks_or_none(lambda: ct) if ct is not None else None
        if want is None:
            # the model does not lay structs out: a backend error while completing one is inconclusive
            ctx.count("decode:typename:inconclusive")

        def chk(o, want=want, name=name):
            parts = o.split(" ")
            if parts[0] != "ok" or unhx(parts[2]).decode() != name:
                return (False, name)
            if want is None:
                return (True, "inconclusive")
            return (" ".join(strip_abi(parts[3:])) == want, "%s -> %s" % (name, want))
        corr.add("typename " + hx(t), dict(base, what="typename record + realize", item=name), chk)
        ctx.count("decode:typename")
    # globals
    globs = kw.get("_globals", ())
    for gb, val in zip(globs[0::2], globs[1::2]):
        name = gb[4:].decode()
        try:
            real_const = str(ffi.integer_const(name))
        except Exception as e:
            real_const = None
        real_fn = real_var = None
        if lib_out is not None:
            real_fn = toks_or_none(lambda: ffi.typeof(getattr(lib_out, name)))
            real_var = toks_or_none(lambda: ffi.typeof(ffi.addressof(lib_out, name)))

        def chk(o, name=name, real_const=real_const, real_fn=real_fn, real_var=real_var):
            parts = o.split(" ")
            if parts[0] != "ok" or unhx(parts[3]).decode() != name:
                return (False, name)
            op = int(parts[1])
            if op in (cffi_opcode.OP_CONSTANT_INT, cffi_opcode.OP_ENUM):
                return (parts[4] == real_const, "%s = %s" % (name, real_const))
            want = real_fn if op == cffi_opcode.OP_DLOPEN_FUNC else real_var if op == cffi_opcode.OP_GLOBAL_VAR else None
            if want is None:
                return (True, "symbol not observable")
            got = " ".join(["*0"] + strip_abi(parts[5:]))
            return (got == want, "%s : %s" % (name, want))
        corr.add("global %s %d" % (hx(gb), val), dict(base, what="global record (+ constant / realised type)", item=name), chk)
        ctx.count("decode:global")
    # struct/unions: decode all, then compare each reachable one with the real ctype
    reach = reachable_aggregates(ffi, kw, lib_out, gen)
    nf = 0
    sus = kw.get("_struct_unions", ())
    answers = {}
    for i, desc in enumerate(sus):
        def chk(o, i=i):
            answers[i] = o
            return (o.startswith("ok "), "decodable")
        corr.add("struct %d %s" % (nf, " ".join(hx(x) for x in desc)), dict(base, what="struct record", item=desc[0][8:].decode()), chk)
        nf += len(desc) - 1
    for i, desc in enumerate(sus):
        head = desc[0]
        flags = int.from_bytes(head[4:8], "big")
        rn = realname_struct(head[8:].decode(), bool(flags & 1))
        obs = observe_struct(ffi, tabs, reach.get(rn), p, rn)

        def chk(o, i=i, obs=obs, rn=rn):
            return check_struct(answers, i, obs, rn)
        corr.add("realize %d" % int.from_bytes(head[0:4], "big", signed=True),
                 dict(base, what="struct/union vs backend", item=rn), chk)
        ctx.count("decode:struct" + ("" if obs is not None else ":unreachable"))
    # enums
    prim, _ = prim_tables()
    for i, e in enumerate(kw.get("_enums", ())):
        name = e[8:].split(b"\0")[0].decode()
        rn = realname_enum(name)
        ct = reach.get(rn)
        want = None
        sizes = {}
        if ct is not None:
            try:
                want = (sorted(ct.relements), ffi.sizeof(ct), int(ffi.cast(ct, -1)) < 0)
                for pname, pidx in prim.items():
                    if pname.startswith(("int", "uint")) and pname.endswith("_t"):
                        sizes[pidx] = (ffi.sizeof(pname), int(ffi.cast(pname, -1)) < 0)
            except Exception:
                want = None

        def chk(o, want=want, rn=rn, name=name, sizes=sizes):
            parts = o.split(" ")
            if parts[0] != "ok" or unhx(parts[3]).decode() != name:
                return (False, rn)
            if want is None:
                return (True, "unreachable")
            names = sorted(unhx(x).decode() for x in parts[4:])
            got = (names,) + sizes.get(int(parts[2]), (None, None))
            return (got == want, "%s: %r" % (rn, want))
        corr.add("enum " + hx(e), dict(base, what="enum record vs backend", item=rn), chk)
        corr.add("realize %d" % int.from_bytes(e[0:4], "big", signed=True), dict(base, what="enum primary slot", item=rn),
                 lambda o, i=i: (o == "ok E%d" % i, "E%d" % i))
        ctx.count("decode:enum")


def reachable_aggregates(ffi, kw, lib_out, gen):
    """cname -> real out-of-line ctype for every aggregate reachable from typedef names, tags and lib symbols."""
    found = {}
    todo = []
    for t in kw.get("_typenames", ()):
        ct, _ = _typeof(ffi, t[4:].decode())
        if ct is not None:
            todo.append(ct)
    for desc in kw.get("_struct_unions", ()):
        head = desc[0]
        nm = head[8:].decode()
        if not nm.startswith("$") and nm != "_IO_FILE":
            flags = int.from_bytes(head[4:8], "big")
            ct, _ = _typeof(ffi, ("union " if flags & 1 else "struct ") + nm)
            if ct is not None:
                todo.append(ct)
    for e in kw.get("_enums", ()):
        nm = e[8:].split(b"\0")[0].decode()
        if not nm.startswith("$"):
            ct, _ = _typeof(ffi, "enum " + nm)
            if ct is not None:
                todo.append(ct)
    if lib_out is not None and gen is not None:
        for name in gen.funcs:
            v = _getattr(lib_out, name)
            if v[0] == "ok":
                todo.append(ffi.typeof(v[1]))
        for name in gen.vars:
            try:
                todo.append(ffi.typeof(ffi.addressof(lib_out, name)))
            except Exception:
                pass
    seen = set()
    while todo:
        ct = todo.pop()
        if id(ct) in seen:
            continue
        seen.add(id(ct))
        k = ct.kind
        if k in ("pointer", "array"):
            todo.append(ct.item)
        elif k == "function":
            todo.append(ct.result)
            todo.extend(ct.args)
        elif k == "enum":
            found[ct.cname] = ct
        elif k in ("struct", "union"):
            found[ct.cname] = ct
            try:
                ffi.sizeof(ct)
            except Exception:
                continue
            try:
                fl = ct.fields
            except Exception:
                continue
            if fl is not None:
                todo.extend(f.type for _, f in fl)
    return found


def parse_struct_answer(o):
    """ok ti flags name first num self | op arg size name type... | ...  ->  header, fields"""
    groups = o.split(" | ")
    head = groups[0].split(" ")
    fields = []
    for g in groups[1:]:
        w = g.split(" ")
        fields.append({"op": int(w[0]), "arg": int(w[1]), "size": int(w[2]), "name": unhx(w[3]).decode(), "type": w[4:]})
    return {"ti": int(head[1]), "flags": int(head[2]), "name": unhx(head[3]).decode(), "first": int(head[4]),
            "num": int(head[5]), "self": head[6]}, fields


def model_flat_fields(answers, i, depth=0):
    """Fields of struct entry i as the model decodes them, anonymous members flattened."""
    _, fields = parse_struct_answer(answers[i])
    out = []
    for f in fields:
        if f["name"] == "" and f["size"] >= 0:
            continue            # an unnamed bit-field only pads: the backend does not list it
        if f["name"] == "" and len(f["type"]) == 1 and f["type"][0].startswith("S") and depth < 20:
            out += model_flat_fields(answers, int(f["type"][0][1:]), depth + 1)
        else:
            out.append((f["name"], f["size"], strip_abi(f["type"])))
    return out


def observe_struct(ffi, tabs, ct, p=None, rn=None):
    """What the backend made of a struct/union entry: None (not reachable) or a dict.
    "opaque" is True / False / "inconclusive" (a size cannot be obtained, which is also what a struct looks like
    after a failed eager completion -- finding C11/realisation-order-dependent)."""
    if ct is None:
        return None
    try:
        ffi.sizeof(ct)
        opaque = False
    except Exception:
        opaque = True
    if opaque and p is not None and rn and "$" not in rn and rn != "FILE":
        # ask a brand-new instance for this aggregate first
        f2 = fresh_out(p)
        ct2, _ = _typeof(f2, rn)
        if ct2 is not None:
            try:
                f2.sizeof(ct2)
                ffi, ct, opaque, tabs = f2, ct2, False, Tables(tabs.kw, f2)
            except Exception:
                pass
    obs = {"kind": ct.kind, "opaque": opaque, "fields": None}
    if not opaque:          # .fields of an opaque out-of-line struct must not be touched
        try:
            obs["fields"] = [(n, f.bitsize, ctype_toks(f.type, tabs)) for n, f in ct.fields]
        except Exception:
            obs["fields"] = "inconclusive"
    return obs


def check_struct(answers, i, obs, rn):
    o = answers.get(i, "")
    if not o.startswith("ok "):
        return (False, rn)
    head, _ = parse_struct_answer(o)
    if head["self"] != "S%d" % i:
        return (False, "%s is entry %d" % (rn, i))
    if obs is None:
        return (True, "unreachable")
    is_union = bool(head["flags"] & 1)
    opaque_model = head["first"] < 0
    if rn == "FILE":
        return (opaque_model and obs["opaque"], "FILE opaque")
    if (obs["kind"] == "union") != is_union or (opaque_model and not obs["opaque"]):
        return (False, "%s kind=%s opaque=%s" % (rn, obs["kind"], obs["opaque"]))
    if obs["opaque"] and not opaque_model:
        # no size although the record has fields: the backend could not complete it (inconclusive for the model,
        # the in-line/out-of-line oracle judges it)
        return (True, "no size obtainable")
    if obs["opaque"] or obs["fields"] == "inconclusive":
        return (True, "opaque / inconclusive")
    got = model_flat_fields(answers, i)
    return (got == obs["fields"], "%s fields %r (model decodes %r)" % (rn, obs["fields"], got))


# ---------------------------------------------------------------------------------------------
# protection against aborts of the backend (assert() is compiled in by ./check)

def guarded(work):
    """Runs work() in a forked child whose bookkeeping is thrown away.  Returns the signal number if the child
    was killed (an assert() of the backend fired, a segmentation fault ...), None otherwise.  The parent then
    repeats the same deterministic work in-process, or records the abort."""
    sys.stdout.flush()
    sys.stderr.flush()
    pid = os.fork()
    if pid == 0:
        code = 0
        try:
            import signal
            signal.alarm(300)              # a hung rehearsal is an infrastructure problem, not a verdict
            devnull = os.open(os.devnull, os.O_WRONLY)
            os.dup2(devnull, 1)
            os.dup2(devnull, 2)
            work()
        except BaseException:
            code = 3
        finally:
            os._exit(code)
    _, status = os.waitpid(pid, 0)
    if os.WIFSIGNALED(status):
        import signal
        if os.WTERMSIG(status) == signal.SIGALRM:
            raise InfraError("the forked rehearsal of a case did not finish within 300 s")
        return os.WTERMSIG(status)
    return None


def self_reaching_function_type(ffi_in, modname):
    """Is there a function type whose result/argument types reach -- through pointers, arrays, struct fields and
    function pointers -- a pointer to that same function type (one FUNCTION slot of `_types`)?  Realising such a
    slot before the struct in between re-enters the realisation of the slot.  Pure Python on the cffi model."""
    from cffi import recompiler, model
    r = recompiler.Recompiler(ffi_in, modname, target_is_python=True)
    r.collect_type_table()

    def children(tp):
        if isinstance(tp, model.FunctionPtrType):
            return [tp.as_raw_function()]
        if isinstance(tp, model.RawFunctionType):
            return [tp.result] + list(tp.args)
        if isinstance(tp, model.PointerType):
            return [tp.totype]
        if isinstance(tp, model.ArrayType):
            return [tp.item]
        if isinstance(tp, model.StructOrUnion):
            return list(tp.fldtypes or ())
        return []

    for F in r._typesdict:
        if not isinstance(F, model.RawFunctionType):
            continue
        seen, todo = set(), children(F)
        while todo:
            t = todo.pop()
            if t == F:
                return True
            if t in seen:
                continue
            seen.add(t)
            todo.extend(children(t))
    return False


def abort_case(ctx, p, base, sig, report):
    try:
        sr = self_reaching_function_type(p.ffi_in, p.modname)
    except Exception:
        sr = None
    ctx.case((hash(base.get("cdef")), "abort"))
    ctx.count("process-abort")
    case = dict(base, aspect="process-abort", item="signal %d" % sig, inline="no abort", outofline="killed by signal %d" % sig,
                self_reaching_function_type=sr)
    report(case, "evaluating the out-of-line module kills the process (signal %d); the in-line FFI handles the same cdef" % sig)


# ---------------------------------------------------------------------------------------------
# streams

def run_case(ctx, corr, gen, stream, report, packed=False, with_lib=False):
    cdef = gen.cdef_text()
    p = build_pair(ctx, cdef, packed=packed)
    base = {"stream": stream, "cdef": cdef, "packed": packed, "gen": gen.info()}
    if p.rejected:
        ctx.count("rejected-in-line")
        ctx.case(None)
        common.log("note: generated cdef rejected in-line (%s)" % p.rejected[:200])
        return None
    if p.emit_error or getattr(p, "import_error", None):
        # the in-line FFI accepted the declarations; does it also realise them?
        inline_ok = True
        for s in gen.type_strings:
            if _typeof(p.ffi_in, s)[0] is None:
                inline_ok = False
        ctx.case((hash(cdef), "emit"))
        if inline_ok:
            case = dict(base, aspect="emit", item="emit_python_code", inline="accepted",
                        outofline=p.emit_error or p.import_error,
                        alias_of_named_pointer=gen.alias_of_named_pointer)
            report(case, "the in-line FFI accepts the cdef, the out-of-line module cannot be produced/imported: %s"
                   % (p.emit_error or p.import_error))
        else:
            ctx.count("both-reject-late")
        return None
    lib_path = None
    if with_lib:
        cpath = os.path.join(ctx.scratch, p.modname + "_lib.c")
        with open(cpath, "w") as f:
            f.write(gen.c_text())
        lib_path = os.path.join(ctx.scratch, "lib" + p.modname + ".so")
        try:
            common.compile_shared(cpath, lib_path)
        except InfraError as e:
            # a construct of the random cdef that gcc refuses (the cdef itself is still compared, without a library)
            common.log("note: generated test library rejected by gcc, case evaluated without it: %s" % str(e)[-300:])
            ctx.count("lib:generated-c-rejected-by-gcc")
            lib_path, with_lib = None, False
    def work(emit_side=True):
        compare_pair(ctx, gen, p, stream, report, lib_path)
        if corr is not None:
            correspond_pair(ctx, corr, p, lib_path if with_lib else None, gen, emit_side)

    for ts in gen.type_strings:
        inline_type(p, ts)                 # in-line work is done once, before the rehearsal
    sig = guarded(lambda: work(False))
    if sig is not None:
        b2 = dict(base)
        if lib_path:
            b2["csrc"] = gen.c_text()
        abort_case(ctx, p, b2, sig, report)
        return None
    work()
    return p


FIXED_LIB_CDEF = """
typedef struct pt { int x; short y; } pt_t;
typedef int (*unary_t)(int);
struct node { struct node *next; long val; unsigned flag:1; };
enum color { RED, GREEN = 5, BLUE = -2 };
int add(int, int);
long long mul64(long long, int);
double scale(double, float);
struct pt mkpt(int, short);
int sum_pt(struct pt *);
int apply(unary_t, int);
int vsum(int, ...);
const char *greet(void);
enum color next_color(enum color);
long list_sum(struct node *);
extern int gcounter;
extern struct pt gpt;
extern int garr[4];
extern unary_t gfp;
extern unsigned long long gbig;
#define KMAGIC 0x7fffffffffffffff
"""
FIXED_LIB_C = """
struct pt { int x; short y; };
struct node { struct node *next; long val; unsigned flag:1; };
enum color { RED, GREEN = 5, BLUE = -2 };
typedef int (*unary_t)(int);
#include <stdarg.h>
int add(int a, int b) { return a + b; }
long long mul64(long long a, int b) { return a * b; }
double scale(double a, float b) { return a * b; }
struct pt mkpt(int x, short y) { struct pt p; p.x = x; p.y = y; return p; }
int sum_pt(struct pt *p) { return p->x + p->y; }
int apply(unary_t f, int x) { return f(x) + 1; }
int vsum(int n, ...) { va_list ap; int s = 0; va_start(ap, n); while (n-- > 0) s += va_arg(ap, int); va_end(ap); return s; }
const char *greet(void) { return "hello"; }
enum color next_color(enum color c) { return c == RED ? GREEN : c == GREEN ? BLUE : RED; }
long list_sum(struct node *n) { long s = 0; while (n) { s += n->val; n = n->next; } return s; }
static int twice(int x) { return 2 * x; }
int gcounter = 41;
struct pt gpt = { 7, -3 };
int garr[4] = { 1, 2, 3, 4 };
unary_t gfp = twice;
unsigned long long gbig = 18446744073709551615ULL;
"""


def fixed_lib(ctx, corr, report):
    """A hand-written library: calls with meaningful results through both dlopen()s."""
    p = build_pair(ctx, FIXED_LIB_CDEF)
    base = {"stream": "fixed-lib", "cdef": FIXED_LIB_CDEF, "packed": False, "csrc": FIXED_LIB_C}
    if p.rejected:
        raise InfraError("fixed library cdef rejected in-line: %r" % (p.rejected,))
    if p.emit_error or getattr(p, "import_error", None):
        ctx.case(("fixed-lib", "emit"))
        report(dict(base, aspect="emit", item="emit_python_code", inline="accepted", outofline=p.emit_error or p.import_error),
               "the out-of-line module of the fixed library cdef cannot be produced/imported: %s" % (p.emit_error or p.import_error))
        return
    cpath = os.path.join(ctx.scratch, p.modname + "_fixed.c")
    with open(cpath, "w") as f:
        f.write(FIXED_LIB_C)
    so = os.path.join(ctx.scratch, "lib" + p.modname + "_fixed.so")
    common.compile_shared(cpath, so)
    sig = guarded(lambda: fixed_lib_work(ctx, corr, report, p, so, base))
    if sig is not None:
        abort_case(ctx, p, base, sig, report)
        return
    fixed_lib_work(ctx, corr, report, p, so, base)


def fixed_lib_work(ctx, corr, report, p, so, base):
    obs = []
    for ffi in (p.ffi_in, p.ffi_out):
        lib = ffi.dlopen(so)
        o = {}
        o["add"] = lib.add(40, 2)
        o["mul64"] = lib.mul64(2 ** 40, -3)
        o["scale"] = float(lib.scale(1.5, 2.0)).hex()
        pt = lib.mkpt(11, -4)
        o["mkpt"] = (pt.x, pt.y)
        o["sum_pt"] = lib.sum_pt(ffi.new("struct pt *", [5, 6]))
        cb = ffi.callback("int(int)", lambda x: x * 10)
        o["apply"] = lib.apply(cb, 4)
        o["apply_gfp"] = lib.apply(lib.gfp, 4)
        o["vsum"] = lib.vsum(3, ffi.cast("int", 1), ffi.cast("int", 2), ffi.cast("int", 3))
        o["greet"] = ffi.string(lib.greet())
        o["next_color"] = lib.next_color(lib.GREEN)
        n2 = ffi.new("struct node *", {"val": 5, "flag": 1})
        n1 = ffi.new("struct node *", {"next": n2, "val": 7})
        o["list_sum"] = lib.list_sum(n1)
        o["gcounter"] = lib.gcounter
        o["gpt"] = (lib.gpt.x, lib.gpt.y)
        o["garr"] = list(lib.garr)
        o["gbig"] = lib.gbig
        o["KMAGIC"] = lib.KMAGIC
        o["consts"] = (lib.RED, lib.GREEN, lib.BLUE)
        for nm in ("add", "mul64", "scale", "mkpt", "sum_pt", "apply", "vsum", "greet", "next_color", "list_sum"):
            o["addr:" + nm] = int(ffi.cast("uintptr_t", getattr(lib, nm)))
        for nm in ("gcounter", "gpt", "garr", "gfp", "gbig"):
            o["addr:" + nm] = int(ffi.cast("uintptr_t", ffi.addressof(lib, nm)))
        o["dir"] = sorted(dir(lib))
        obs.append((o, lib))
    (oa, lib_in), (ob, lib_out) = obs
    c = Cmp(p, {"struct pt": "pt_t"})
    for nm in ("add", "mul64", "scale", "mkpt", "sum_pt", "apply", "vsum", "greet", "next_color", "list_sum"):
        c.walk(p.ffi_in.typeof(getattr(lib_in, nm)), p.ffi_out.typeof(getattr(lib_out, nm)), "function " + nm)
    for nm in ("gcounter", "gpt", "garr", "gfp", "gbig"):
        c.walk(*var_types(p.ffi_in, lib_in, p.ffi_out, lib_out, nm), "global " + nm)
    for aspect, item, x, y, extra in c.diffs:
        report(dict(base, aspect=aspect, item=item, inline=repr(x), outofline=repr(y), **extra),
               "%s of %r: in-line %r, out-of-line %r" % (aspect, item, x, y))
    for k in sorted(oa):
        ctx.case(("fixed-lib", k), sample={"stream": "fixed-lib", "item": k})
        ctx.count("fixed-lib")
        if oa[k] != ob.get(k) or (k.startswith("addr:") and oa[k] == 0):
            report(dict(base, aspect="lib-" + k.split(":")[0], item=k, inline=repr(oa[k]), outofline=repr(ob.get(k))),
                   "%s: in-line %r, out-of-line %r" % (k, oa[k], ob.get(k)))
    lib_in.gcounter = 1000
    if lib_out.gcounter != 1000:
        report(dict(base, aspect="lib-global-shared", item="gcounter", inline="1000", outofline=repr(lib_out.gcounter)),
               "a write through the in-line lib is not visible through the out-of-line lib")
    if corr is not None:
        g = Gen(ctx.rng)
        g.funcs = {nm: None for nm in ("add", "mul64", "scale", "mkpt", "sum_pt", "apply", "vsum", "greet", "next_color", "list_sum")}
        g.vars = {nm: None for nm in ("gcounter", "gpt", "garr", "gfp", "gbig")}
        correspond_pair(ctx, corr, p, so, g)


def const_stream(ctx, corr, report, n):
    """Constants only: every magnitude in range, plus a few deliberately outside [-2^63, 2^64)."""
    rng = ctx.rng
    g = Gen(rng)
    for v in BOUNDARY_CONSTS:
        g.decl_const(v)
    for _ in range(n):
        g.decl_const()
    for v in rng.sample(OUTSIDE_CONSTS, 3) + [OUTSIDE_CONSTS[0]]:
        g.decl_const(v)
    run_case(ctx, corr, g, "constants", report)
    if corr is not None:
        # the model's prediction of what comes back, for random values (independent of any module)
        from cffi import cffi_opcode
        for _ in range(n):
            op = rng.choice([1, 3, 5, 7, 9, 11, 13, 15, 17, 19, 21, 29, 31, 33, 35, 37, 255, 0])
            arg = rng.choice([rng.randint(-2 ** 23, 2 ** 23 - 1), rng.randint(-300, 300), -1, 2 ** 23 - 1, -2 ** 23,
                              rng.randint(-2 ** 40, 2 ** 40)])
            real = py_escaped_to_bytes(cffi_opcode.CffiOp(op, arg).as_python_bytes())
            corr.add("enc4 %d %d" % (op, arg), {"what": "encode4 vs as_python_bytes", "op": op, "arg": arg},
                     lambda o, real=real: (o == "ok " + hx(real), hx(real)))
            if -2 ** 23 <= arg < 2 ** 23:
                corr.add("dec4 " + hx(real), {"what": "decode4 of the real bytes", "op": op, "arg": arg},
                         lambda o, op=op, arg=arg: (o == "ok %d %d" % (op, arg), (op, arg)))
            nraw = rng.choice([rng.randint(0, 2 ** 31 - 1), rng.randint(0, 300), 2 ** 31 - 1, 2 ** 31, 2 ** 31 + 5, 2 ** 40])
            try:
                real = "ok " + hx(py_escaped_to_bytes(cffi_opcode.CffiOp(None, str(nraw)).as_python_bytes()))
            except OverflowError:
                real = "err Overflow"
            corr.add("raw %d" % nraw, {"what": "raw number vs as_python_bytes", "n": nraw},
                     lambda o, real=real: (o == real, real))


def streams(ctx, corr, report, scale=1):
    rng = ctx.rng
    sys.path.insert(0, ctx.scratch)
    fixed_lib(ctx, corr, report)
    const_stream(ctx, corr, report, ctx.n(12, 60) * scale)
    for i in range(ctx.n(30, 1200) * scale):
        g = Gen(rng).build(rng.randint(4, 18))
        run_case(ctx, corr, g, "types", report, packed=rng.random() < 0.08)
    for i in range(ctx.n(6, 120) * scale):
        g = Gen(rng, with_lib=True).build(rng.randint(5, 14))
        run_case(ctx, corr, g, "lib", report, with_lib=True)
    for i in range(ctx.n(3, 40) * scale):
        g = Gen(rng, use_file=True).build(rng.randint(2, 8))
        run_case(ctx, corr, g, "file", report)


# ---------------------------------------------------------------------------------------------
# entry points

def translators(ctx):
    return [tr_opcodes.translate]


def correspond(ctx):
    _pending(ctx)
    corr = Corr(ctx)
    streams(ctx, corr, lambda case, detail: ctx.fail(case, detail))
    corr.run()


def search(ctx):
    _pending(ctx)
    streams(ctx, None, lambda case, detail: ctx.fail(case, detail), scale=4)


def _gen_from_text(ctx, case):
    """Recovers what the generator knew from the text of a hand-written case (witnesses of findings)."""
    import re
    cdef = case["cdef"]
    g = Gen(ctx.rng)
    if case.get("item") and case.get("aspect") in ("typeof-error", "identity", "process-abort"):
        g.type_strings.append(case["item"])          # asked first: the order matters for two findings
    for m in re.finditer(r"typedef [^;]*?(\w+);", cdef):
        if m.group(1) not in g.type_strings:
            g.type_strings.append(m.group(1))
    for m in re.finditer(r"\b(struct|union|enum) (\w+)", cdef):
        t = "%s %s" % (m.group(1), m.group(2))
        if t not in g.type_strings:
            g.type_strings.append(t)
    for m in re.finditer(r"typedef ((?:struct|union|enum) \w+) (\w+);", cdef):
        g.forced.setdefault(m.group(1), m.group(2))
    for m in re.finditer(r"^#define (\w+) (\S+)", cdef, re.M):
        g.consts[m.group(1)] = int(m.group(2), 0)
    named = re.findall(r"typedef struct \{[^;]*;[^}]*\} \*(\w+);", cdef)
    g.alias_of_named_pointer = any(re.search(r"typedef %s \w+;" % n, cdef) for n in named)
    if case.get("csrc"):
        for m in re.finditer(r"^extern [^;]*?(\w+)(?:\[\d*\])*;", cdef, re.M):
            g.vars[m.group(1)] = None
        for m in re.finditer(r"(\w+)\([^;{]*\);", cdef):
            g.funcs[m.group(1)] = None
    return g


def _rerun(ctx, case):
    """Re-evaluates the oracle on the cdef of a stored case; returns (failing cases, note)."""
    found = []
    cdef = case["cdef"]
    g = Gen.from_info(ctx.rng, case["gen"]) if case.get("gen") else _gen_from_text(ctx, case)
    if case.get("csrc"):
        g.csrc_text = case["csrc"]
    packed = bool(case.get("packed"))
    p = build_pair(ctx, cdef, packed=packed)
    if p.rejected:
        return found, "rejected in-line: " + p.rejected
    base = {"stream": case.get("stream", "replay"), "cdef": cdef, "packed": packed}
    if p.emit_error or getattr(p, "import_error", None):
        found.append(dict(base, aspect="emit", item="emit_python_code", outofline=p.emit_error or p.import_error,
                          alias_of_named_pointer=g.alias_of_named_pointer))
        return found, p.emit_error or p.import_error
    lib_path = None
    if case.get("csrc"):
        cpath = os.path.join(ctx.scratch, p.modname + "_replay.c")
        with open(cpath, "w") as f:
            f.write(case["csrc"])
        lib_path = os.path.join(ctx.scratch, "lib" + p.modname + "_replay.so")
        common.compile_shared(cpath, lib_path)
    for ts in g.type_strings:
        inline_type(p, ts)
    stream = case.get("stream", "replay")
    sig = guarded(lambda: compare_pair(ctx, g, p, stream, lambda c, d: None, lib_path))
    if sig is not None:
        abort_case(ctx, p, base, sig, lambda c, d: found.append(c))
        return found, "killed by signal %d" % sig
    compare_pair(ctx, g, p, stream, lambda c, d: found.append(c), lib_path)
    return found, None


def replay(ctx, obj):
    case = obj["case"]
    found, note = _rerun(ctx, case)
    if note:
        print("note:", note)
    same = [c for c in found if c.get("aspect") == case.get("aspect") and
            (c.get("item") == case.get("item") or case.get("item") is None or case.get("aspect") == "process-abort")]
    for c in same[:10]:
        print("%s of %r: in-line %s, out-of-line %s" % (c.get("aspect"), c.get("item"), c.get("inline"), c.get("outofline")))
    print("property %s on the stored input" % ("FAILS" if same else "holds"))
    return 1 if same else 0


def check_witness(ctx, finding):
    w = finding["witness"]
    found, _ = _rerun(ctx, dict(w, packed=False))
    pred = CLASSES.get(finding["class"])
    return any(pred(c) for c in found) if pred else None
