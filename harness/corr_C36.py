"""C36 -- callbacks from non-Python threads get a valid, persistent thread state (partial).

Theorems (lean/CffiVerif/Props/C36.lean) over lean/CffiVerif/Model/Canary.lean:
tstate_stable_while_thread_alive, thread_local_data_persists, new_tstate_is_fresh,
tstate_not_shared, tstate_freed_at_most_once, zombies_have_tstate,
no_zombie_survives_next_register, thread_exit_never_fatal.

Tie to the code: an API-mode helper module (pthreads in its C source) is compiled against the
tree's headers and run with the tree's freshly built _cffi_backend in a *subprocess* per
scenario.  Foreign threads call an extern "Python" function / an ffi.callback in bursts
(concurrently), nested through C, and exit in ordered or barrier-simultaneous groups, interleaved
with Python threads making the same callbacks and gc.collect().  The callback records
threading.get_ident(), PyGILState_GetThisThreadState() and a threading.local token (an object
whose finalizer records when the thread-local data is destroyed).
"""
import json
import os
import subprocess
import sys
from concurrent.futures import ThreadPoolExecutor

import common
from common import InfraError

MANIFEST = {
    "text": "Kernel-checked invariants of a model of gil_ensure / gil_release / thread_canary_register / "
            "thread_canary_free_zombies / thread_canary_dealloc / cffi_thread_shutdown for any number of threads, "
            "callbacks (also nested) and exit orders, with and without Py_Finalize: a live thread keeps one allocated "
            "thread state, its thread-local data is changed by nobody else, a newly created thread state is fresh (no "
            "data, never freed before), no two threads share one, each thread state is deleted at most once, zombies "
            "always have an allocated thread state and no running owner, the next registration empties the zombie "
            "list, and the TLS destructor never reaches its fatal error.  The real backend is run in subprocesses "
            "with random foreign-thread histories; threading.local persistence/isolation, thread-state identity, "
            "finalisation of thread-local data and process survival are checked directly and against the model.",
    "note": "Partial.  Modelled, not verified: CPython's PyGILState_Ensure/Release, PyThreadState_Clear/Delete, "
            "autoTSSkey, threading.local living in the thread state's dict, pthread TLS destructors, the zombie lock, "
            "allocation failures (ignore_error paths).  One canary per thread state is identified with that thread "
            "state.  'Never crashes' is only checked by running (exit status of the subprocess), it is memory safety of "
            "CPython + cffi.  Events of concurrent bursts are serialised thread by thread for the model (the model's "
            "answers do not depend on their order).",
    "technique": "Lean 4 proof (inductive invariants of an event system incl. the zombie-freeing loop) + subprocess "
                 "correspondence with compiled pthread helper over random thread histories",
}

RULE = ("scenario = random history over up to 6 foreign threads: spawn, concurrent bursts of 1-4 callbacks per thread "
        "(some nested through C), exits of groups of threads (ordered joins or barrier-simultaneous), Python threads "
        "doing the same callbacks, gc.collect(); callback entry through extern \"Python\" or ffi.callback; one "
        "subprocess per scenario; non-trivial = some thread is called again after other threads exited, or a thread "
        "is spawned after an exit (zombies to free); distinct = distinct histories")
ASSUMPTIONS = ["CPython 3.12 PyGILState/PyThreadState semantics; threading.local data is destroyed by PyThreadState_Clear",
               "pthread TLS destructors have run when pthread_join returns"]
TRUSTED_EXTRA = ["the scenario runner and C helper embedded in harness/corr_C36.py"]
CLASSES = {}

CDEF = r"""
extern "Python" int c36_cb(int, int);
int c36_spawn(int index);
void c36_use_callback(int (*cb)(int, int));
void c36_run(int k, int *indexes, int *counts);
void c36_exit(int k, int *indexes, int ordered);
int c36_nested(int index, int seq);
int c36_call_here(int index, int n);
void *c36_tstate(void);
"""

CSRC = r"""
#include <pthread.h>
#include <semaphore.h>
#include <stdlib.h>

#define MAXW 64
static int c36_cb(int, int);
static int (*user_cb)(int, int);
static int call_cb(int i, int s) { return user_cb ? user_cb(i, s) : c36_cb(i, s); }

struct worker { pthread_t th; sem_t go; sem_t done; volatile int cmd; volatile int n; int seq; int index;
                pthread_barrier_t *exit_barrier; };
static struct worker W[MAXW];

static void *worker_main(void *arg)
{
    struct worker *w = (struct worker *)arg;
    for (;;) {
        sem_wait(&w->go);
        if (w->cmd == 2) {
            if (w->exit_barrier) pthread_barrier_wait(w->exit_barrier);
            return NULL;
        }
        { int i; for (i = 0; i < w->n; i++) call_cb(w->index, w->seq++); }
        sem_post(&w->done);
    }
}

static int c36_spawn(int index)
{
    struct worker *w = &W[index];
    sem_init(&w->go, 0, 0); sem_init(&w->done, 0, 0);
    w->index = index; w->seq = 0; w->exit_barrier = NULL;
    return pthread_create(&w->th, NULL, worker_main, w);
}

static void c36_use_callback(int (*cb)(int, int)) { user_cb = cb; }

static void c36_run(int k, int *indexes, int *counts)
{
    int i;
    for (i = 0; i < k; i++) { W[indexes[i]].cmd = 1; W[indexes[i]].n = counts[i]; }
    for (i = 0; i < k; i++) sem_post(&W[indexes[i]].go);
    for (i = 0; i < k; i++) sem_wait(&W[indexes[i]].done);
}

static void c36_exit(int k, int *indexes, int ordered)
{
    int i;
    static pthread_barrier_t bar;
    if (!ordered) pthread_barrier_init(&bar, NULL, k);
    for (i = 0; i < k; i++) {
        struct worker *w = &W[indexes[i]];
        w->cmd = 2;
        w->exit_barrier = ordered ? NULL : &bar;
        sem_post(&w->go);
        if (ordered) pthread_join(w->th, NULL);
    }
    if (!ordered) {
        for (i = 0; i < k; i++) pthread_join(W[indexes[i]].th, NULL);
        pthread_barrier_destroy(&bar);
    }
}

static int c36_nested(int index, int seq) { return call_cb(index, seq | 0x100000); }
static int c36_call_here(int index, int n) { int i, r = 0; for (i = 0; i < n; i++) r += call_cb(index, i); return r; }
static void *c36_tstate(void) { return (void *)PyGILState_GetThisThreadState(); }
"""

RUNNER = r'''
import gc, json, sys, threading
sys.path.insert(0, sys.argv[2])
from _c36_helper import ffi, lib
sc = json.load(open(sys.argv[1]))
tl = threading.local()
events, finalized = [], []
counter = [0]
nested_for = set()

class Token(object):
    def __init__(self, tok): self.tok = tok
    def __del__(self): finalized.append(self.tok)

def body(index, seq):
    ident = threading.get_ident()
    ts = int(ffi.cast("intptr_t", lib.c36_tstate()))
    holder = getattr(tl, "holder", None)
    seen = holder.tok if holder is not None else None
    made = None
    if holder is None:
        counter[0] += 1
        made = counter[0]
        tl.holder = Token(made)
    events.append(["cb", index, seq, ident, ts, seen, made, len(finalized)])
    if index in nested_for and not (seq & 0x100000):
        lib.c36_nested(index, seq)
    return 0

@ffi.def_extern()
def c36_cb(index, seq):
    return body(index, seq)

if sc["entry"] == "callback":
    keep = ffi.callback("int(int, int)", body)
    lib.c36_use_callback(keep)

for n, op in enumerate(sc["ops"]):
    kind = op[0]
    if kind == "spawn":
        if lib.c36_spawn(op[1]) != 0: raise SystemExit(5)
    elif kind == "run":
        idx = [x[0] for x in op[1]]; cnt = [x[1] for x in op[1]]
        nested_for.clear(); nested_for.update(x[0] for x in op[1] if x[2])
        lib.c36_run(len(idx), ffi.new("int[]", idx), ffi.new("int[]", cnt))
    elif kind == "exit":
        lib.c36_exit(len(op[1]), ffi.new("int[]", op[1]), 1 if op[2] else 0)
    elif kind == "pythread":
        nested_for.clear()
        th = threading.Thread(target=lambda: lib.c36_call_here(op[1], op[2]))
        th.start(); th.join()
    elif kind == "gc":
        gc.collect()
    events.append(["op", n, list(finalized)])
sys.stdout.write(json.dumps({"events": events}))
sys.stdout.flush()
'''

_state = {}


def translators(ctx):
    """Re-extract the statement order of thread_canary_free_zombies (incl. the PY_VERSION_HEX guard of the
    bound_gilstate workaround vs. the running interpreter), thread_canary_register, thread_canary_make_zombie,
    cffi_thread_shutdown, gil_ensure, gil_release into Generated/CanarySteps.lean (raises on a reshaped function)."""
    sys.path.insert(0, os.path.join(common.VERIF, "translate"))
    import c36_steps
    return [c36_steps.translator]


def _quiet(fn):
    so = os.dup(1)
    devnull = os.open(os.devnull, os.O_WRONLY)
    sys.stdout.flush()
    os.dup2(devnull, 1)
    try:
        return fn()
    finally:
        sys.stdout.flush()
        os.dup2(so, 1)
        os.close(devnull)
        os.close(so)


def build(ctx):
    if "dir" in _state:
        return _state
    import cffi
    d = os.path.join(ctx.scratch, "c36")
    os.makedirs(d, exist_ok=True)
    ffi = cffi.FFI()
    ffi.cdef(CDEF)
    ffi.set_source("_c36_helper", CSRC)
    cfile = os.path.join(d, "_c36_helper.c")
    _quiet(lambda: ffi.emit_c_code(cfile))
    common.compile_ext(cfile, d, "_c36_helper", extra=["-pthread"])
    with open(os.path.join(d, "runner.py"), "w") as f:
        f.write(RUNNER)
    _state.update(dir=d, n=0)
    return _state


# ---------------------------------------------------------------- scenarios

def gen_scenario(rng):
    ops = []
    alive, next_index, pyindex = [], 0, 100
    nsteps = rng.randint(5, 12)
    for _ in range(2):
        ops.append(["spawn", next_index]); alive.append(next_index); next_index += 1
    for _ in range(nsteps):
        r = rng.random()
        if r < 0.2 and next_index < 6:
            ops.append(["spawn", next_index]); alive.append(next_index); next_index += 1
        elif r < 0.6 and alive:
            who = rng.sample(alive, rng.randint(1, len(alive)))
            ops.append(["run", [[t, rng.randint(1, 4), 1 if rng.random() < 0.25 else 0] for t in who]])
        elif r < 0.8 and alive:
            who = rng.sample(alive, rng.randint(1, min(3, len(alive))))
            for t in who:
                alive.remove(t)
            ops.append(["exit", who, 1 if rng.random() < 0.5 else 0])
        elif r < 0.9:
            ops.append(["pythread", pyindex, rng.randint(1, 3)]); pyindex += 1
        else:
            ops.append(["gc"])
    if alive and rng.random() < 0.7:
        ops.append(["run", [[t, 1, 0] for t in alive]])
    return {"entry": rng.choice(["extern", "callback"]), "ops": ops}


def nontrivial(sc):
    exited = False
    for op in sc["ops"]:
        if op[0] == "exit":
            exited = True
        elif exited and op[0] in ("run", "spawn"):
            return True
    return False


def run_scenario(ctx, sc):
    st = build(ctx)
    st["n"] += 1
    path = os.path.join(st["dir"], "sc%d.json" % st["n"])
    with open(path, "w") as f:
        json.dump(sc, f)
    try:
        r = subprocess.run([sys.executable, os.path.join(st["dir"], "runner.py"), path, st["dir"]],
                           stdout=subprocess.PIPE, stderr=subprocess.PIPE, universal_newlines=True, timeout=120)
    except subprocess.TimeoutExpired:
        return None, None, "timeout"
    finally:
        try:
            os.unlink(path)
        except OSError:
            pass
    if r.returncode != 0:
        return r.returncode, None, r.stderr[-1500:]
    try:
        return 0, json.loads(r.stdout)["events"], ""
    except ValueError:
        return -999, None, "incomplete output: " + r.stdout[-300:] + r.stderr[-500:]


# ---------------------------------------------------------------- the property on the observations

def oracle(sc, events):
    bad = []
    info = {}          # index -> dict(ident, ts, token) while alive
    owner_of_token = {}
    exited_tokens = set()
    alive_ts = {}
    finalized_seen = []
    opi = 0
    for e in events:
        if e[0] == "cb":
            _, index, seq, ident, ts, seen, made, nfin = e
            st = info.get(index)
            if st is None:
                if seen is not None:
                    bad.append("first callback of thread %d sees thread-local data of token %r (made by thread %r)"
                               % (index, seen, owner_of_token.get(seen)))
                if made is None and seen is None:
                    bad.append("thread %d: no token seen and none made" % index)
                for other, o in info.items():
                    if o["ts"] == ts:
                        bad.append("threads %d and %d run with the same thread state" % (other, index))
                info[index] = {"ident": ident, "ts": ts, "token": made if made is not None else seen}
                if made is not None:
                    owner_of_token[made] = index
            else:
                if ts != st["ts"]:
                    bad.append("thread %d: thread state changed between callbacks" % index)
                if ident != st["ident"]:
                    bad.append("thread %d: threading.get_ident() changed between callbacks" % index)
                if seen != st["token"]:
                    bad.append("thread %d: thread-local value lost or replaced between callbacks (%r, expected %r)"
                               % (index, seen, st["token"]))
                if made is not None:
                    owner_of_token[made] = index
                    st["token"] = made
        else:
            _, n, fin = e
            op = sc["ops"][n]
            if len(set(fin)) != len(fin):
                bad.append("a thread-local value was finalised twice: %r" % (fin,))
            if op[0] == "exit":
                for t in op[1]:
                    if t in info:
                        exited_tokens.add(info[t]["token"])
                        del info[t]
            if op[0] == "pythread":
                t = op[1]
                if t in info:
                    exited_tokens.add(info[t]["token"])
                    del info[t]
            for tok in fin:
                if tok not in exited_tokens:
                    bad.append("thread-local value %r of running thread %r was destroyed" % (tok, owner_of_token.get(tok)))
            finalized_seen = fin
    return bad


def model_lines(sc, events):
    """Serialise the run for the model; returns (lines, expectations).  Tokens are the data values."""
    lines, expect = [], []
    cbs = {}
    per_op = []
    cur = []
    for e in events:
        if e[0] == "cb":
            cur.append(e)
        else:
            per_op.append((cur, e[2]))
            cur = []
    spawned_py = set()
    prev_fin = []
    for n, op in enumerate(sc["ops"]):
        cbs_here, fin = per_op[n] if n < len(per_op) else ([], prev_fin)
        newly = [t for t in fin if t not in prev_fin]
        prev_fin = fin
        first_line = len(lines)
        if op[0] == "spawn":
            lines.append("spawn %d 0" % op[1]); expect.append(("ok", None))
        elif op[0] in ("run", "pythread"):
            if op[0] == "pythread":
                lines.append("spawn %d 1" % op[1]); expect.append(("ok", None))
                threads = [op[1]]
            else:
                threads = [x[0] for x in op[1]]
            for t in threads:
                depth = 0
                for e in [c for c in cbs_here if c[1] == t]:
                    _, index, seq, ident, ts, seen, made, nfin = e
                    nested = bool(seq & 0x100000)
                    if not nested and depth:
                        lines.append("exit %d" % t); expect.append(("ok", None)); depth -= 1
                        if depth:
                            lines.append("exit %d" % t); expect.append(("ok", None)); depth -= 1
                    lines.append("enter %d" % t)
                    expect.append(("enter", (index, seen)))
                    depth += 1
                    if made is not None:
                        lines.append("set %d %d" % (t, made)); expect.append(("ok", None))
                while depth:
                    lines.append("exit %d" % t); expect.append(("ok", None)); depth -= 1
            if op[0] == "pythread":
                lines.append("texit %d" % op[1]); expect.append(("ok", None))
        elif op[0] == "exit":
            for t in op[1]:
                lines.append("texit %d" % t); expect.append(("ok", None))
        elif op[0] == "gc":
            pass
        expect.append(("freed-in-op", (first_line, len(lines), sorted(newly))))
        lines.append("zombies")
    lines.append("reset"); expect.append(("ok", None))
    return lines, expect


def run_cases(ctx, n, oracle_only=False):
    build(ctx)
    scs = [gen_scenario(ctx.rng) for _ in range(n)]
    with ThreadPoolExecutor(8) as ex:
        results = list(ex.map(lambda sc: run_scenario(ctx, sc), scs))
    lines, checks = [], []
    for sc, (rc, events, err) in zip(scs, results):
        case = {"scenario": sc}
        ctx.case(json.dumps(sc["ops"]) if nontrivial(sc) else None,
                 sample={"entry": sc["entry"], "ops": sc["ops"][:8]})
        ctx.count("entry:" + sc["entry"])
        for op in sc["ops"]:
            ctx.count("op:" + op[0] + (":ordered" if op[0] == "exit" and op[2] else ":simultaneous" if op[0] == "exit" else ""))
        if err == "timeout":
            raise InfraError("C36 scenario did not finish within 120 s: %r" % (sc,))
        if rc != 0:
            ctx.fail(case, "the process did not survive: exit status %r; stderr: %s" % (rc, err[-600:]))
            continue
        for b in oracle(sc, events):
            ctx.fail(case, b)
        if oracle_only:
            continue
        ml, expect = model_lines(sc, events)
        checks.append((case, len(lines), ml, expect))
        lines += ml
    if oracle_only or not lines:
        return
    out = ctx.driver(lines)
    for case, start, ml, expect in checks:
        answers = out[start:start + len(ml)]
        k = 0
        freed_model = []
        ok = True
        for kind, data in expect:
            if kind == "freed-in-op":
                first, last, newly = data
                a = answers[k]
                k += 1
                got = []
                for x in answers[first:last]:
                    if "freed=" in x:
                        s = x.split("freed=")[1].strip()
                        got += [int(v) for v in s.split(",") if v]
                if sorted(got) != newly:
                    ctx.disagree(case, newly, sorted(got), "thread-local values destroyed during op %r"
                                 % (ml[first:last][:6],))
                    ok = False
                    break
                continue
            a = answers[k]
            k += 1
            if a.startswith("err"):
                ctx.disagree(case, ml[k - 1], a, "event of the real run not enabled in the model")
                ok = False
                break
            if kind == "enter":
                index, seen = data
                want_kind = "new" if (seen is None and index < 100) else "same"   # Python threads come with a thread state
                want = "ok %s data=%s " % (want_kind, "none" if seen is None else str(seen))
                if not a.startswith(want):
                    ctx.disagree(case, want, a, "thread state / thread-local data seen by a callback of thread %d" % index)
                    ok = False
                    break
        ctx.count("model:accepted" if ok else "model:rejected")


def correspond(ctx):
    run_cases(ctx, ctx.n(40, 500))


def search(ctx):
    run_cases(ctx, ctx.n(200, 2000), oracle_only=True)


def replay(ctx, obj):
    sc = obj["case"]["scenario"]
    worst = 0
    for k in range(5):
        rc, events, err = run_scenario(ctx, sc)
        if rc != 0:
            print("run %d: process exit status %r %s" % (k, rc, err[-500:]))
            return 1
        bad = oracle(sc, events)
        if bad:
            print("run %d: %s" % (k, "; ".join(bad[:5])))
            return 1
    print("5 runs of the scenario satisfied the property")
    return worst
