"""C15 -- character arrays and strings round-trip, including the terminator.

Theorems (lean/CffiVerif/Props/C15.lean) over the models of wchar_helper_3.h
(Model/Utf16.lean) and of convert_array_from_object / direct_newp / b_string /
b_unpack (Model/CharArray.lean): size16_eq_length_encode16,
decode16_encode16_partial (+ the negation at the adjacent-lone-surrogates witness),
encode16_decode16, string_stops_at_first_zero, unpack_exactly_n,
assign_shorter_writes_terminator (+ exact fit, too long, wrong kind),
new_char_array_roundtrip, new_fixed_char_array_roundtrip.

Tie to the code: translate/c15_exprs.py re-extracts every test and arithmetic expression of the modelled
C functions into Generated/CharExprs.lean on each run (the models are written over those definitions and
Proofs/*.lean prove what each means, so a changed test stops the proofs); and every scenario below is executed on the rebuilt _cffi_backend,
the raw units of the whole container are read back through ffi.buffer, and
 (a) the property's statement is evaluated in plain Python (struct / codecs with
     'surrogatepass' -- no model involved), and
 (b) the same operation is sent to the Lean driver and the answers are diffed.
"""
import json
import os
import signal
import struct
import sys
import traceback

import common
from common import InfraError

sys.path.insert(0, os.path.join(common.VERIF, "translate"))

MANIFEST = {
    "text": "Kernel-checked theorems over Lean models of cffi's wide-character converters and of the char-array paths of "
            "convert_array_from_object, direct_newp, ffi.string and ffi.unpack, for all strings and all three unit widths: "
            "the allocated length equals the units written, UTF-16 decode(encode(s)) = s unless a lone high surrogate is "
            "directly followed by a lone low one (negation proved at that witness), encode(decode(w)) = w for every unit "
            "sequence, ffi.string returns the longest zero-free prefix of its window, ffi.unpack exactly n units, storing a "
            "shorter string writes the string + one zero unit and leaves the rest unchanged (exact fit: no terminator; longer: "
            "IndexError), and ffi.string(ffi.new('T[]', s)) == s. The models are tied to the code by running bytes/str (BMP, "
            "astral, lone surrogates) x 6 character types x array lengths x new/assign/string/unpack on the rebuilt backend, "
            "reading raw units through ffi.buffer, checking the statement with a plain-Python oracle and diffing with the model driver.",
    "note": "Trusted: Lean kernel; the harness (unit packing, codecs 'surrogatepass' as oracle); CPython's PyUnicode_FromKindAndData / "
            "PyUnicode_AsUCS4 / memcpy / memchr are modelled, not verified; _Bool[] from bytes, list initialisers and slices are not modelled; "
            "wchar_t is modelled at the width ffi.sizeof reports.",
    "technique": "Lean 4 proof (structural induction over code-point / unit lists; bit operations reduced to div/mod + omega) "
                 "+ translator (tests and arithmetic of wchar_helper_3.h / convert_array_from_object / b_string re-extracted each run) "
                 "+ differential correspondence with the rebuilt backend + plain-Python property oracle",
}

RULE = ("random bytes (1..255) and str drawn from ASCII / Latin-1 / BMP / astral / lone high / lone low code points (no NUL), "
        "length 0..10; types char, signed char, unsigned char, wchar_t, char16_t, char32_t; operations ffi.new('T[]'), "
        "ffi.new('T[n]') with n around the unit count, item / field / struct-initialiser assignment over random non-zero prior "
        "contents with neighbours observed, ffi.string (array or pointer+offset, with/without maxlen) and ffi.unpack over random "
        "units with zeros; every run first covers each (route {field, item, init-field, new_fixed} x unit width x fit {exact, shorter-by-1, "
        "shorter-by-more, too-long-by-1} x string class {bmp, astral at start/middle/end, several astral, lone surrogates | ascii, "
        "high bytes}) cell 3 times plus ffi.new('T[]') per (width x class), neighbour memory observed after every store (struct "
        "fields before/after, rows before/after, a 0xA5-filled arena around ffi.new allocations), and -- stores that must write the "
        "terminator themselves -- ffi.new through an allocator that does not clear (open and fixed types) and re-assignment of a "
        "shorter string to a flexible array member allocated with room; counts recorded as cell:* in the "
        "distribution; a case is non-trivial when the string is non-empty; distinct = distinct (type, op, units, parameters)")
TRUSTED_EXTRA = ["translate/c15_exprs.py: regex/shape-checked extraction of the tests and arithmetic of wchar_helper_3.h, "
                 "convert_array_from_object, get_new_array_length and b_string into Generated/CharExprs.lean"]
ASSUMPTIONS = ["little-endian units in ffi.buffer", "sizeof(wchar_t) in {2,4}; the width reported by ffi.sizeof is used"]

CLASSES = {
    "C15/adjacent-lone-surrogates":
        lambda case: case.get("size") == 2 and case.get("init", {}).get("kind") == "str"
        and _has_adjacent_lone_pair(case["init"]["v"]) and case.get("failed") == "roundtrip",
}

# The open finding of this property (DESIGN.md section 7 row 9).  Registered here as well so that the check
# behaves the same before and after the line is added to KNOWN_FINDINGS.jsonl.
FINDINGS = [{
    "property": "C15", "class": "C15/adjacent-lone-surrogates",
    "witness": {"type": "char16_t", "str": [0xD83D, 0xDE00]},
    "what": "a str holding a lone high surrogate directly followed by a lone low surrogate reads back from a 16-bit "
            "character array as the single astral character the pair spells (inherent to UTF-16)",
}]

ARENA, GUARD = 1024, 256
TYPES = ["char", "signed char", "unsigned char", "wchar_t", "char16_t", "char32_t"]
FMT = {1: "B", 2: "H", 4: "I"}


def translators(ctx):
    import c15_exprs
    return [c15_exprs.translator]


def _register_findings(ctx):
    have = set(f["class"] for f in ctx.findings)
    for f in FINDINGS:
        if f["class"] not in have:
            ctx.findings.append(f)
            ctx.open_findings.append(f)


def _is_high(c):
    return 0xD800 <= c <= 0xDBFF


def _is_low(c):
    return 0xDC00 <= c <= 0xDFFF


def _has_adjacent_lone_pair(cps):
    return any(_is_high(a) and _is_low(b) for a, b in zip(cps, cps[1:]))


# ---------------------------------------------------------------- values and units

def to_py(init):
    if init["kind"] == "bytes":
        return bytes(init["v"])
    return "".join(chr(c) for c in init["v"])


def canon(x):
    """Python result of ffi.string / ffi.unpack -> protocol token."""
    if isinstance(x, bytes):
        return "b:" + lst(list(x))
    if isinstance(x, str):
        return "s:" + lst([ord(c) for c in x])
    if isinstance(x, list):      # unpack of signed char / unsigned char: a list of ints
        return "b:" + lst([v & 0xFF for v in x])
    raise InfraError("unexpected result %r" % (x,))


def lst(v):
    return ",".join(str(x) for x in v) if v else "-"


def tok(init):
    return ("b:" if init["kind"] == "bytes" else "s:") + lst(init["v"])


def oracle_units(init, size):
    """Units the string spells, computed without the model."""
    if init["kind"] == "bytes":
        return list(init["v"])
    s = to_py(init)
    if size == 2:
        raw = s.encode("utf-16-le", "surrogatepass")
        return list(struct.unpack("<%dH" % (len(raw) // 2), raw))
    return [ord(c) for c in s]


def oracle_value(units, size, T):
    """Python object a unit sequence reads as (ffi.string / ffi.unpack of char types)."""
    if size == 1:
        return bytes(units)
    if size == 2:
        return struct.pack("<%dH" % len(units), *units).decode("utf-16-le", "surrogatepass")
    return "".join(chr(u) for u in units)


def read_units(ffi, cd, size):
    raw = bytes(ffi.buffer(cd))
    return list(struct.unpack("<%d%s" % (len(raw) // size, FMT[size]), raw))


def write_units(ffi, cd, size, units):
    ffi.buffer(cd)[:] = struct.pack("<%d%s" % (len(units), FMT[size]), *units)


# ---------------------------------------------------------------- generators

def gen_cp(rng, size):
    r = rng.random()
    if r < 0.30:
        return rng.randint(1, 0x7F)
    if r < 0.40:
        return rng.randint(0x80, 0xFF)
    if r < 0.55:
        return rng.choice([rng.randint(0x100, 0xD7FF), rng.randint(0xE000, 0xFFFF), 0xFFFF, 0xD7FF, 0xE000])
    if r < 0.75:
        return rng.choice([0x10000, 0x10FFFF, 0x1F600, 0x103FF, 0x10400, rng.randint(0x10000, 0x10FFFF)])
    if r < 0.88:
        return rng.choice([0xD800, 0xDBFF, rng.randint(0xD800, 0xDBFF)])
    return rng.choice([0xDC00, 0xDFFF, rng.randint(0xDC00, 0xDFFF)])


def gen_init(rng, kind, size, maxlen=10):
    n = rng.choice([0, 1, 1, 2, 2, 3, 3, 4, 5, 6, 8, maxlen])
    if kind == "bytes":
        return {"kind": "bytes", "v": [rng.choice([rng.randint(1, 255), 0xFF, 0x80, 0x7F, 0x01]) for _ in range(n)]}
    v = [gen_cp(rng, size) for _ in range(n)]
    if n >= 2 and rng.random() < 0.06:       # the known-finding class, on purpose
        i = rng.randrange(n - 1)
        v[i], v[i + 1] = rng.randint(0xD800, 0xDBFF), rng.randint(0xDC00, 0xDFFF)
    return {"kind": "str", "v": v}


def gen_units(rng, size, n):
    """Arbitrary array contents for string/unpack: zeros, surrogates, high bytes."""
    out = []
    pz = rng.choice([0.0, 0.1, 0.3])
    for _ in range(n):
        r = rng.random()
        if r < pz:
            out.append(0)
        elif size == 1:
            out.append(rng.choice([rng.randint(1, 255), 0xFF, 0x80]))
        elif size == 2:
            out.append(rng.choice([rng.randint(1, 0xFFFF), rng.randint(0xD800, 0xDBFF), rng.randint(0xDC00, 0xDFFF),
                                   rng.randint(1, 0x7F)]))
        else:
            out.append(rng.choice([rng.randint(1, 0x10FFFF), rng.randint(0xD800, 0xDFFF), rng.randint(1, 0x7F),
                                   0x10FFFF]))
    return out


def gen_prior(rng, size, n):
    top = {1: 0xFF, 2: 0xFFFF, 4: 0x10FFFF}[size]
    return [rng.randint(1, top) for _ in range(n)]


def gen_case(rng, sizes):
    T = rng.choice(TYPES)
    size = sizes[T]
    right = "bytes" if size == 1 else "str"
    kind = right if rng.random() < 0.93 else ("str" if right == "bytes" else "bytes")
    op = rng.choice(["new_open", "new_fixed", "assign", "assign", "assign", "string", "string", "unpack"])
    case = {"type": T, "size": size, "op": op}
    if op in ("new_open", "new_fixed", "assign"):
        init = gen_init(rng, kind, size)
        case["init"] = init
        ulen = len(oracle_units(init, size)) if kind == right else len(init["v"])
        if op == "new_open":
            case["maxlens"] = sorted(set(rng.randint(0, ulen + 1) for _ in range(2)))
            case["ns"] = sorted(set(rng.randint(0, ulen + 1) for _ in range(2)))
        else:
            n = max(0, ulen + rng.choice([-2, -1, 0, 0, 1, 1, 2, 3, 5]))
            case["n"] = n
            if op == "assign":
                case["container"] = rng.choice(["item", "field", "init-field"])
                case["prior"] = [0] * n if case["container"] == "init-field" else gen_prior(rng, size, n)
                case["around"] = gen_prior(rng, size, 4)
                if n == 0:
                    case["container"] = "item"
                    case["prior"] = []
                    case["around"] = gen_prior(rng, size, 4)
    else:
        n = rng.randint(1, 12)
        mem = gen_units(rng, size, n)
        case["mem"] = mem
        case["container"] = rng.choice(["array", "ptr"])
        off = rng.randint(0, n - 1) if case["container"] == "ptr" and rng.random() < 0.6 else 0
        case["off"] = off
        avail = n - off
        if op == "unpack":
            case["n_units"] = rng.randint(0, avail)
            if size == 4 and rng.random() < 0.05:       # the single out-of-range unit: SystemError branch
                case["mem"][off] = rng.choice([0x110000, 0xFFFFFFFF, 0x80000000])
                case["n_units"] = 1
        else:
            zero_at = next((i for i, u in enumerate(mem[off:]) if u == 0), None)
            choices = [rng.randint(0, avail)]
            if case["container"] == "array":
                choices.append(-1)
            if zero_at is not None:
                choices += [-1, avail + rng.randint(1, 5)]      # unbounded / oversized window: a zero stops the scan
            case["maxlen"] = rng.choice(choices)
    return case



# ---------------------------------------------------------------- the guaranteed grid

ROUTES = ["field", "item", "init-field", "new_fixed"]
FITS = ["exact", "shorter-by-1", "shorter-by-more", "too-long-by-1"]
STR_CLASSES = ["bmp", "astral-start", "astral-middle", "astral-end", "astral-several", "lone-surrogates"]
BYTES_CLASSES = ["ascii", "high-bytes"]
WIDTH_TYPES = {1: ["char", "signed char", "unsigned char"], 2: ["char16_t"], 4: ["wchar_t", "char32_t"]}
GRID_MIN = 3        # cases per (route x width x fit x string class) cell, every run


def _bmp(rng):
    return rng.choice([rng.randint(0x21, 0x7E), rng.randint(0xA1, 0xFF), rng.randint(0x100, 0xD7FF),
                       rng.randint(0xE000, 0xFFFF), 0xFFFF])


def _astral(rng):
    return rng.choice([0x10000, 0x10FFFF, 0x1F600, rng.randint(0x10000, 0x10FFFF)])


def gen_class_string(rng, cls, min_units=1):
    """A string of the given class (code points / byte values), at least `min_units` units long in every width."""
    if cls == "ascii":
        return [rng.randint(1, 0x7F) for _ in range(rng.randint(max(1, min_units), 6))]
    if cls == "high-bytes":
        return [rng.choice([rng.randint(0x80, 0xFF), 0xFF, 0x80]) for _ in range(rng.randint(max(1, min_units), 6))]
    some = lambda lo, hi: [_bmp(rng) for _ in range(rng.randint(lo, hi))]
    if cls == "bmp":
        return some(max(1, min_units), 6)
    if cls == "astral-start":
        return [_astral(rng)] + some(max(0, min_units - 1), 3)
    if cls == "astral-end":
        return some(max(0, min_units - 1), 3) + [_astral(rng)]
    if cls == "astral-middle":
        return some(1, 2) + [_astral(rng)] + some(1, 2)
    if cls == "astral-several":
        out = [_astral(rng)]
        for _ in range(rng.randint(1, 3)):
            out += some(0, 1) + [_astral(rng)]
        return out + some(0, 1)
    if cls == "lone-surrogates":
        # never a high directly followed by a low (that is the known-finding class)
        out = []
        for _ in range(rng.randint(max(1, min_units), 4)):
            c = rng.choice([rng.randint(0xD800, 0xDBFF), rng.randint(0xDC00, 0xDFFF), _bmp(rng)])
            if out and _is_high(out[-1]) and _is_low(c):
                out.append(_bmp(rng))
            out.append(c)
        if not any(0xD800 <= c <= 0xDFFF for c in out):
            out.append(rng.randint(0xDC00, 0xDFFF) if not (out and _is_high(out[-1])) else rng.randint(0xD800, 0xDBFF))
        return out
    raise InfraError("unknown string class " + cls)


def gen_grid(rng, sizes):
    """Every (route x width x fit x string class) cell GRID_MIN times, plus ffi.new('T[]') per (width x class);
    lengths and contents random within the class.  -> [(cell name, case)]"""
    out = []
    widths = sorted(set(sizes.values()))
    for w in widths:
        types = [T for T in TYPES if sizes[T] == w]
        classes = BYTES_CLASSES if w == 1 else STR_CLASSES
        kind = "bytes" if w == 1 else "str"
        turn = 0
        for cls in classes:
            for rep in range(GRID_MIN):
                T = types[turn % len(types)]
                turn += 1
                init = {"kind": kind, "v": gen_class_string(rng, cls)}
                out.append(("new_open|w%d|open|%s" % (w, cls),
                            {"type": T, "size": w, "op": "new_open", "init": init, "maxlens": [], "ns": []}))
            # stores that must write the terminator themselves: uncleared allocations, flexible array members
            for fit in ("open", "shorter-by-1", "shorter-by-more", "exact"):
                for rep in range(GRID_MIN):
                    T = types[turn % len(types)]
                    turn += 1
                    init = {"kind": kind, "v": gen_class_string(rng, cls)}
                    u = len(oracle_units(init, w))
                    n = {"open": None, "shorter-by-1": u + 1, "shorter-by-more": u + rng.randint(2, 5), "exact": u}[fit]
                    out.append(("new_dirty|w%d|%s|%s" % (w, fit, cls),
                                {"type": T, "size": w, "op": "new_dirty", "init": init, "n": n}))
            for alloc in ("length", "init"):
                for rep in range(GRID_MIN):
                    T = types[turn % len(types)]
                    turn += 1
                    prior = {"kind": kind, "v": gen_class_string(rng, cls, 3)}
                    pu = len(oracle_units(prior, w))
                    init = {"kind": kind, "v": gen_class_string(rng, cls)}
                    for _ in range(20):
                        if len(oracle_units(init, w)) < pu:
                            break
                        init = {"kind": kind, "v": gen_class_string(rng, cls)}
                    else:
                        init = {"kind": kind, "v": prior["v"][:1]}
                    room = pu + 1 if alloc == "init" else pu + 1 + rng.randint(0, 3)
                    out.append(("flex-%s|w%d|shorter|%s" % (alloc, w, cls),
                                {"type": T, "size": w, "op": "flex", "alloc": alloc, "room": room,
                                 "prior_init": prior, "init": init}))
            for route in ROUTES:
                for fit in FITS:
                    for rep in range(GRID_MIN):
                        T = types[turn % len(types)]
                        turn += 1
                        init = {"kind": kind, "v": gen_class_string(rng, cls, 2 if fit == "too-long-by-1" else 1)}
                        u = len(oracle_units(init, w))
                        n = {"exact": u, "shorter-by-1": u + 1, "shorter-by-more": u + rng.randint(2, 5),
                             "too-long-by-1": u - 1}[fit]
                        case = {"type": T, "size": w, "init": init, "n": n}
                        if route == "new_fixed":
                            case.update(op="new_fixed")
                        else:
                            case.update(op="assign", container=route, around=gen_prior(rng, w, 4),
                                        prior=[0] * n if route == "init-field" else gen_prior(rng, w, n))
                        out.append(("%s|w%d|%s|%s" % (route, w, fit, cls), case))
    return out

# ---------------------------------------------------------------- running one case

class Runner:
    def __init__(self):
        import cffi
        self.ffi = ffi = cffi.FFI()
        self.sizes = {T: self.ffi.sizeof(T) for T in TYPES}
        for T, s in self.sizes.items():
            if s not in (1, 2, 4):
                raise InfraError("unexpected sizeof(%s) = %d" % (T, s))
        self.structs = {}
        # ffi.new() for the new_* scenarios allocates inside an arena this harness owns, so that a store
        # outside the array lands in observed padding (0xA5) instead of corrupting the heap
        self.arena = ffi.new("char[]", ARENA)
        self.arena_size = None

        def alloc(nbytes):
            self.arena_size = nbytes
            if nbytes > ARENA - 2 * GUARD:
                raise InfraError("arena too small for %d bytes" % nbytes)
            return ffi.cast("char *", self.arena) + GUARD
        self.new = ffi.new_allocator(alloc, None, True)
        # the same arena, NOT cleared after allocation: the terminator must be written by the store itself
        self.new_dirty = ffi.new_allocator(alloc, None, False)
        self.flex = {}

    def arena_prepare(self):
        self.ffi.buffer(self.arena)[:] = b"\xa5" * ARENA
        self.arena_size = None

    def arena_damage(self):
        """Offsets (relative to the allocation) of bytes outside it that changed."""
        raw = bytes(self.ffi.buffer(self.arena))
        n = self.arena_size or 0
        bad = [i - GUARD for i in range(ARENA) if not (GUARD <= i < GUARD + n) and raw[i] != 0xA5]
        return bad

    def flex_for(self, T):
        if T not in self.flex:
            name = "c15_flex_%s" % T.replace(" ", "_")
            self.ffi.cdef("struct %s { int n; %s data[]; };" % (name, T))
            self.flex[T] = name
        return self.flex[T]

    def struct_for(self, T, n):
        key = (T, n)
        if key not in self.structs:
            name = "c15_%s_%d" % (T.replace(" ", "_"), n)
            self.ffi.cdef("struct %s { %s pre[2]; %s a[%d]; %s post[2]; };" % (name, T, T, n, T))
            self.structs[key] = name
        return self.structs[key]

    def run(self, case):
        """-> (observations, problems).  observation = (driver line, canonical impl answer);
        problem = (tag, text): the property's statement evaluated by the plain-Python oracle failed."""
        ffi, T, size, op = self.ffi, case["type"], case["size"], case["op"]
        obs, problems = [], []
        right = "bytes" if size == 1 else "str"

        def attempt(fn):
            try:
                return "ok", fn()
            except (TypeError, IndexError, ValueError, SystemError, OverflowError) as e:
                return "err", type(e).__name__

        def expect_store(init, n):
            """Oracle for a store into T[n] (n=None: T[]): ('err', Kind) or ('ok', units written incl. terminator)."""
            if init["kind"] != right:
                return "err", "TypeError"
            u = oracle_units(init, size)
            if n is not None and len(u) > n:
                return "err", "IndexError"
            if n is None or len(u) < n:
                return "ok", u + [0]
            return "ok", u

        def check_string(cd, mem, maxlen, alen, tag):
            """ffi.string(cd[, maxlen]) where mem = the units from cd's start on."""
            st, val = attempt(lambda: ffi.string(cd) if maxlen < 0 else ffi.string(cd, maxlen))
            window = maxlen if maxlen >= 0 else alen
            seg = mem if window < 0 else mem[:window]
            k = next((i for i, u in enumerate(seg) if u == 0), len(seg))
            want_units = seg[:k]
            if size == 4 and len(want_units) == 1 and want_units[0] > 0x10FFFF:
                want = ("err", "SystemError")
            else:
                want = ("ok", oracle_value(want_units, size, T))
            if (st, val) != want:
                problems.append((tag, "ffi.string(maxlen=%d) over units %s returned %r, the zero-free prefix of the window is %r"
                                 % (maxlen, mem, val, want[1])))
            obs.append(("string %d %s %d %d" % (size, lst(mem), maxlen, alen),
                        "ok " + canon(val) if st == "ok" else "err " + val))
            return st, val

        def check_unpack(cd, mem, n, tag):
            st, val = attempt(lambda: ffi.unpack(cd, n))
            units = mem[:n]
            if size == 4 and n == 1 and units[0] > 0x10FFFF:
                want = ("err", "SystemError")
            elif T == "signed char":
                want = ("ok", [u - 256 if u >= 128 else u for u in units])
            elif T == "unsigned char":
                want = ("ok", list(units))
            else:
                want = ("ok", oracle_value(units, size, T))
            if (st, val) != want:
                problems.append((tag, "ffi.unpack(n=%d) over units %s returned %r, exactly n units read as %r"
                                 % (n, mem, val, want[1])))
            obs.append(("unpack %d %s %d" % (size, lst(mem), n), "ok " + canon(val) if st == "ok" else "err " + val))

        if op in ("new_open", "new_fixed"):
            init = case["init"]
            val = to_py(init)
            n = case.get("n")
            decl = "%s[]" % T if op == "new_open" else "%s[%d]" % (T, n)
            self.arena_prepare()
            st, p = attempt(lambda: self.new(decl, val))
            want = expect_store(init, n)
            damage = self.arena_damage()
            if damage:
                problems.append(("store", "ffi.new(%r, %r) wrote outside the %s bytes it allocated, at byte offsets %s"
                                 % (decl, val, self.arena_size, damage[:8])))
            line = ("new %d %s" % (size, tok(init))) if op == "new_open" else ("newn %d %d %s" % (size, n, tok(init)))
            if st == "err":
                obs.append((line, "err " + p))
                if want != ("err", p):
                    problems.append(("store", "%s <- %r raised %s, expected %r" % (decl, val, p, want)))
                return obs, problems
            units = read_units(ffi, p, size)
            obs.append((line, "ok " + lst(units)))
            if want[0] == "err":
                problems.append(("store", "%s <- %r was accepted, expected %s" % (decl, val, want[1])))
                return obs, problems
            total = len(want[1]) if op == "new_open" else n
            full = want[1] + [0] * (total - len(want[1]))
            if units != full or len(p) != total:
                problems.append(("store", "%s <- %r holds units %s (len %d), expected %s" % (decl, val, units, len(p), full)))
            # the round trip, as the property states it
            st2, back = check_string(p, units, -1, len(p), "string")
            if (st2, back) != ("ok", val):
                problems.append(("roundtrip", "ffi.string(ffi.new(%r, s)) = %r for s = %r" % (decl, back, val)))
            for m in case.get("maxlens", ()):
                if m <= len(p):
                    check_string(p, units, m, len(p), "string")
            for k in case.get("ns", ()):
                if k <= len(p):
                    check_unpack(p, units, k, "unpack")
            return obs, problems

        if op == "new_dirty":
            # ffi.new through an allocator that does not clear: the array starts as 0xA5 bytes
            init, n = case["init"], case.get("n")
            val = to_py(init)
            fill = {1: 0xA5, 2: 0xA5A5, 4: 0xA5A5A5A5}[size]
            decl = "%s[]" % T if n is None else "%s[%d]" % (T, n)
            self.arena_prepare()
            st, p = attempt(lambda: self.new_dirty(decl, val))
            want = expect_store(init, n)
            damage = self.arena_damage()
            units = read_units(ffi, p, size) if st == "ok" else None
            if damage:
                problems.append(("store", "ffi.new(%r, %r) (uncleared allocator) wrote outside its allocation, at byte offsets %s"
                                 % (decl, val, damage[:8])))
            total = len(units) if units is not None else (n if n is not None else 0)
            line = "%s %d %s %s" % ("assignopen" if n is None else "assign", size, lst([fill] * total), tok(init))
            if st == "err":
                if want != ("err", p):
                    problems.append(("store", "%s <- %r raised %s, expected %r" % (decl, val, p, want)))
                if n is not None:
                    obs.append((line, "err " + p))
                return obs, problems
            obs.append((line, "ok " + lst(units)))
            if want[0] == "err":
                problems.append(("store", "%s <- %r was accepted, expected %s" % (decl, val, want[1])))
                return obs, problems
            expect_total = len(want[1]) if n is None else n
            full = want[1] + [fill] * (expect_total - len(want[1]))
            if units != full:
                problems.append(("store", "%s <- %r in uncleared (0xA5) memory holds units %s, expected the string, one zero unit "
                                 "when there is room, and untouched memory after it: %s" % (decl, val, units, full)))
            st2, back = check_string(p, units, -1, len(p), "string")
            if (st2, back) != ("ok", val):
                problems.append(("roundtrip", "ffi.string(new_allocator(clear=False)(%r, s)) = %r for s = %r" % (decl, back, val)))
            check_unpack(p, units, len(want[1]), "unpack")     # the string and its terminator, not the 0xA5 filler
            return obs, problems

        if op == "flex":
            # struct { int n; T data[]; } allocated with room, holding `prior`, then re-assigned the shorter `init`
            init, prior, room = case["init"], case["prior_init"], case["room"]
            val, pval = to_py(init), to_py(prior)
            sname = self.flex_for(T)
            if case["alloc"] == "length":
                p = ffi.new("struct %s *" % sname, [7, room])
                p.data = pval
            else:
                p = ffi.new("struct %s *" % sname, {"n": 7, "data": pval})
            off = ffi.offsetof("struct %s" % sname, "data") // size
            whole = lambda: list(struct.unpack("<%d%s" % (ffi.sizeof(p[0]) // size, FMT[size]),
                                               bytes(ffi.buffer(p, ffi.sizeof(p[0])))))
            before = whole()
            pu = oracle_units(prior, size)
            if before[off:off + len(pu) + 1] != pu + [0] or len(before) - off != room:
                problems.append(("store", "flexible member after the first store of %r holds %s (room %d)" % (pval, before[off:], room)))

            def do():
                p.data = val
            st, e = attempt(do)
            after = whole()
            line = "assignopen %d %s %s" % (size, lst(before[off:]), tok(init))
            if st == "err":
                obs.append((line, "err " + e))
                problems.append(("store", "p.data = %r raised %s" % (val, e)))
                return obs, problems
            obs.append((line, "ok " + lst(after[off:])))
            u = oracle_units(init, size)
            expect_after = before[:off] + u + [0] + before[off + len(u) + 1:]
            if after != expect_after:
                problems.append(("store", "p.data = %r over a flexible %s member holding %s gives %s, expected the string, one zero "
                                 "unit and nothing else: %s" % (val, T, before[off:], after[off:], expect_after[off:])))
            st2, back = check_string(p.data, after[off:], -1, len(p.data), "string")
            if (st2, back) != ("ok", val):
                problems.append(("roundtrip", "ffi.string(p.data) after p.data = %r over %r is %r" % (val, pval, back)))
            return obs, problems

        if op == "assign":
            init, n, prior, cont = case["init"], case["n"], case["prior"], case["container"]
            val = to_py(init)
            want = expect_store(init, n)
            if cont == "item":
                around = case["around"]
                p = ffi.new("%s[3][%d]" % (T, n))
                before = (around * n)[:n] + prior + (around[::-1] * n)[:n]
                if n:
                    write_units(ffi, p, size, before)

                def do():
                    p[1] = val
                lo, hi = n, 2 * n
                cd = p
                target = lambda: p[1]
            else:
                sname = self.struct_for(T, n)
                if cont == "field":
                    around = case["around"]
                    p = ffi.new("struct %s *" % sname)
                    before = around[:2] + prior + around[2:]
                    write_units(ffi, p, size, before)

                    def do():
                        p.a = val
                else:
                    around = case.get("around") or [0, 0, 0, 0]
                    before = around[:2] + [0] * n + around[2:]
                    holder = []

                    def do():
                        # dict order = store order: the neighbours first, then the array
                        nb = (lambda v: bytes(v)) if size == 1 else (lambda v: "".join(chr(c) for c in v))
                        holder.append(ffi.new("struct %s *" % sname,
                                              {"pre": nb(around[:2]), "post": nb(around[2:]), "a": val}))
                lo, hi = 2, 2 + n
                target = lambda: (holder[0] if cont == "init-field" else p).a
            st, e = attempt(do)
            if cont == "init-field":
                cd = holder[0] if holder else None
            elif cont == "field":
                cd = p
            after = read_units(ffi, cd, size) if cd is not None else None
            line = "assign %d %s %s" % (size, lst(prior), tok(init))
            if st == "err":
                obs.append((line, "err " + e))
                if want != ("err", e):
                    problems.append(("store", "%s of %r into %s[%d] raised %s, expected %r" % (cont, val, T, n, e, want)))
                if after is not None and after != before:
                    problems.append(("store", "rejected store changed memory: %s -> %s" % (before, after)))
                if after is None and cont == "init-field" and want == ("err", e):
                    pass        # the struct was never created
                return obs, problems
            obs.append((line, "ok " + lst(after[lo:hi])))
            if want[0] == "err":
                problems.append(("store", "%s of %r into %s[%d] was accepted, expected %s" % (cont, val, T, n, want[1])))
                return obs, problems
            w = want[1]
            expect_after = before[:lo] + w + before[lo + len(w):]
            if after != expect_after:
                problems.append(("store", "%s of %r into %s[%d] over %s gives %s, expected string + one zero unit and "
                                 "nothing else: %s" % (cont, val, T, n, before, after, expect_after)))
            # and it reads back (array cdata: window = n)
            st2, back = check_string(target(), after[lo:hi], -1, n, "string")
            if (st2, back) != ("ok", val):
                problems.append(("roundtrip", "ffi.string after storing %r into %s[%d] over %s = %r" % (val, T, n, prior, back)))
            return obs, problems

        # string / unpack over arbitrary contents
        mem, off, cont = case["mem"], case["off"], case["container"]
        arr = ffi.new("%s[%d]" % (T, len(mem)))
        write_units(ffi, arr, size, mem)
        if cont == "array":
            cd, alen = arr, len(mem)
        else:
            cd, alen = ffi.cast("%s *" % T, arr) + off, -1
        if op == "string":
            check_string(cd, mem[off:], case["maxlen"], alen, "string")
        else:
            check_unpack(cd, mem[off:], case["n_units"], "unpack")
        del arr
        return obs, problems


def nontrivial_key(case):
    body = case.get("init", {}).get("v") or case.get("mem")
    if not body:
        return None
    extra = (case.get("n"), case.get("container"), case.get("maxlen"), case.get("n_units"), case.get("off"),
             tuple(case.get("prior", ())), case.get("alloc"), case.get("room"),
             tuple(case.get("prior_init", {}).get("v", ())))
    return (case["type"], case["op"], case.get("init", {}).get("kind"), tuple(body), extra)


def classify(ctx, case):
    ctx.count("type:" + case["type"])
    ctx.count("op:" + case["op"] + (":" + case["container"] if "container" in case else ""))
    init = case.get("init")
    if init:
        right = "bytes" if case["size"] == 1 else "str"
        if init["kind"] != right:
            ctx.count("store:wrong-kind")
        elif case.get("n") is not None:
            u = len(oracle_units(init, case["size"]))
            ctx.count("store:" + ("too-long" if u > case["n"] else "exact-fit" if u == case["n"] else "shorter"))
        if init["kind"] == "str":
            v = init["v"]
            if any(c > 0xFFFF for c in v):
                ctx.count("str:astral")
            if any(0xD800 <= c <= 0xDFFF for c in v):
                ctx.count("str:lone-surrogate")
            if _has_adjacent_lone_pair(v):
                ctx.count("str:adjacent-lone-pair")
    if case["op"] == "string":
        ctx.count("string:" + ("no-maxlen" if case["maxlen"] < 0 else "maxlen"))


def run_guarded(cases):
    """Execute the cases in a forked child (the implementation under test may corrupt the heap or crash);
    -> (results, crashed): results[i] = (obs, problems) for the cases completed, crashed = None or
    (index of the case running when the child died, description)."""
    r, w = os.pipe()
    pid = os.fork()
    if pid == 0:
        code = 0
        try:
            os.close(r)
            runner = Runner()
            with os.fdopen(w, "w") as out:
                for i, case in enumerate(cases):
                    out.write("S %d\n" % i)
                    out.flush()
                    obs, problems = runner.run(case)
                    out.write("R " + json.dumps([obs, problems]) + "\n")
                    out.flush()
        except BaseException:
            traceback.print_exc()
            code = 3
        finally:
            os._exit(code)
    os.close(w)
    results, started = [], -1
    with os.fdopen(r) as inp:
        for line in inp:
            if line.startswith("S "):
                started = int(line[2:])
            elif line.startswith("R "):
                obs, problems = json.loads(line[2:])
                results.append(([tuple(o) for o in obs], [tuple(p) for p in problems]))
    _, status = os.waitpid(pid, 0)
    if os.WIFSIGNALED(status):
        sig = os.WTERMSIG(status)
        try:
            name = signal.Signals(sig).name
        except ValueError:
            name = str(sig)
        return results, (started, "the interpreter was killed by %s while executing this case "
                                  "(memory corrupted by this or an earlier store)" % name)
    if os.WEXITSTATUS(status) != 0 or len(results) != len(cases):
        raise InfraError("case runner failed (exit %d) after %d of %d cases" % (os.WEXITSTATUS(status), len(results), len(cases)))
    return results, None


def run_cases(ctx, n, with_driver, fixed=()):
    sizes = Runner().sizes
    todo = [(None, c) for c in fixed] + gen_grid(ctx.rng, sizes)
    ngrid = len(todo)
    todo += [(None, gen_case(ctx.rng, sizes)) for _ in range(n)]
    results, crashed = run_guarded([c for _, c in todo])
    lines, expect = [], []
    for idx, ((cell, case), (obs, problems)) in enumerate(zip(todo, results)):
        ctx.case(nontrivial_key(case), sample=case if idx >= ngrid else None)
        if cell:
            ctx.count("cell:" + cell)
        else:
            classify(ctx, case)
        for tag, text in problems:
            c = dict(case)
            c["failed"] = tag
            ctx.fail(c, text)
        for line, impl in obs:
            lines.append(line)
            expect.append((case, impl))
    if crashed:
        idx, text = crashed
        c = dict(todo[idx][1])
        c["failed"] = "crash"
        ctx.fail(c, text)
        ctx.count("crashed")
    ctx.count("driver-lines", len(lines))
    if not with_driver:
        return
    out = ctx.driver(lines)
    for line, o, (case, impl) in zip(lines, out, expect):
        if o != impl:
            ctx.disagree(case, impl, o, line)


# ---------------------------------------------------------------- entry points

def fixed_cases(sizes):
    # the witness of the finding and of the repaired defect, always
    return [
        {"type": "wchar_t", "size": sizes["wchar_t"], "op": "assign", "container": "field", "n": 6,
         "init": {"kind": "str", "v": [0x61, 0x62]}, "prior": [0x77, 0x78, 0x79, 0x7A, 0x21, 0x22], "around": [1, 2, 3, 4]},
        {"type": "char16_t", "size": 2, "op": "assign", "container": "item", "n": 5,
         "init": {"kind": "str", "v": [0x1F600]}, "prior": [0x77, 0x78, 0x79, 0x7A, 0x21], "around": [1, 2, 3, 4]},
        {"type": "char16_t", "size": 2, "op": "assign", "container": "field", "n": 2,
         "init": {"kind": "str", "v": [0x1F600]}, "prior": [0x77, 0x78], "around": [1, 2, 3, 4]},
        {"type": "char16_t", "size": 2, "op": "new_open", "init": {"kind": "str", "v": [0xD83D, 0xDE00]},
         "maxlens": [1], "ns": [2]},
        # the store itself must write the terminator: uncleared allocation, flexible array member re-assigned
        {"type": "char", "size": 1, "op": "new_dirty", "init": {"kind": "bytes", "v": list(b"hello")}, "n": None},
        {"type": "char", "size": 1, "op": "flex", "alloc": "length", "room": 9,
         "prior_init": {"kind": "bytes", "v": list(b"ABCDEFGH")}, "init": {"kind": "bytes", "v": list(b"xy")}},
        {"type": "char", "size": 1, "op": "flex", "alloc": "init", "room": 9,
         "prior_init": {"kind": "bytes", "v": list(b"ABCDEFGH")}, "init": {"kind": "bytes", "v": list(b"xy")}},
    ]


def correspond(ctx):
    _register_findings(ctx)
    run_cases(ctx, ctx.n(5000, 200000), with_driver=True, fixed=fixed_cases(Runner().sizes))


def search(ctx):
    _register_findings(ctx)
    run_cases(ctx, ctx.n(30000, 400000), with_driver=False, fixed=fixed_cases(Runner().sizes))


def check_witness(ctx, finding):
    import cffi
    ffi = cffi.FFI()
    w = finding["witness"]
    s = "".join(chr(c) for c in w["str"])
    return ffi.string(ffi.new("%s[]" % w["type"], s)) != s


def replay(ctx, obj):
    case = dict(obj["case"])
    case.pop("failed", None)
    obs, problems = Runner().run(case)
    for line, impl in obs:
        print("%s -> %s" % (line, impl))
    for tag, text in problems:
        print("FAILS [%s]: %s" % (tag, text))
    return 1 if problems else 0
