"""C27 -- non-aggregate ctypes are canonical over any history.

Theorems (lean/CffiVerif/Props/C27.lean) over Model/UniqueCache.lean: canonical,
canonical_shallow, rebuild_after_free_unique, children_outlive_parent,
only_dead_entries_removed, build_returns_live.

Tie to the code: random histories of type constructions through every front
end (direct `_cffi_backend.new_*_type` calls, `typeof()` of in-line `cffi.FFI()`
objects, of bare `_cffi_backend.FFI()` objects and of out-of-line modules written
by `emit_python_code`), dropping of references and of whole FFI objects,
`gc.collect()`, and rebuilding a type from inside the weakref callback that runs
in the middle of its predecessor's deallocation.
  * Property oracle (no model involved): the harness computes the structural
    description of every type from the way it asked for it, keeps a registry
    description <-> live object (weakrefs), and demands `is`-identity iff equal
    description for all live non-aggregate ctypes, also for every sub-type reached
    through `.item` / `.result` / `.args`; the attributes of the returned object
    must be those of the description.
  * Correspondence: every construction (bottom-up, with the real addresses mapped
    to small integers, so that address reuse is visible) and every observed
    deallocation is a line of the model's protocol; the model must accept the trace
    and agree on hit / new / the exception type.
"""
import gc
import importlib
import json
import os
import random
import sys
import weakref

import common
from common import InfraError

MANIFEST = {
    "text": "Kernel-checked theorems about a model of unique_cache (weak-valued dict keyed by the addresses of the child "
            "ctypes, deallocation split into clear-weakrefs and remove-dead-entry with arbitrary operations in between, "
            "address reuse): in every reachable state two live ctypes have the same structural description iff they are "
            "the same object (canonical, also in the one-level form), the key determines the shape, two successive "
            "builds of a non-aggregate type return the same object whatever was freed before, children stay live as "
            "long as a parent is allocated, and only dead entries are ever deleted.  Tied to _cffi_backend by random "
            "histories through all front ends whose constructions and observed deallocations the model must accept, "
            "with an independent identity-iff-description oracle on the real objects.",
    "note": "Trusted: Lean kernel; the Word abstraction of key words (addresses of distinct live objects, static records "
            "and small integers do not collide within keys of equal length); CPython weakref/refcount semantics; "
            "the harness's description printer (C declarator syntax).  Not modelled: the free-threaded build's locking, "
            "enum/struct/union caches of the FFI front ends, overflow of length*itemsize.",
    "technique": "Lean 4 proof (invariants of a transition system by induction over operation lists; structural induction "
                 "on type descriptions) + trace acceptance of random histories + direct identity oracle",
}

RULE = ("histories of 20..60 steps: build a random type description (depth <= 4 over 7 primitives, void, pointers, arrays "
        "with lengths from a pool containing neighbours of 2^8, 2^16, 2^32, open arrays, function pointers with 0-3 "
        "arguments / ellipsis / 3 ABIs, struct leaves) through a random front end (backend calls, typeof on 2 in-line "
        "FFIs, 2 bare backend FFIs, 2 out-of-line modules), drop references, drop and recreate FFI objects / modules, "
        "gc.collect(), rebuild twice after an observed deallocation, rebuild inside the deallocation's weakref "
        "callback, constructor calls the backend rejects; a history is non-trivial when a type was freed and rebuilt "
        "and the same description was reached through two different front ends; distinct = distinct step sequences")
ASSUMPTIONS = ["id() of a live object is its address; equal ids of live objects mean the same object",
               "CPython calls weakref callbacks from PyObject_ClearWeakRefs before the rest of tp_dealloc runs"]
CLASSES = {}

def translators(ctx):
    """statements of get_or_insert_unique_type / remove_dead_unique_reference / ctypedescr_dealloc"""
    sys.path.insert(0, os.path.join(common.VERIF, "translate"))
    import c27_steps
    return [lambda: c27_steps.translate(common.REPO, common.write_generated)]


PRIMS = ["int", "char", "short", "long", "unsigned int", "double", "signed char"]
SPELL = {"unsigned int": ["unsigned int", "unsigned"], "long": ["long", "long int"], "short": ["short", "short int"]}
PRIM_SIZE = {"int": 4, "char": 1, "short": 2, "long": 8, "unsigned int": 4, "double": 8, "signed char": 1}
LENGTHS = [None, 0, 1, 2, 3, 255, 256, 257, 511, 512, 65535, 65536, 65537, 2 ** 31, 2 ** 32, 2 ** 32 + 1,
           2 ** 32 + 3, 2 ** 40 + 2]
ABIS = [2, 3, 4]
STRUCTS = {"sA": "struct sA { int a; };", "sB": "struct sB { char c[3]; };"}


# --------------------------------------------------------------------------
# descriptions: ("prim", name) ("void",) ("ptr", d) ("arr", d, len) ("func", res, (args), ell, abi) ("agg", serial)

def decay(d):
    return ("ptr", d[1]) if d[0] == "arr" else d


def sizeof(d):
    """bytes, None if unknown (void, open array)"""
    k = d[0]
    if k == "prim":
        return PRIM_SIZE[d[1]]
    if k in ("ptr", "func"):
        return 8
    if k == "agg":
        return 4
    if k == "arr":
        s = sizeof(d[1])
        return None if (s is None or d[2] is None) else s * d[2]
    return None


def cdecl(d, inner, structname):
    """C declarator syntax for description d around `inner`."""
    k = d[0]
    if k == "prim":
        return (d[1] + " " + inner).rstrip()
    if k == "void":
        return ("void " + inner).rstrip()
    if k == "agg":
        return ("struct %s %s" % (structname[d[1]], inner)).rstrip()
    if k == "ptr":
        t = d[1]
        if t[0] in ("arr",):
            return cdecl(t, "(*%s)" % inner, structname)
        return cdecl(t, "*" + inner, structname)
    if k == "arr":
        n = "" if d[2] is None else str(d[2])
        return cdecl(d[1], "%s[%s]" % (inner, n), structname)
    if k == "func":
        args = [cdecl(a, "", structname) for a in d[2]]
        if d[3]:
            args.append("...")
        if not args:
            args = ["void"]
        return cdecl(d[1], "(*%s)(%s)" % (inner, ", ".join(args)), structname)
    raise AssertionError(d)


def jd(d):
    return json.dumps(d)


class Ent(object):
    """registry entry of one ctype object the harness has seen"""
    __slots__ = ("desc", "wr", "oid", "a", "dead", "mrefs", "kids")


class Hist(object):
    def __init__(self, hseed, scratch, modnames):
        import cffi
        import _cffi_backend
        self.cffi = cffi
        self.b = _cffi_backend
        self.rng = random.Random(hseed)
        self.hseed = hseed
        self.scratch = scratch
        self.modnames = modnames
        self.by_id = {}            # id(obj) -> Ent (live ones only)
        self.by_desc = {}          # desc -> Ent (live, non-aggregate)
        self.addr = {}             # id value -> model address
        self.serial = 0
        self.slots = []            # (Ent, strong ref)
        self.lines = []
        self.expect = []
        self.fails = []
        self.counts = {}
        self.steps = []
        self.freed_descs = set()
        self.rebuilt = False
        self.fronts_of = {}        # desc -> set of front ends that produced it
        self.multi_front = False
        self.broken = None
        self.sources = {}
        self.pending_cb = []       # (desc of pointer type, child strong ref) to rebuild inside the next dealloc
        self.in_gc = False
        self.gc_batch = []
        self.recheck = []          # (desc, child, object rebuilt inside a deallocation): must stay the canonical one
        self.make_sources()

    # ---- front ends
    def make_source(self, name):
        if name.startswith("inline"):
            f = self.cffi.FFI()
            f.cdef("".join(STRUCTS.values()))
            return f
        if name.startswith("bare"):
            return self.b.FFI()
        modname = self.modnames[int(name[-1])]
        sys.modules.pop(modname, None)
        return importlib.import_module(modname).ffi

    def make_sources(self):
        for name in ("inline0", "inline1", "bare0", "bare1", "mod0", "mod1"):
            self.sources[name] = self.make_source(name)

    # ---- bookkeeping
    def count(self, k, n=1):
        self.counts[k] = self.counts.get(k, 0) + n

    def fail(self, detail, **kw):
        d = {"at": len(self.lines), "detail": detail}
        d.update(kw)
        self.fails.append(d)

    def emit(self, line, expect):
        self.lines.append(line)
        self.expect.append(expect)

    def maddr(self, obj):
        return self.addr.setdefault(id(obj), len(self.addr) + 1)

    def on_dead(self, ent):
        """weakref callback: runs inside PyObject_ClearWeakRefs of ctypedescr_dealloc"""
        ent.dead = True
        if self.in_gc:
            # the cycle collector clears the weak references of all unreachable objects first and calls the
            # callbacks in no particular order, before anything is deallocated: linearised afterwards
            self.gc_batch.append(ent)
            if self.by_id.get(ent.oid) is ent:
                del self.by_id[ent.oid]
            if self.by_desc.get(ent.desc) is ent:
                del self.by_desc[ent.desc]
            self.freed_descs.add(ent.desc)
            return
        if self.by_id.get(ent.oid) is ent:
            del self.by_id[ent.oid]
        if self.by_desc.get(ent.desc) is ent:
            del self.by_desc[ent.desc]
        self.freed_descs.add(ent.desc)
        for _ in range(ent.mrefs):
            self.emit("drop %d" % ent.a, "ok done")      # references held by FFI-level caches the model was told about
        ent.mrefs = 0
        self.emit("clearweak %d" % ent.a, "ok done")
        # rebuild the same type while its predecessor is half deallocated
        todo = [p for p in self.pending_cb if p[0] == ent.desc]
        for p in todo:
            self.pending_cb.remove(p)
            try:
                obj = self.b.new_pointer_type(p[1])
                e2 = self.note(obj, ent.desc, "callback", keep=True)
                self.slots.append((e2, obj))
                self.recheck.append((ent.desc, p[1], obj))
                self.count("event:rebuilt-in-dealloc-callback")
            except Exception as e:         # must not propagate out of a weakref callback
                self.broken = "rebuild inside the weakref callback raised %s" % type(e).__name__
        self.emit("finish %d" % ent.a, "ok done")
        self.count("event:dealloc")

    def shape_line(self, desc, kids):
        """model line of one construction; kids = model addresses of the argument objects"""
        k = desc[0]
        if k == "prim":
            return "build prim %d" % PRIMS.index(desc[1])
        if k == "void":
            return "build void"
        if k == "agg":
            return "build agg"
        if k == "ptr":
            return "build ptr %d" % kids[0]
        if k == "arr":
            return "build arr %d %s" % (kids[0], "-" if desc[2] is None else desc[2])
        return "build func %d %d %d%s" % (kids[0], 1 if desc[3] else 0, desc[4],
                                           "".join(" %d" % a for a in kids[1:]))

    def note(self, obj, desc, front, keep, kids=None):
        """An object of description `desc` was obtained (kids: model addresses of the constructor's arguments).
        Checks identity <=> description against the registry, registers, emits the model line."""
        a = self.maddr(obj)
        known = self.by_id.get(id(obj))
        if desc[0] != "agg":
            canon = self.by_desc.get(desc)
            if canon is not None and canon.wr() is not obj:
                self.fail("two live ctype objects describe the same type %s" % jd(desc), desc=desc)
            if known is not None and known.desc != desc:
                self.fail("one ctype object stands for two different types: %s and %s" % (jd(known.desc), jd(desc)),
                          desc=desc)
        elif known is not None and known.desc != desc:
            self.fail("aggregate object confused with another type", desc=desc)
        if known is None:
            ent = Ent()
            ent.desc, ent.oid, ent.a, ent.dead, ent.mrefs, ent.kids = desc, id(obj), a, False, 0, []
            ent.wr = weakref.ref(obj, lambda _r, self=self, ent=ent: self.on_dead(ent))
            self.by_id[id(obj)] = ent
            if desc[0] != "agg" and desc not in self.by_desc:
                self.by_desc[desc] = ent
            if desc in self.freed_descs:
                self.rebuilt = True
            expect = "ok new"
        else:
            ent = known
            expect = "ok hit"
        if kids is None:
            kids = self.kid_addrs(obj, desc)
        if known is None:
            # what the object itself refers to (function arguments of array type are stored decayed)
            ent.kids = list(kids) if desc[0] != "func" else self.kid_addrs(obj, desc)
        if desc[0] == "agg" and known is not None:
            pass          # seeing a struct again is not a construction
        else:
            self.emit("%s %d" % (self.shape_line(desc, kids), a), expect)
            ent.mrefs += 1
            if not keep:
                self.emit("drop %d" % a, "ok done")
                ent.mrefs -= 1
        fr = self.fronts_of.setdefault(desc, set())
        fr.add(front.rstrip("01"))
        if len(fr) > 1 and desc[0] not in ("prim", "void", "agg"):
            self.multi_front = True
        self.check_attrs(obj, desc)
        return ent

    def check_attrs(self, obj, desc):
        k = desc[0]
        kind = {"prim": "primitive", "void": "void", "ptr": "pointer", "arr": "array", "func": "function",
                "agg": "struct"}[k]
        if obj.kind != kind:
            self.fail("ctype for %s has kind %r" % (jd(desc), obj.kind), desc=desc)
            return
        if k == "prim" and obj.cname != desc[1]:
            self.fail("primitive %s has name %r" % (desc[1], obj.cname), desc=desc)
        if k == "arr" and obj.length != desc[2]:
            self.fail("array type for %s has length %r" % (jd(desc), obj.length), desc=desc)
        if k == "func" and (obj.ellipsis != desc[3] or obj.abi != desc[4] or len(obj.args) != len(desc[2])):
            self.fail("function type for %s has ellipsis=%r abi=%r nargs=%d"
                      % (jd(desc), obj.ellipsis, obj.abi, len(obj.args)), desc=desc)

    def kid_addrs(self, obj, desc):
        """Visit (and register, bottom-up) the ctype objects `obj` refers to; returns their model addresses."""
        k = desc[0]
        if k == "ptr":
            return [self.visit(obj.item, desc[1])]
        if k == "arr":
            item = obj.item
            self.visit(item, desc[1])
            p = self.b.new_pointer_type(item)        # the pointer type kept in ct_stuff (canonical)
            r = self.visit(p, ("ptr", desc[1]))
            del p
            return [r]
        if k == "func":
            res = [self.visit(obj.result, desc[1])]
            args = obj.args
            for ao, ad in zip(args, desc[2]):
                res.append(self.visit(ao, ad))
            return res
        return []

    def visit(self, obj, desc):
        ent = self.by_id.get(id(obj))
        if ent is not None and ent.desc == desc:
            return ent.a
        return self.note(obj, desc, "navigate", keep=False).a

    # ---- random descriptions
    def rand_desc(self, depth, agg_ok, void_ok=False, arr_ok=True):
        r = self.rng.random()
        if depth <= 0 or r < 0.22:
            if agg_ok and self.rng.random() < 0.25:
                return ("agg", self.rng.choice(["sA", "sB"]))      # placeholder, resolved per front end
            if void_ok and self.rng.random() < 0.3:
                return ("void",)
            return ("prim", self.rng.choice(PRIMS))
        if r < 0.55:
            return ("ptr", self.rand_desc(depth - 1, agg_ok, void_ok=True))
        if r < 0.8 and arr_ok:
            item = self.rand_desc(depth - 1, agg_ok, arr_ok=self.rng.random() < 0.4)
            isz = sizeof(item) if item[0] != "agg" else 4
            if isz is None:           # open array or void item: not a valid element type
                return ("ptr", item)
            lens = [n for n in LENGTHS if n is None or isz * n < 2 ** 62]
            return ("arr", item, self.rng.choice(lens))
        res = self.rand_desc(depth - 1, agg_ok, void_ok=True, arr_ok=False)
        args = tuple(decay(self.rand_desc(depth - 1, agg_ok)) for _ in range(self.rng.choice([0, 1, 1, 2, 3])))
        return ("func", res, args, bool(args) and self.rng.random() < 0.3, 2)

    # ---- constructions
    def resolve_aggs(self, d, front, ffi):
        """replace ("agg", name) placeholders by ("agg", serial) of the real struct object of this front end;
        returns (desc, {serial: name})"""
        names = {}

        def go(d):
            if d[0] == "agg":
                if ffi is None:
                    so = self.b.new_struct_type("c27_" + d[1])
                    self.b.complete_struct_or_union(so, [("a", self.b.new_primitive_type("int"), -1)])
                else:
                    so = ffi.typeof("struct " + d[1])
                ent = self.by_id.get(id(so))
                if ent is None:
                    self.serial += 1
                    ent = self.note(so, ("agg", self.serial), front, keep=False)
                names[ent.desc[1]] = d[1]
                self.keepalive.append(so)
                return ent.desc
            if d[0] == "ptr":
                return ("ptr", go(d[1]))
            if d[0] == "arr":
                return ("arr", go(d[1]), d[2])
            if d[0] == "func":
                return ("func", go(d[1]), tuple(go(a) for a in d[2]), d[3], d[4])
            return d
        return go(d), names

    def build_backend(self, d, top=True):
        """construct through direct backend calls; children reused from the registry or rebuilt"""
        b = self.b
        k = d[0]
        if not top:
            ent = self.by_desc.get(d) if k != "agg" else None
            if k == "agg":
                for e in list(self.by_id.values()):
                    if e.desc == d and e.wr() is not None:
                        return e.wr()
                raise LookupError("aggregate leaf is gone")
            if ent is not None and self.rng.random() < 0.6:
                o = ent.wr()
                if o is not None:
                    return o
        if k == "prim":
            obj, kids = b.new_primitive_type(d[1]), []
        elif k == "void":
            obj, kids = b.new_void_type(), []
        elif k == "ptr":
            c = self.build_backend(d[1], False)
            obj, kids = b.new_pointer_type(c), [self.by_id[id(c)].a]
        elif k == "arr":
            item = self.build_backend(d[1], False)
            p = self.build_backend(("ptr", d[1]), False)
            obj, kids = b.new_array_type(p, d[2]), [self.by_id[id(p)].a]
        elif k == "func":
            res = self.build_backend(d[1], False)
            # give some arguments as arrays: they decay
            given, gobjs = [], []
            for a in d[2]:
                if a[0] == "ptr" and sizeof(a[1]) is not None and self.rng.random() < 0.3:
                    given.append(("arr", a[1], self.rng.choice([3, 7])))
                else:
                    given.append(a)
                gobjs.append(self.build_backend(given[-1], False))
            abi = d[4]
            if d[3]:
                obj = b.new_function_type(tuple(gobjs), res, True)
            elif abi == 2 and self.rng.random() < 0.5:
                obj = b.new_function_type(tuple(gobjs), res, False)
            else:
                obj = b.new_function_type(tuple(gobjs), res, False, abi)
            kids = [self.by_id[id(res)].a] + [self.by_id[id(o)].a for o in gobjs]
        else:
            raise AssertionError(d)
        self.note(obj, d, "backend", keep=top, kids=kids)
        return obj

    def op_build(self):
        front = self.rng.choice(["backend", "backend", "inline0", "inline1", "bare0", "bare1", "mod0", "mod1"])
        self.keepalive = []
        agg_ok = not front.startswith("bare")
        d = self.rand_desc(self.rng.choice([1, 2, 2, 3, 4]), agg_ok)
        # prefer descriptions seen before (collisions are the point)
        if self.by_desc and self.rng.random() < 0.45:
            cands = [x for x in sorted(self.by_desc, key=jd)
                     if agg_ok or "agg" not in jd(x)]
            cands = [x for x in cands if front == "backend" or not (self.has_agg(x) or self.other_abi(x))]
            if cands:
                d = self.rng.choice(cands)
        if front == "backend":
            if d[0] == "func" and not d[3]:
                d = d[:4] + (self.rng.choice(ABIS),)
            d, _ = self.resolve_aggs(d, front, None) if self.has_placeholder(d) else (d, {})
            if d[0] == "agg":
                return False
            try:
                obj = self.build_backend(d)
            except LookupError:
                return False
        else:
            ffi = self.sources[front]
            d, names = self.resolve_aggs(d, front, ffi) if self.has_placeholder(d) else (d, {})
            if d[0] == "agg":
                return False
            s = cdecl(self.spell(d), "", names)
            obj = ffi.typeof(s)
            self.note(obj, d, front, keep=True)
            self.count("typeof:" + front.rstrip("01"))
        self.slots.append((self.by_id[id(obj)], obj))
        del self.keepalive
        self.count("kind:" + d[0])
        if d[0] == "arr" and d[2] is not None and d[2] > 255:
            self.count("array-length>255")
        return True

    def has_placeholder(self, d):
        return '"agg", "s' in jd(d)

    def other_abi(self, d):
        """contains a function type with a non-default ABI (cannot be written as a type string)"""
        if d[0] == "func":
            return d[4] != 2 or self.other_abi(d[1]) or any(self.other_abi(a) for a in d[2])
        if d[0] in ("ptr", "arr"):
            return self.other_abi(d[1])
        return False

    def has_agg(self, d):
        return '"agg"' in jd(d)

    def spell(self, d):
        if d[0] == "prim" and d[1] in SPELL:
            return ("prim", self.rng.choice(SPELL[d[1]]))
        if d[0] == "ptr":
            return ("ptr", self.spell(d[1]))
        if d[0] == "arr":
            return ("arr", self.spell(d[1]), d[2])
        if d[0] == "func":
            return ("func", self.spell(d[1]), tuple(self.spell(a) for a in d[2]), d[3], d[4])
        return d

    def op_drop(self):
        if not self.slots:
            return False
        i = self.rng.randrange(len(self.slots))
        ent, _ = self.slots.pop(i)
        self.emit("drop %d" % ent.a, "ok done")
        ent.mrefs -= 1
        return True

    def op_drop_source(self):
        name = self.rng.choice(sorted(self.sources))
        self.sources[name] = None
        self.sources[name] = self.make_source(name)
        return True

    def collect(self):
        self.in_gc = True
        try:
            gc.collect()
        finally:
            self.in_gc = False
        batch, self.gc_batch = self.gc_batch, []
        if batch:
            self.count("event:dealloc-by-cycle-collector", len(batch))
        # parents before children
        while batch:
            held = set()
            for e in batch:
                held.update(e.kids)
            ready = [e for e in batch if e.a not in held] or batch[:1]
            for e in ready:
                batch.remove(e)
                for _ in range(e.mrefs):
                    self.emit("drop %d" % e.a, "ok done")
                e.mrefs = 0
                self.emit("clearweak %d" % e.a, "ok done")
                self.emit("finish %d" % e.a, "ok done")
                self.count("event:dealloc")

    def op_collect(self):
        self.collect()
        return True

    def op_rebuild_twice(self):
        """a description whose object was freed: two rebuilds must give the same object"""
        cands = [d for d in sorted(self.freed_descs, key=jd)
                 if d not in self.by_desc and d[0] in ("ptr", "arr", "func") and not self.has_agg(d)]
        if not cands:
            return False
        d = self.rng.choice(cands)
        self.keepalive = []
        o1 = self.build_backend(d)
        o2 = self.build_backend(d)
        if o1 is not o2:
            self.fail("a type rebuilt twice after its previous ctype was freed gave two objects: %s" % jd(d), desc=d)
        self.slots.append((self.by_id[id(o1)], o1))
        self.slots.append((self.by_id[id(o2)], o2))
        del self.keepalive
        return True

    def op_arm_callback(self):
        """arrange that a pointer type is rebuilt from the weakref callback of its own deallocation"""
        c = [(e, o) for e, o in self.slots if e.desc[0] == "ptr" and not self.has_agg(e.desc) and e.mrefs == 1
             and not any(p[0] == e.desc for p in self.pending_cb)]
        if not c:
            return False
        e, o = self.rng.choice(c)
        self.pending_cb.append((e.desc, o.item))
        return True

    def op_reject(self):
        b = self.b
        i = b.new_primitive_type("int")
        self.keepalive = []
        self.note(i, ("prim", "int"), "backend", keep=False, kids=[])
        pi = b.new_pointer_type(i)
        self.note(pi, ("ptr", ("prim", "int")), "backend", keep=False, kids=[self.by_id[id(i)].a])
        ai, api = self.by_id[id(i)].a, self.by_id[id(pi)].a
        k = self.rng.randrange(6)
        na = len(self.addr) + 1000          # an address index nobody has
        try:
            if k == 0:
                line, want = "build arr %d 3 %d" % (ai, na), TypeError
                b.new_array_type(i, 3)
            elif k == 1:
                v = b.new_void_type()
                self.note(v, ("void",), "backend", keep=False, kids=[])
                pv = b.new_pointer_type(v)
                self.note(pv, ("ptr", ("void",)), "backend", keep=False, kids=[self.by_id[id(v)].a])
                line, want = "build arr %d 3 %d" % (self.by_id[id(pv)].a, na), ValueError
                b.new_array_type(pv, 3)
            elif k == 2:
                a0 = b.new_array_type(pi, None)
                self.note(a0, ("arr", ("prim", "int"), None), "backend", keep=False, kids=[api])
                pa0 = b.new_pointer_type(a0)
                self.note(pa0, ("ptr", ("arr", ("prim", "int"), None)), "backend", keep=False,
                          kids=[self.by_id[id(a0)].a])
                line, want = "build arr %d 3 %d" % (self.by_id[id(pa0)].a, na), ValueError
                b.new_array_type(pa0, 3)
            elif k == 3:
                line, want = "build arr %d %d %d" % (api, 2 ** 63, na), OverflowError
                b.new_array_type(pi, 2 ** 63)
            elif k == 4:
                a3 = b.new_array_type(pi, 3)
                self.note(a3, ("arr", ("prim", "int"), 3), "backend", keep=False, kids=[api])
                line, want = "build func %d 0 2 %d %d" % (self.by_id[id(a3)].a, ai, na), TypeError
                b.new_function_type((i,), a3, False)
            else:
                v = b.new_void_type()
                self.note(v, ("void",), "backend", keep=False, kids=[])
                line, want = "build func %d 0 2 %d %d" % (ai, self.by_id[id(v)].a, na), TypeError
                b.new_function_type((v,), i, False)
            got = None
        except (TypeError, ValueError, OverflowError) as e:
            got = type(e)
        self.emit(line, "err " + (got.__name__ if got else "none"))
        self.count("reject:" + (got.__name__ if got else "none"))
        del self.keepalive
        return True

    def do_rechecks(self):
        """the deallocation during which a type was rebuilt is over: the rebuilt object must still be found"""
        todo, self.recheck = self.recheck, []
        for desc, child, obj in todo:
            again = self.b.new_pointer_type(child)
            self.note(again, desc, "backend", keep=False, kids=[self.visit(child, desc[1])])
            if again is not obj:
                self.fail("the type rebuilt during its predecessor's deallocation is no longer the canonical one: %s"
                          % jd(desc), desc=desc)
            self.count("event:recheck-after-dealloc")

    def check_registry(self):
        """identity <=> description over everything alive that the harness knows"""
        seen = {}
        for ent in self.by_id.values():
            if ent.desc[0] == "agg":
                continue
            o = ent.wr()
            if o is None:
                continue
            other = seen.setdefault(ent.desc, ent)
            if other is not ent:
                self.fail("two live ctype objects describe the same type %s" % jd(ent.desc), desc=ent.desc)
        for ent, o in self.slots:
            if ent.dead or ent.wr() is not o:
                self.fail("a ctype object the program holds was deallocated or replaced", desc=ent.desc)

    WEIGHTS = [("build", 50), ("drop", 22), ("drop_source", 5), ("collect", 8), ("rebuild_twice", 8),
               ("arm_callback", 5), ("reject", 3)]

    def run(self):
        nsteps = self.rng.randint(20, 60)
        names = [n for n, _ in self.WEIGHTS]
        weights = [w for _, w in self.WEIGHTS]
        was = gc.isenabled()
        gc.disable()
        try:
            gc.collect()
            self.emit("reset", "ok")
            done = tries = 0
            while done < nsteps and tries < 10 * nsteps and not self.broken:
                tries += 1
                name = self.rng.choices(names, weights)[0]
                try:
                    ok = getattr(self, "op_" + name)()
                except Exception as e:
                    self.broken = "step %s raised %s: %s" % (name, type(e).__name__, e)
                    break
                if ok is False:
                    continue
                done += 1
                self.steps.append(name)
                self.count("op:" + name)
                if self.recheck:
                    try:
                        self.do_rechecks()
                    except Exception as e:
                        self.broken = "recheck raised %s: %s" % (type(e).__name__, e)
                        break
                self.check_registry()
            while self.slots:
                ent, _ = self.slots.pop()
                self.emit("drop %d" % ent.a, "ok done")
                ent.mrefs -= 1
            for name in sorted(self.sources):
                self.sources[name] = None
            for m in self.modnames:
                sys.modules.pop(m, None)
            self.collect()
            self.collect()
        finally:
            if was:
                gc.enable()
        return {"hseed": self.hseed, "lines": self.lines, "expect": self.expect, "fails": self.fails,
                "counts": self.counts, "steps": self.steps, "broken": self.broken,
                "nontrivial": self.rebuilt and self.multi_front}


# --------------------------------------------------------------------------
# out-of-line modules (written once per run into the scratch directory)

def _quiet(fn):
    so = os.dup(1)
    devnull = os.open(os.devnull, os.O_WRONLY)
    sys.stdout.flush()
    os.dup2(devnull, 1)
    try:
        return fn()
    finally:
        sys.stdout.flush()
        os.dup2(so, 1)
        os.close(devnull)
        os.close(so)


def make_modules(ctx):
    import cffi
    names = []
    for k in range(2):
        modname = "_c27_mod_%d_%d" % (ctx.seed, k)
        path = os.path.join(ctx.scratch, modname + ".py")
        if not os.path.exists(path):
            ffi = cffi.FFI()
            ffi.cdef("".join(STRUCTS.values()) + "typedef int c27_int_t; int c27_f(int, char *);")
            ffi.set_source(modname, None)
            _quiet(lambda: ffi.emit_python_code(path))
        names.append(modname)
    if ctx.scratch not in sys.path:
        sys.path.insert(0, ctx.scratch)
    return names


def run_history(hseed, scratch, modnames):
    return Hist(hseed, scratch, modnames).run()


def in_child(jobs, scratch, modnames):
    r, w = os.pipe()
    sys.stdout.flush()
    sys.stderr.flush()
    pid = os.fork()
    if pid == 0:
        code = 0
        try:
            os.close(r)
            with os.fdopen(w, "w") as out:
                for hseed in jobs:
                    res = run_history(hseed, scratch, modnames)
                    out.write(json.dumps(res) + "\n")
                    out.flush()
        except BaseException:
            import traceback
            traceback.print_exc()
            code = 3
        finally:
            os._exit(code)
    os.close(w)
    results = []
    with os.fdopen(r) as inp:
        for line in inp:
            if line.endswith("\n"):
                results.append(json.loads(line))
    _, status = os.waitpid(pid, 0)
    if os.WIFSIGNALED(status):
        return results, "interpreter killed by signal %d" % os.WTERMSIG(status)
    if os.WEXITSTATUS(status) == 3:
        raise InfraError("history runner raised an exception (see stderr)")
    if os.WEXITSTATUS(status) != 0:
        return results, "interpreter exited with status %d" % os.WEXITSTATUS(status)
    return results, None


def case_of(res, extra=None):
    c = {"hseed": res["hseed"], "steps": res.get("steps", []), "trace": res.get("lines", [])}
    if extra:
        c.update(extra)
    return c


def run_all(ctx, jobs, model=True):
    modnames = make_modules(ctx)
    results, crash = in_child(jobs, ctx.scratch, modnames)
    if crash is not None:
        job = jobs[len(results)]
        _, crash1 = in_child([job], ctx.scratch, modnames)
        ctx.fail({"hseed": job, "crash": True}, "%s while running this history" % (crash1 or crash))
        rest = jobs[len(results) + 1:]
        if rest:
            more, _ = in_child(rest, ctx.scratch, modnames)
            results += more
    lines, expect, owner = [], [], []
    for res in results:
        ctx.case(tuple(res["steps"]) if res["nontrivial"] else None,
                 sample={"hseed": res["hseed"], "steps": res["steps"][:12]})
        ctx.evaluations += len(res["lines"]) - 1
        for k, v in res["counts"].items():
            ctx.count(k, v)
        for f in res["fails"]:
            ctx.fail(case_of(res, {"at": f["at"], "desc": f.get("desc")}), f["detail"])
        if res.get("broken"):
            ctx.disagree(case_of(res), res["broken"], "accepted by the model", "the implementation raised")
            ctx.count("history:broken")
        for l, e in zip(res["lines"], res["expect"]):
            lines.append(l)
            expect.append(e)
            owner.append(res)
    if not model:
        return results
    out = ctx.driver(lines)
    bad = set()
    for i, (o, e) in enumerate(zip(out, expect)):
        if o != e and id(owner[i]) not in bad:
            bad.add(id(owner[i]))
            ctx.disagree(case_of(owner[i]), e, o, "operation %r: implementation %r, model %r" % (lines[i], e, o))
    return results


def jobs_for(ctx, n, tag):
    return ["C27/%d/%s/%d" % (ctx.seed, tag, i) for i in range(n)]


def correspond(ctx):
    run_all(ctx, jobs_for(ctx, ctx.n(150, 1500), "c"))


def search(ctx):
    run_all(ctx, jobs_for(ctx, ctx.n(1000, 6000), "s"), model=False)


def replay(ctx, obj):
    case = obj["case"]
    modnames = make_modules(ctx)
    results, crash = in_child([case["hseed"]], ctx.scratch, modnames)
    if crash:
        print("history %s: %s" % (case["hseed"], crash))
        return 1
    res = results[0]
    for l in res["lines"]:
        print(l)
    for f in res["fails"]:
        print("FAIL at line %d: %s" % (f["at"], f["detail"]))
    return 1 if res["fails"] else 0
