"""C31 -- comments, spacing and line directives do not change a cdef's meaning (partial).

Theorems (lean/CffiVerif/Props/C31.lean) over the model of the comment / #define stage of
`cparser._preprocess` (lean/CffiVerif/Model/Preprocess.lean): block_comment_is_space,
line_comment_is_space, line_comment_at_eof_is_space, unclosed_block_is_text,
no_slash_untouched, define_value_unchanged_by_inline_comment_partial,
define_value_continuation, multiline_comment_in_define_breaks_value (finding witness); comment_regex_shape,
define_regex_shape, comment_classes, define_classes, rawValue_is_regex_loop, lineOk_is_regex_loop tie the
transducer to the regular expressions compiled from the source.

Tie to the code:
  0. translate/c31_regex.py re-reads `_r_comment`, `_r_define`, `_r_line_directive` from cparser.py on every
     run, parses them with Python's own `re._parser` and compiles them into NFA tables and into the
     shape of the transducer (Generated/PreprocessRegex.lean); the shape / class-meaning theorems are
     re-checked against that, and the driver runs the tables (`nfa-strip`, `nfa-defines`, `nfa-linedir`);
  A. the real `_r_comment` substitution, the real `_preprocess` (source text and macros
     dict), `_r_define.finditer` groups and `_r_line_directive` spans against the model driver
     (hand-written transducer and compiled automata) on random texts over an alphabet of comment
     openers / closers, backslashes, newlines and `#define` / `#line` shapes;
  B. property oracle on the real implementation (no model involved): random valid cdefs
     (functions, structs, unions, enums, typedefs, globals, #define constants) are decorated
     with comments, white space, continuations and line directives between their tokens; the
     decorated cdef must give the same declarations, constants, struct layouts, enum values
     and byte-identical emit_python_code()/emit_c_code() text as the plain one.
"""
import io
import re
import warnings

import common
from common import InfraError

MANIFEST = {
    "text": "Kernel-checked theorems that, in the model of cparser's comment/#define pre-processing (the two "
            "alternatives of _r_comment as a transducer with their look-aheads, _r_define's value capture, "
            "continuation removal and strip), a comment inserted outside comments becomes exactly one space plus "
            "the newlines it contained and leaves the rest of the text alone, an unterminated /* stays text, and "
            "a #define value is unchanged by a one-line comment before/after it and by backslash-newline; the model "
            "is tied to the code by recompiling _r_comment/_r_define/_r_line_directive from cparser.py on every run (Python's own "
            "re parser -> NFA tables + the shape of the transducer): kernel-checked theorems pin the shape, the meaning of "
            "every character class and identify the model's scanners with the regex's unit loop; the compiled automata, the "
            "real regex substitution and _preprocess are run against the model on random texts, "
            "and the property itself is tested on the real parser: random valid cdefs decorated with comments, "
            "white space, continuations and line directives must yield identical declarations, layouts, constants "
            "and generated source.",
    "note": "Partial: token-level white-space insensitivity is pycparser's (checked by running, not proved); the "
            "line-directive stash, the rewriting stages after #define extraction and the text removed by "
            "_r_define.sub are not modelled; #define matching is modelled for ASCII text only; white space is "
            "space/tab/newline (pycparser rejects \\r, \\f, \\v). Trusted: Lean kernel, Python's re engine as "
            "validated by the correspondence, the harness.",
    "technique": "Lean 4 proof (induction over the text, transducer with look-ahead) + differential correspondence "
                 "with the real regex/_preprocess + metamorphic testing of the real parser and generator",
}

RULE = ("A: random texts of 0..40 pieces drawn from '/', '*', '//', '/*', '*/', backslash, backslash-newline, "
        "newline, blanks, identifiers, numbers, '#define' shapes, rare non-ASCII; non-trivial = contains a comment "
        "opener; distinct = distinct texts.  B: cdefs of 2..7 declarations (struct/union with arrays, pointers, "
        "bitfields; enums; typedefs incl. function pointers and common-type names; functions; globals; #define "
        "integer constants) given as token lists; each variant inserts at random token boundaries: blanks/tabs/"
        "newlines, /* */ comments (bodies with newlines, '//', '/*', '#define', quotes, non-ASCII, code-looking "
        "text), // comments (with backslash-newline continuations hiding code-looking text), '# N \"file\"' / "
        "'#line N \"file\"' lines; inside #define lines only blanks, one-line comments and backslash-newline after "
        "the name; non-trivial = at least one comment/continuation/directive inserted; distinct = distinct variant texts")

ASSUMPTIONS = ["white space inserted between tokens is space, tab or newline (pycparser's lexer rejects \\r, \\f, \\v)",
               "a // comment is terminated by a newline (a backslash as the very last character of a cdef is not generated)",
               "line directives are generated on lines of their own, not inside comments and not inside #define lines"]

_R_DIRECTIVE_TYPEDEF = re.compile(r'^[ \t]*#[ \t]*(?:line[ \t]+)?\d+[ \t]+"[^"\n]*\btypedef\b', re.M)

CLASSES = {
    # a line directive whose file name contains the word `typedef` derails _common_type_names
    "C31/line-directive-filename-typedef": lambda case: bool(_R_DIRECTIVE_TYPEDEF.search(case.get("variant", ""))),
    "C31/multiline-comment-in-define": lambda case: "multiline-comment-in-define" in case.get("tags", ()),
    "C31/continuation-before-macro-name": lambda case: "continuation-before-macro-name" in case.get("tags", ()),
    "C31/comment-on-line-directive-line": lambda case: "comment-on-line-directive-line" in case.get("tags", ()),
}

WITNESSES = {
    "C31/line-directive-filename-typedef": ('int f(\n# 1 "x.h"\nuint8_t, int);', 'int f(\n# 1 "typedef.h"\nuint8_t, int);'),
    "C31/multiline-comment-in-define": ("#define FOO 5\n", "#define FOO /* a \n b */ 5\n"),
    "C31/continuation-before-macro-name": ("#define FOO 5\n", "#define \\\n FOO 5\n"),
    "C31/comment-on-line-directive-line": ("# 5 \"f\"\nint a;", "/* c */ # 5 \"f\"\nint a;"),
}


def translators(ctx):
    import os
    import sys
    sys.path.insert(0, os.path.join(common.VERIF, "translate"))
    import c31_regex
    return [c31_regex.run]


def known_or_fail(ctx, case, detail):
    """The property fails at `case`; ctx.fail matches it against the classes listed in KNOWN_FINDINGS.jsonl."""
    r = ctx.fail(case, detail)
    if r == "known":
        for cls, pred in CLASSES.items():
            if pred(case):
                ctx.count("known:" + cls)
                break
    return r


def enc(text):
    return ",".join(str(ord(c)) for c in text) or "-"


def dec(word):
    return "" if word == "-" else "".join(chr(int(x)) for x in word.split(","))


# ------------------------------------------------------------------ part A

PIECES = ["/", "*", "//", "/*", "*/", "\\", "\\\n", "\n", "\n", " ", " ", "\t", "a", "b_1", "5", "0x1F", ";",
          "#define ", "#define FOO", "# define\tB", "#defined X", "#undef Q", "\n#define K2 7", " #\tdefine  Z9  -3 ",
          "#define 9x", "#define", "\x0c", "\x1c", "\r", "-", "int x", "**/", "/**/", "//\\\n", "\\\\", "\\a"]
RARE = ["\u00e9", "\u00a0", "\u2028", "\U0001F600", "\ud800", "\x85"]
LD_PIECES = ["#", "# ", "#line", "line", " 5", "12", "\n", "\n", " ", "\t", "x", "#line 7 \"f.h\"", "# 3 \"a b\"",
             "lines", "#  line\t9", "5x", "_", "\r", "#define A 1", "\n# 77", "\n#line", "/* c */", "# -1", "#\t\t4 "]
TRIGGERS = re.compile(r'\.\.\.|"|__stdcall|WINAPI|__cdecl|extern|\[')


def gen_text(rng):
    n = rng.randint(0, 40) if rng.random() < 0.9 else rng.randint(0, 4)
    pieces = PIECES if rng.random() < 0.65 else [p for p in PIECES if "#" not in p]
    out = []
    for _ in range(n):
        out.append(rng.choice(RARE) if rng.random() < 0.03 else rng.choice(pieces))
    return "".join(out)


def part_a(ctx, ntexts, nnfa):
    from cffi import cparser
    lines, expect = [], []

    def repl(m):
        return " " + m.group().count("\n") * "\n"

    seen = set()
    fixed = ["", "/", "/*", "/*/", "/**/", "//", "//\\", "//\\\n", "// a\\\nb\nc", "/* // */ x", "// /* \n */",
             "//*x*/\\", "/* x", "a//b\\\\\nc", "#define A 1\\", "#define A 1\\\n", "  \n\n #define A /* x */ 1 // y\n",
             "#define A 1\n#define A 2\n#define B\n", "x #define A 1\n", "#define A\\\n B\\\n 3\nint y;"]
    for i in range(ntexts + len(fixed)):
        text = fixed[i] if i < len(fixed) else gen_text(ctx.rng)
        if text in seen:
            continue
        seen.add(text)
        if re.search(r"^[ \t]*#[ \t]*(?:line|\d+)\b", text, re.M):
            continue                      # would be stashed away as a line directive first
        case = {"part": "A", "text": text}
        has_comment = "/*" in text or "//" in text
        ctx.case(text if has_comment else None, sample=case)
        stripped = cparser._r_comment.sub(repl, text)
        lines.append("strip " + enc(text))
        expect.append(("strip", case, stripped))
        ctx.count("A:strip")
        nfa = i < len(fixed) + nnfa            # the (interpreted) automata are slower: a prefix of the texts
        if nfa:
            lines.append("nfa-strip " + enc(text))
            expect.append(("strip", case, stripped))          # the automaton compiled from the source's regex
            ctx.count("A:nfa-strip")
        if nfa and all(ord(c) < 128 for c in stripped):
            lines.append("nfa-defines " + enc(stripped))
            expect.append(("nfa-defines", case, [list(m.groups()) for m in cparser._r_define.finditer(stripped)]))
            ctx.count("A:nfa-defines")
        if "#" not in text and not TRIGGERS.search(text):
            # no other stage of _preprocess applies: its output must be the stripped text
            with warnings.catch_warnings():
                warnings.simplefilter("ignore")
                src, macros = cparser._preprocess(text)
            if src != stripped or macros:
                ctx.disagree(case, [src, macros], stripped, "_preprocess vs the bare regex substitution")
            ctx.count("A:preprocess-source")
        if all(ord(c) < 128 for c in stripped) and not TRIGGERS.search(text):
            with warnings.catch_warnings():
                warnings.simplefilter("ignore")
                macros = cparser._preprocess(text)[1]
            lines.append("macros " + enc(text))
            expect.append(("macros", case, list(macros.items())))
            ctx.count("A:macros" if macros else "A:macros-none")
    for _ in range(nnfa // 2):
        text = "".join(ctx.rng.choice(LD_PIECES) for _ in range(ctx.rng.randint(0, 12)))
        case = {"part": "A", "text": text, "regex": "_r_line_directive"}
        ctx.case(text if "#" in text else None)
        ctx.count("A:nfa-linedir")
        lines.append("nfa-linedir " + enc(text))
        expect.append(("nfa-linedir", case, [[m.start(), m.end()] for m in cparser._r_line_directive.finditer(text)]))
    out = ctx.driver(lines)
    for o, (kind, case, impl) in zip(out, expect):
        if kind == "nfa-defines":
            got = None
            if o.startswith("ok"):
                got = [[dec(x) for x in w.split("=")] for w in o.split(" ")[1:]]
            if got != impl:
                ctx.disagree(case, impl, o[:200], "_r_define.finditer groups: re vs the automaton compiled from the pattern")
        elif kind == "nfa-linedir":
            got = None
            if o.startswith("ok"):
                got = [[int(x) for x in w.split(":")] for w in o.split(" ")[1:]]
            if got != impl:
                ctx.disagree(case, impl, o[:200], "_r_line_directive spans: re vs the automaton compiled from the pattern")
        elif kind == "strip":
            if not o.startswith("ok ") or dec(o[3:]) != impl:
                ctx.disagree(case, impl, o, "comment stripping: real regex vs model")
        else:
            if not o.startswith("ok"):
                ctx.disagree(case, impl, o, "macros: model refused")
                continue
            d = {}
            for w in o.split(" ")[1:]:
                n, v = w.split("=")
                d[dec(n)] = dec(v)          # dict semantics: first position, last value
            if list(d.items()) != impl:
                ctx.disagree(case, impl, list(d.items()), "macros dict: _preprocess vs model")


# ------------------------------------------------------------------ part B: generator of valid cdefs

PRIMS = ["int", "unsigned int", "long", "short", "char", "unsigned char", "long long", "double", "float",
         "unsigned long", "signed char", "size_t", "uint8_t", "int32_t", "uint64_t", "unsigned short", "_Bool"]
INTS = ["int", "unsigned int", "long", "short", "unsigned char", "long long", "unsigned long", "unsigned short"]


class Gen:
    def __init__(self, rng):
        self.rng = rng
        self.n = 0
        self.structs = []      # complete struct/union "struct sN"
        self.typedefs = []     # typedef names of complete object types
        self.scalar_typedefs = []   # ... that may be returned / passed by value
        self.items = []

    def name(self, p):
        self.n += 1
        return "%s%d" % (p, self.n)

    def objtype(self):
        """tokens of a complete object type"""
        r = self.rng.random()
        if r < 0.15 and self.structs:
            return self.rng.choice(self.structs).split()
        if r < 0.3 and self.typedefs:
            return [self.rng.choice(self.typedefs)]
        return self.rng.choice(PRIMS).split()

    def valtype(self):
        """tokens of a type usable as a return / parameter type (no arrays)"""
        r = self.rng.random()
        if r < 0.15 and self.structs:
            return self.rng.choice(self.structs).split()
        if r < 0.3 and self.scalar_typedefs:
            return [self.rng.choice(self.scalar_typedefs)]
        return self.rng.choice(PRIMS).split()

    def field(self):
        rng = self.rng
        nm = self.name("m")
        r = rng.random()
        if r < 0.15:
            return rng.choice(INTS).split() + [nm, ":", str(rng.randint(1, 7)), ";"]
        t = self.objtype()
        if r < 0.35:
            return t + ["*"] * rng.randint(1, 2) + [nm, ";"]
        if r < 0.5:
            return t + [nm, "[", str(rng.randint(1, 5)), "]", ";"]
        if r < 0.55:
            return ["const"] + t + ["*", "const", nm, ";"]
        return t + [nm, ";"]

    def item(self):
        rng = self.rng
        k = rng.choice(["struct", "struct", "union", "enum", "typedef", "typedef", "func", "func", "global",
                        "define", "define"])
        if k in ("struct", "union"):
            tag = "%s %s" % (k, self.name("s"))
            toks = tag.split() + ["{"]
            for _ in range(rng.randint(1, 4)):
                toks += self.field()
            toks += ["}", ";"]
            self.structs.append(tag)
            return {"kind": k, "tokens": toks}
        if k == "enum":
            toks = ["enum", self.name("e"), "{"]
            n = rng.randint(1, 4)
            for i in range(n):
                toks.append(self.name("EV"))
                if rng.random() < 0.5:
                    toks += ["=", rng.choice(["5", "-2", "0x10", "07", "100", "0"])]
                if i < n - 1:
                    toks.append(",")
            toks += ["}", ";"]
            return {"kind": k, "tokens": toks}
        if k == "typedef":
            r = rng.random()
            if r < 0.15:
                nm = rng.choice(["uint16_t", "ssize_t", "intptr_t", "bool"])     # names _common_type_names looks at (never used before)
                if nm in self.typedefs:
                    nm = self.name("t")
                toks = ["typedef"] + rng.choice(["unsigned char", "int", "unsigned long"]).split() + [nm, ";"]
                self.typedefs.append(nm)
                self.scalar_typedefs.append(nm)
                return {"kind": k, "tokens": toks}
            nm = self.name("t")
            if r < 0.4:
                toks = ["typedef"] + self.valtype() + [nm, ";"]
                self.typedefs.append(nm)
                self.scalar_typedefs.append(nm)
            elif r < 0.55:
                toks = ["typedef"] + self.objtype() + ["*", nm, ";"]
                self.typedefs.append(nm)
                self.scalar_typedefs.append(nm)
            elif r < 0.7:
                toks = ["typedef"] + self.objtype() + [nm, "[", str(rng.randint(1, 4)), "]", ";"]
                self.typedefs.append(nm)
            elif r < 0.85:
                toks = ["typedef", "int", "(", "*", nm, ")", "("] + self.args() + [")", ";"]
                self.typedefs.append(nm)
                self.scalar_typedefs.append(nm)
            else:
                toks = ["typedef", "struct", self.name("opq"), nm, ";"]      # incomplete: pointer use only
            return {"kind": k, "tokens": toks}
        if k == "func":
            ret = rng.choice([["void"], self.valtype(), self.objtype() + ["*"]])
            return {"kind": k, "tokens": ret + [self.name("f"), "("] + self.args(True) + [")", ";"]}
        if k == "global":
            return {"kind": k, "tokens": ["extern"] + self.objtype() + [self.name("g"), ";"]}
        val = rng.choice(["42", "0x1F", "-3", "010", "0", "1000000", "0xFFFFFFFFu", "7L"])
        return {"kind": "define", "tokens": ["#", "define", self.name("K"), val]}

    def args(self, allow_void=False):
        rng = self.rng
        if allow_void and rng.random() < 0.2:
            return ["void"]
        toks = []
        n = rng.randint(1, 3)
        for i in range(n):
            t = self.valtype()
            if rng.random() < 0.3:
                t = self.objtype() + ["*"]
            if rng.random() < 0.4:
                t = t + [self.name("a")]
            toks += t
            if i < n - 1:
                toks.append(",")
        if rng.random() < 0.15:
            toks += [",", "..."]
        return toks


def gen_items(rng):
    g = Gen(rng)
    return [g.item() for _ in range(rng.randint(2, 7))]


def render_plain(items):
    return "".join(" ".join(it["tokens"]) + "\n" for it in items)


# -- gaps

BODY = [" ", " ", "a", "xyz", "*", "/", "//", "/*", "\n", "\n", "#define Z 9", "\\", "é", "int q;", "'", '"',
        "struct {", "}", ";", "\t", "**", "\\\n", "TODO:", "5", "extern \"Python\"", "...", "__stdcall"]


def block_comment(rng, allow_nl=True):
    body = "".join(rng.choice(BODY) for _ in range(rng.randint(0, 6)))
    if not allow_nl:
        body = body.replace("\n", " ")
    while "*/" in body:
        body = body.replace("*/", "* /")
    body = re.sub(r"(?m)^([ \t]*)#(?!define)", r"\1", body)      # no line-directive look-alikes inside comments
    return "/*" + body + "*/"


def line_seg(rng):
    s = "".join(rng.choice(BODY) for _ in range(rng.randint(0, 4))).replace("\n", " ")
    s = s.rstrip("\\")
    while s.endswith("\\ ") or s.endswith("\\\t"):
        s = s.rstrip(" \t").rstrip("\\")
    return s


def line_comment(rng, allow_cont=True):
    out = "//" + line_seg(rng)
    tags = False
    while allow_cont and rng.random() < 0.3:
        # the continuation line is still comment; make it look like a declaration
        out += "\\\n" + rng.choice(["int hidden_%d;" % rng.randint(1, 9), " long z;", line_seg(rng), "*/ int w;", ""])
        out = out.rstrip("\\")
        tags = True
    return out + "\n", tags


def line_directive(rng):
    fn = rng.choice(["file.h", "a b.h", "x;y", "typedefs.h", "size_t.h", "a,b(", "uint8_t", "/* c */", "// d", "", "<built-in>"])
    if rng.random() < 0.02:
        fn = "my-typedef.h"          # known finding class C31/line-directive-filename-typedef
    n = rng.randint(1, 9999)
    form = rng.choice(['# %d "%s"', '#line %d "%s"', ' \t# \t%d "%s"', '#  line %d "%s"', '# %d "%s" 1 3'])
    return "\n" + form % (n, fn) + "\n"


def gap(rng, stats, allow_directive=True):
    """white space / comments / directives between two tokens of an ordinary declaration"""
    out = []
    for _ in range(rng.randint(1, 3)):
        r = rng.random()
        if r < 0.35:
            out.append("".join(rng.choice(" \t\n") for _ in range(rng.randint(1, 3))))
            stats.add("ws")
        elif r < 0.65:
            out.append(block_comment(rng))
            stats.add("block")
        elif r < 0.9:
            c, cont = line_comment(rng)
            out.append(c)
            stats.add("line-cont" if cont else "line")
        elif allow_directive:
            out.append(line_directive(rng))
            stats.add("directive")
        else:
            out.append(" ")
    return "".join(out)


def inline_gap(rng, stats, nonempty, allow_cont=False):
    """inside a #define line: blanks, one-line comments, (after the name) backslash-newline"""
    out = []
    for _ in range(rng.randint(1 if nonempty else 0, 3)):
        r = rng.random()
        if r < 0.5:
            out.append(rng.choice([" ", "\t", "  "]))
        elif r < 0.85 or not allow_cont:
            out.append(block_comment(rng, allow_nl=False))
            stats.add("define-inline-comment")
        else:
            out.append("\\\n")
            stats.add("define-continuation")
    return "".join(out)


def decorate(rng, items, force=None):
    """-> (text, stats, tags)"""
    stats, tags = set(), set()
    parts = []
    for it in items:
        toks = it["tokens"]
        if it["kind"] == "define":
            # tokens: '#', 'define', NAME, VALUE; the line starts on a line of its own
            g0 = gap(rng, stats) if rng.random() < 0.5 else ""
            parts.append(g0 + "\n" + inline_gap(rng, stats, False))
            anomaly = force if force in ("multiline-comment-in-define", "continuation-before-macro-name") else None
            if anomaly:
                force = None
            for i, t in enumerate(toks):
                if i == 3 and len(t) > 1 and rng.random() < 0.2:
                    k = rng.randint(1, len(t) - 1)
                    t = t[:k] + "\\\n" + t[k:]          # a continuation may split the value token
                    stats.add("define-continuation-in-value")
                parts.append(t)
                if i == 3:
                    break
                g = inline_gap(rng, stats, nonempty=(i >= 1), allow_cont=(i == 2))
                if i < 2 and rng.random() < 0.15:
                    g += block_comment(rng)            # '#\s*define\s+NAME' tolerates newlines here
                    stats.add("define-multiline-comment-before-name")
                if anomaly == "multiline-comment-in-define" and i == 2:
                    g += "/* a \n b */" + rng.choice(["", " "])
                    tags.add(anomaly)
                if anomaly == "continuation-before-macro-name" and i == rng.choice([0, 1]) and anomaly not in tags:
                    g += "\\\n "
                    tags.add(anomaly)
                parts.append(g)
            if anomaly == "continuation-before-macro-name" and anomaly not in tags:
                parts[-4] += "\\\n "                 # between 'define' and NAME
                tags.add(anomaly)
            tail = inline_gap(rng, stats, False, allow_cont=False)
            r = rng.random()
            if r < 0.3:
                c, cont = line_comment(rng)
                stats.add("define-line-comment")
                parts.append(tail + c)
            elif r < 0.45:
                parts.append(tail + block_comment(rng) + "\n")
                stats.add("define-trailing-comment")
            else:
                parts.append(tail + "\n")
            continue
        for i, t in enumerate(toks):
            if rng.random() < 0.45:
                parts.append(gap(rng, stats))
            elif i > 0:
                parts.append(" ")
            parts.append(t)
        parts.append(gap(rng, stats) if rng.random() < 0.3 else "\n")
    if force == "comment-on-line-directive-line":
        parts.append(rng.choice(["\n/* c */ # 5 \"f\"\n", "\n# 5 \"f\" /* c */\n"]))
        tags.add(force)
    return "".join(parts), stats, tags


# -- observation of the real implementation

def describe(tp, depth=0):
    if not hasattr(tp, "_get_c_name"):
        return tp                      # a macro value
    d = [type(tp).__name__, tp._get_c_name()]
    if hasattr(tp, "fldnames") and tp.fldnames is not None and depth < 3:
        d.append([[n, describe(t, depth + 1), b, q] for n, t, b, q in
                  zip(tp.fldnames, tp.fldtypes, tp.fldbitsize, tp.fldquals)])
    if hasattr(tp, "enumerators"):
        d.append([list(tp.enumerators), list(tp.enumvalues)])
    return d


def observe(src):
    import cffi
    from cffi import recompiler
    ffi = cffi.FFI()
    try:
        with warnings.catch_warnings():
            warnings.simplefilter("ignore")
            ffi.cdef(src)
            obs = {"decls": [[k, describe(tp), q] for k, (tp, q) in ffi._parser._declarations.items()],
                   "consts": sorted(ffi._parser._int_constants.items())}
            lay = {}
            for k, (tp, q) in ffi._parser._declarations.items():
                kind = k.split(" ", 1)[0]
                if kind in ("struct", "union") and getattr(tp, "fldnames", None) is not None:
                    ct = ffi.typeof(k)
                    lay[k] = [ffi.sizeof(ct), ffi.alignof(ct),
                              [[n, f.offset, f.bitshift, f.bitsize, f.type.cname] for n, f in ct.fields]]
                    for n in tp.fldnames:
                        if n and tp.fldbitsize[tp.fldnames.index(n)] < 0:
                            lay[k].append(ffi.offsetof(ct, n))
                elif kind == "enum":
                    ct = ffi.typeof(k)
                    lay[k] = [ffi.sizeof(ct), sorted(ct.relements.items())]
                elif kind == "typedef" and getattr(tp, "_get_c_name", None):
                    try:
                        ct = ffi.typeof(k.split(" ", 1)[1])
                        lay[k] = [ct.cname, ct.kind, ffi.sizeof(ct) if ct.kind not in ("void", "function") else -1]
                    except (TypeError, ValueError, cffi.FFIError) as e:     # incomplete types have no size
                        lay[k] = "no-size:" + type(e).__name__
            obs["layouts"] = lay
            f = io.StringIO()
            recompiler.make_py_source(ffi, "_c31_mod", f)
            obs["py"] = f.getvalue()
            f = io.StringIO()
            recompiler.make_c_source(ffi, "_c31_mod", "/* C31 */\n", f)
            obs["c"] = f.getvalue()
            return obs
    except Exception as e:
        return {"exc": type(e).__name__, "msg": str(e)[:300]}


def diff(a, b):
    if "exc" in b:
        return "raises %s (%s)" % (b["exc"], b["msg"].replace("\n", " | ")[:200])
    for k in ("decls", "consts", "layouts", "py", "c"):
        if a[k] != b[k]:
            if k in ("py", "c"):
                la, lb = a[k].split("\n"), b[k].split("\n")
                for i, (x, y) in enumerate(zip(la, lb)):
                    if x != y:
                        return "emitted %s source differs at line %d: %r vs %r" % (k, i + 1, x[:120], y[:120])
                return "emitted %s source differs in length" % k
            return "%s differ: %r vs %r" % (k, str(a[k])[:300], str(b[k])[:300])
    return None


def part_b(ctx, nbases, nvariants):
    bad_bases = 0
    pending = ["multiline-comment-in-define", "continuation-before-macro-name", "comment-on-line-directive-line"] * 2
    for bi in range(nbases):
        items = gen_items(ctx.rng)
        base = render_plain(items)
        ref = observe(base)
        if "exc" in ref:
            bad_bases += 1
            common.log("C31: plain cdef rejected: %s\n%s" % (ref, base))
            continue
        ctx.count("B:bases")
        has_define = any(it["kind"] == "define" for it in items)
        for vi in range(nvariants):
            force = None
            if vi == 0:
                for cand in pending:        # each known finding class is hit deliberately, twice per run
                    if cand == "comment-on-line-directive-line" or has_define:
                        force = cand
                        pending.remove(cand)
                        break
            text, stats, tags = decorate(ctx.rng, items, force)
            case = {"part": "B", "base": base, "variant": text, "tags": sorted(tags)}
            nontrivial = bool(stats - {"ws"}) or bool(tags)
            ctx.case(text if nontrivial else None, sample=case)
            for s in stats:
                ctx.count("B:" + s)
            got = observe(text)
            d = diff(ref, got)
            if d is not None:
                known_or_fail(ctx, case, "decorated cdef differs from the plain one: " + d)
            elif tags:
                ctx.count("B:class-input-passed")
    if bad_bases:
        raise InfraError("%d generated plain cdefs were rejected by cffi (generator or tree broken)" % bad_bases)


# ------------------------------------------------------------------ entry points

def correspond(ctx):
    part_a(ctx, ctx.n(1500, 10000), ctx.n(300, 2500))
    part_b(ctx, ctx.n(60, 600), ctx.n(10, 12))


def search(ctx):
    part_b(ctx, ctx.n(80, 800), 10)


def check_witness(ctx, finding):
    w = WITNESSES.get(finding["class"])
    if w is None:
        return None
    return diff(observe(w[0]), observe(w[1])) is not None


def replay(ctx, obj):
    case = obj.get("case")
    if case is None:           # a "no-failing-input-found" file: replay the first model/implementation difference
        for b in obj.get("theorems_or_correspondence_no_longer_checking", []):
            if b.get("what") == "correspondence":
                case = b["first"]["case"]
                break
        else:
            print("the proof stage was broken:", obj.get("theorems_or_correspondence_no_longer_checking"))
            return 1
    if case.get("part") == "A":
        from cffi import cparser
        text = case["text"]
        impl = cparser._r_comment.sub(lambda m: " " + m.group().count("\n") * "\n", text)
        with warnings.catch_warnings():
            warnings.simplefilter("ignore")
            src, macros = cparser._preprocess(text)
        out = ctx.driver(["strip " + enc(text), "macros " + enc(text)])
        model = dec(out[0][3:]) if out[0].startswith("ok ") else out[0]
        d = {}
        if out[1].startswith("ok"):
            for w in out[1].split(" ")[1:]:
                n, v = w.split("=")
                d[dec(n)] = dec(v)
        print("text %r\n  regex  -> %r\n  model  -> %r\n  macros -> %r\n  model  -> %r (%s)"
              % (text, impl, model, list(macros.items()), list(d.items()), out[1][:12]))
        ascii_ok = all(ord(c) < 128 for c in impl)
        return 0 if model == impl and (not ascii_ok or list(d.items()) == list(macros.items())) else 1
    a, b = observe(case["base"]), observe(case["variant"])
    d = diff(a, b) if "exc" not in a else "plain cdef rejected: %r" % (a,)
    print("plain cdef:\n%s\ndecorated cdef:\n%s\n=> %s" % (case["base"], case["variant"], d or "same meaning"))
    return 1 if d else 0
