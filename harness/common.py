"""Shared machinery of the cffi verification checks.

One check run (see DESIGN.md section 2):
  scratch dir -> rebuild backend from /repo's working tree -> translators
  -> lake build of the property's theorems + axiom audit -> correspondence
  (implementation in-process vs. the Lean model driver) -> verdict, evidence.

Exit codes: 0 = property held on everything explored, 1 = VIOLATION line
printed, 2 = infrastructure error (tree does not compile, driver protocol
error, timeout): neither pass nor violation.
"""
import fcntl
import json
import os
import random
import re
import shutil
import subprocess
import sys
import sysconfig
import time

VERIF = os.path.dirname(os.path.dirname(os.path.abspath(__file__)))
REPO = os.environ.get("VERIF_REPO", "/repo")
LEAN = os.path.join(VERIF, "lean")
PYTHON = "/venv/bin/python"
GUARD = "PYTHON_CFFI_CFFI_VERIF"

ALLOWED_AXIOMS = {"propext", "Classical.choice", "Quot.sound"}
FORBIDDEN = re.compile(
    r"\bsorry\b|\badmit\b|^\s*axiom\s|native_decide|bv_decide|implemented_by|"
    r"\bunsafe\s|maxHeartbeats\s+0\b", re.M)

TRUSTED_BASE = [
    "Lean 4.33.0 kernel; axioms limited to propext, Classical.choice, Quot.sound (audited by #print axioms every run)",
    "translators in /verif/translate (regex extraction of tables/constants from /repo into CffiVerif/Generated)",
    "correspondence harness in /verif/harness (generators, canonicalisers, line protocol) and the Lean driver's parsing",
    "gcc 12 / x86-64 SysV / glibc / libffi / CPython 3.12 are parameters of the models (validated by running, not proved)",
]


class InfraError(Exception):
    pass


def log(*a):
    print(*a, file=sys.stderr, flush=True)


# --------------------------------------------------------------------------
# building things from the working tree

def py_include():
    return sysconfig.get_paths()["include"]


def ext_suffix():
    return sysconfig.get_config_var("EXT_SUFFIX")


def run(cmd, timeout=600, **kw):
    return subprocess.run(cmd, stdout=subprocess.PIPE, stderr=subprocess.STDOUT,
                          universal_newlines=True, timeout=timeout, **kw)


def build_backend(scratch, extra_flags=(), name="_cffi_backend", cc="gcc"):
    """Compile /repo/src/c/_cffi_backend.c (current working tree) into
    scratch.  The guard macro is defined so that hooks (none today) are on."""
    out = os.path.join(scratch, name + ext_suffix())
    cmd = [cc, "-shared", "-fPIC", "-O1", "-w", "-DFFI_BUILDING=1",
           "-DUSE__THREAD", "-DHAVE_SYNC_SYNCHRONIZE", "-D%s=1" % GUARD,
           "-I" + os.path.join(REPO, "src/c"), "-I" + py_include(),
           *extra_flags,
           os.path.join(REPO, "src/c/_cffi_backend.c"), "-lffi", "-o", out]
    r = run(cmd)
    if r.returncode != 0:
        raise InfraError("backend does not compile:\n" + r.stdout[-3000:])
    return out


def compile_ext(c_file, out_dir, modname, extra=()):
    """Compile an API-mode module (output of ffi.emit_c_code) by direct gcc."""
    out = os.path.join(out_dir, modname + ext_suffix())
    cmd = ["gcc", "-shared", "-fPIC", "-O1", "-w",
           "-I" + py_include(), "-I" + os.path.join(REPO, "src/cffi"),
           *extra, c_file, "-o", out]
    r = run(cmd)
    if r.returncode != 0:
        raise InfraError("extension %s does not compile:\n%s" % (modname, r.stdout[-3000:]))
    return out


def compile_shared(c_file, out, extra=()):
    cmd = ["gcc", "-shared", "-fPIC", "-O1", "-w", *extra, c_file, "-o", out]
    r = run(cmd)
    if r.returncode != 0:
        raise InfraError("library does not compile:\n" + r.stdout[-3000:])
    return out


def compile_prog(c_file, out, extra=()):
    cmd = ["gcc", "-O1", "-w", *extra, c_file, "-o", out]
    r = run(cmd)
    if r.returncode != 0:
        raise InfraError("program does not compile:\n" + r.stdout[-3000:])
    return out


def run_prog(exe, args=(), inp=None, timeout=120):
    r = subprocess.run([exe, *args], input=inp, stdout=subprocess.PIPE,
                       stderr=subprocess.PIPE, universal_newlines=True, timeout=timeout)
    if r.returncode != 0:
        raise InfraError("program %s failed (%d): %s" % (exe, r.returncode, r.stderr[-2000:]))
    return r.stdout


# --------------------------------------------------------------------------
# Lean side

class LakeLock:
    """Serialises everything that writes under /verif/lean (several checks
    may run at the same time)."""
    def __enter__(self):
        self.f = open(os.path.join(LEAN, ".build.lock"), "w")
        fcntl.flock(self.f, fcntl.LOCK_EX)
        return self

    def __exit__(self, *a):
        fcntl.flock(self.f, fcntl.LOCK_UN)
        self.f.close()


def strip_lean_comments(src):
    out = []
    i, n, depth = 0, len(src), 0
    while i < n:
        if src.startswith("/-", i):
            depth += 1
            i += 2
        elif depth and src.startswith("-/", i):
            depth -= 1
            i += 2
        elif depth:
            if src[i] == "\n":
                out.append("\n")
            i += 1
        elif src.startswith("--", i):
            while i < n and src[i] != "\n":
                i += 1
        elif src[i] == '"':
            j = i + 1
            while j < n and src[j] != '"':
                j += 2 if src[j] == "\\" else 1
            out.append('""')
            out.append("\n" * src.count("\n", i, j))
            i = j + 1
        else:
            out.append(src[i])
            i += 1
    return "".join(out)


def module_path(mod):
    return os.path.join(LEAN, mod.replace(".", "/") + ".lean")


def transitive_modules(mod, seen=None):
    """Project-local modules imported (transitively) by `mod`."""
    seen = seen if seen is not None else []
    if mod in seen:
        return seen
    p = module_path(mod)
    if not os.path.exists(p):
        return seen
    seen.append(mod)
    for m in re.findall(r"^\s*(?:public\s+)?import\s+(CffiVerif[\w.]*)", open(p).read(), re.M):
        transitive_modules(m, seen)
    return seen


def theorems_of(mod):
    """[(fully qualified name, line)] of the theorems stated in a Props file."""
    src = strip_lean_comments(open(module_path(mod)).read())
    ns = []
    res = []
    for ln, line in enumerate(src.split("\n"), 1):
        m = re.match(r"\s*namespace\s+([\w.]+)", line)
        if m:
            ns.append(m.group(1))
            continue
        m = re.match(r"\s*end\s+([\w.]+)\s*$", line)
        if m and ns and ns[-1] == m.group(1):
            ns.pop()
            continue
        m = re.match(r"\s*(?:@\[[^\]]*\]\s*)?(?:private\s+|protected\s+)?theorem\s+([\w.'!?]+)", line)
        if m:
            res.append((".".join(ns + [m.group(1)]), ln))
    return res


def write_generated(name, content, summary=None):
    """Used by translators: (re)write lean/CffiVerif/Generated/<name>.lean when the
    content extracted from /repo changed.  Returns a description for the evidence.
    Must be called with the LakeLock held (prove() does that)."""
    d = os.path.join(LEAN, "CffiVerif", "Generated")
    os.makedirs(d, exist_ok=True)
    path = os.path.join(d, name + ".lean")
    header = ("-- GENERATED by /verif/translate from the working tree of /repo on every check run.\n"
              "-- Do not edit: the check rewrites this file whenever the extracted source changes.\n")
    new = header + content
    old = open(path).read() if os.path.exists(path) else None
    changed = old != new
    if changed:
        with open(path, "w") as f:
            f.write(new)
    return {"generated": "CffiVerif.Generated." + name, "changed_since_commit": changed,
            "summary": summary or ""}


def lake_build(targets, timeout=3000):
    t0 = time.time()
    r = run(["lake", "build", *targets], cwd=LEAN, timeout=timeout)
    return r.returncode == 0, r.stdout, time.time() - t0


def lean_run_file(path, timeout=1200):
    r = run(["lake", "env", "lean", path], cwd=LEAN, timeout=timeout)
    return r.returncode, r.stdout


def prove(prop, scratch, translators=(), leanchecker=False):
    """Translate + build the property's theorems + audit their axioms.
    Returns a dict describing obligations and what (if anything) broke."""
    mod = "CffiVerif.Props.%s" % prop
    res = {"module": mod, "obligations": 0, "discharged": 0, "broken": [],
           "translated": [], "log": "", "ok": False, "build_s": 0.0}
    with LakeLock():
        for tr in translators:
            try:
                res["translated"].append(tr())
            except Exception as e:      # extraction point not found / not parsable
                res["broken"].append({"what": "translator", "detail": "%s: %s" % (type(e).__name__, e)})
        thms = theorems_of(mod)
        res["obligations"] = len(thms)
        res["theorems"] = [t for t, _ in thms]
        if res["broken"]:
            return res
        ok, out, dt = lake_build([mod])
        res["build_s"] = round(dt, 2)
        if not ok:
            res["log"] = out[-6000:]
            bad = set()
            other = False
            for m in re.finditer(r"error: ([^\s:]+):(\d+):\d+", out):
                f, ln = m.group(1), int(m.group(2))
                if f.replace("/", ".").endswith(mod + ".lean") or f.endswith("Props/%s.lean" % prop):
                    cand = [t for t, l in thms if l <= ln]
                    if cand:
                        bad.add(cand[-1])
                    else:
                        other = True
                else:
                    other = True
            if other or not bad:
                res["broken"].append({"what": "build", "detail": "a module the theorems depend on no longer checks",
                                      "log": out[-3000:]})
                bad = set(t for t, _ in thms)
            for t in sorted(bad):
                res["broken"].append({"what": "theorem", "name": t})
            res["discharged"] = len(thms) - len(bad)
            return res
        # forbidden constructs in the property file and everything it imports
        for m in transitive_modules(mod):
            src = strip_lean_comments(open(module_path(m)).read())
            hit = FORBIDDEN.search(src)
            if hit:
                res["broken"].append({"what": "forbidden", "detail": "%s uses %r" % (m, hit.group(0))})
        # axiom audit
        audit = os.path.join(scratch, "Audit_%s.lean" % prop)
        with open(audit, "w") as f:
            f.write("import %s\n" % mod)
            for t, _ in thms:
                f.write("#print axioms %s\n" % t)
        rc, out = lean_run_file(audit)
        axioms = {}
        for m in re.finditer(r"'([^']+)' depends on axioms: \[([^\]]*)\]", out.replace("\n", " ")):
            axioms[m.group(1)] = set(a.strip() for a in m.group(2).split(",") if a.strip())
        for m in re.finditer(r"'([^']+)' does not depend on any axioms", out):
            axioms[m.group(1)] = set()
        good = 0
        for t, _ in thms:
            if t not in axioms:
                res["broken"].append({"what": "audit", "name": t, "detail": "no #print axioms output: " + out[-500:]})
            elif not axioms[t] <= ALLOWED_AXIOMS:
                res["broken"].append({"what": "audit", "name": t,
                                      "detail": "axioms " + ", ".join(sorted(axioms[t] - ALLOWED_AXIOMS))})
            else:
                good += 1
        res["discharged"] = good
        res["axioms"] = sorted(set().union(*axioms.values())) if axioms else []
        if leanchecker and not res["broken"]:
            r = run(["lake", "env", "leanchecker", mod], cwd=LEAN, timeout=3000)
            res["leanchecker"] = "ok" if r.returncode == 0 else "FAILED"
            if r.returncode != 0:
                res["broken"].append({"what": "leanchecker", "detail": r.stdout[-1500:]})
    res["ok"] = not res["broken"] and res["obligations"] > 0 and res["discharged"] == res["obligations"]
    return res


def driver(prop, lines, name=None, timeout=1800):
    """Pipe operation lines to the model driver; one output line per input
    line.  A `bad-op` answer is a protocol (infrastructure) error."""
    path = os.path.join("Drivers", (name or prop) + ".lean")
    data = "".join(l + "\n" for l in lines)
    assert "\r" not in data
    r = subprocess.run(["lake", "env", "lean", "--run", path], cwd=LEAN, input=data,
                       stdout=subprocess.PIPE, stderr=subprocess.PIPE,
                       universal_newlines=True, timeout=timeout)
    if r.returncode != 0:
        raise InfraError("model driver %s failed: %s" % (path, (r.stderr or r.stdout)[-3000:]))
    out = r.stdout.split("\n")
    if out and out[-1] == "":
        out.pop()
    if len(out) != len(lines):
        raise InfraError("model driver %s printed %d lines for %d operations" % (path, len(out), len(lines)))
    for i, o in enumerate(out):
        if o.startswith("bad-op"):
            raise InfraError("model driver rejected operation line %r -> %r" % (lines[i], o))
    return out


# --------------------------------------------------------------------------
# known findings

def load_findings(prop):
    path = os.path.join(VERIF, "KNOWN_FINDINGS.jsonl")
    res = []
    if os.path.exists(path):
        for line in open(path):
            line = line.strip()
            if not line or line.startswith("#") or line.startswith("fixed:"):
                continue     # "fixed: property=<id> <commit> <what failed>" lines suppress nothing
            e = json.loads(line)
            if e.get("property") == prop:
                res.append(e)
    return res


# --------------------------------------------------------------------------
# the context handed to each corr_Cxx module

class Ctx:
    def __init__(self, prop, tier, seed, scratch):
        self.prop, self.tier, self.seed, self.scratch = prop, tier, seed, scratch
        self.rng = random.Random("%s/%d" % (prop, seed))
        self.t0 = time.time()
        self.quick = tier == "quick"
        self.failures = []        # property's own statement failed on the real implementation
        self.disagreements = []   # model and implementation differ (not by itself a violation)
        self.known_hits = {}      # finding class -> first failure
        self.coverage = {}
        self.assumptions = []
        self.proof = None
        self.findings = load_findings(prop)
        self.open_findings = [f for f in self.findings if not f.get("fixed")]
        self.classes = {}         # class name -> predicate(case) ; set by the module
        self.distribution = {}
        self._distinct = set()
        self.samples = []
        self.evaluations = 0

    # -- budgets
    def n(self, quick, thorough):
        return quick if self.quick else thorough

    # -- bookkeeping of cases
    def count(self, key, k=1):
        self.distribution[key] = self.distribution.get(key, 0) + k

    def case(self, nontrivial_key=None, sample=None):
        """Record one evaluated case; nontrivial_key identifies its class for
        distinct_nontrivial (None = trivial)."""
        self.evaluations += 1
        if nontrivial_key is not None:
            self._distinct.add(nontrivial_key)
        if sample is not None and len(self.samples) < 8:
            self.samples.append(sample)

    # -- outcomes
    def fail(self, case, detail, cls_hint=None):
        """The property's statement fails on the real implementation at `case`."""
        for f in self.open_findings:
            pred = self.classes.get(f["class"])
            if pred is not None and pred(case):
                self.known_hits.setdefault(f["class"], {"case": case, "detail": detail})
                return "known"
        self.failures.append({"case": case, "detail": detail})
        return "new"

    def disagree(self, case, impl, model, what=""):
        self.n_disagreements = getattr(self, "n_disagreements", 0) + 1
        if len(self.disagreements) < 200:          # keep the first ones, count them all
            self.disagreements.append({"case": case, "impl": impl, "model": model, "what": what})

    def driver(self, lines, name=None):
        """Answers of the model driver.  When the proof stage is already broken because the *model itself*
        no longer builds (a regenerated definition changed), the driver cannot run: every line is then
        answered `model-unavailable`, which shows up as disagreements (never as a pass) and sends the run
        to the failing-input search instead of ending it as an infrastructure error."""
        try:
            return driver(self.prop, lines, name)
        except InfraError:
            if self.proof is not None and not self.proof.get("ok"):
                log("model driver unavailable (the model no longer builds); continuing with the oracle only")
                return ["model-unavailable"] * len(lines)
            raise

    def prove(self, translators=()):
        self.proof = prove(self.prop, self.scratch, translators, leanchecker=not self.quick)
        return self.proof


def jsonable(x):
    if isinstance(x, (str, int, float, bool)) or x is None:
        if isinstance(x, int) and abs(x) > 2 ** 62:
            return str(x)
        return x
    if isinstance(x, bytes):
        return "hex:" + x.hex()
    if isinstance(x, dict):
        return {str(k): jsonable(v) for k, v in x.items()}
    if isinstance(x, (list, tuple, set, frozenset)):
        return [jsonable(v) for v in x]
    return repr(x)


def write_replay(ctx, obj):
    d = os.path.join(VERIF, "replays")
    os.makedirs(d, exist_ok=True)
    path = os.path.join(d, "%s-%d.json" % (ctx.prop, ctx.seed))
    with open(path, "w") as f:
        json.dump(jsonable(obj), f, indent=1)
    return os.path.relpath(path, VERIF)


def finish(ctx, mod):
    """Turn what the run collected into the verdict, evidence and exit code."""
    prop = ctx.prop
    violations = 0
    proof = ctx.proof or {"obligations": 0, "discharged": 0, "broken": [{"what": "no-proof-stage"}], "ok": False}

    # the witnesses of open findings are re-executed by the module (mod.check_witness)
    for f in ctx.open_findings:
        still = None
        if hasattr(mod, "check_witness"):
            try:
                still = mod.check_witness(ctx, f)
            except InfraError:
                raise
            except Exception as e:
                still = None
                log("witness of %s could not be evaluated: %r" % (f["class"], e))
        if still is False and f["class"] not in ctx.known_hits:
            print("STALE-FINDING: property=%s class=%s witness no longer fails" % (prop, f["class"]))
        else:
            print("KNOWN-FINDING: property=%s %s [%s]" % (prop, f["what"], f["class"]))

    if ctx.failures:
        violations = len(ctx.failures)
        first = ctx.failures[0]
        path = write_replay(ctx, {"property": prop, "kind": "failing-input", "seed": ctx.seed,
                                  "tier": ctx.tier, "case": first["case"], "detail": first["detail"],
                                  "more": ctx.failures[1:6],
                                  "proof_broken": proof.get("broken"),
                                  "disagreements": ctx.disagreements[:3]})
        print("VIOLATION property=%s replay=%s" % (prop, path))
    elif not proof["ok"] or ctx.disagreements:
        # the property is no longer shown to hold
        for d in ctx.disagreements[:3]:      # make the run diagnosable from its log alone
            log("DISAGREEMENT (model vs implementation):", json.dumps(jsonable(d))[:700])
        violations = 1
        path = write_replay(ctx, {"property": prop, "kind": "no-failing-input-found", "seed": ctx.seed,
                                  "tier": ctx.tier,
                                  "theorems_or_correspondence_no_longer_checking":
                                      [b for b in proof.get("broken", [])] +
                                      [{"what": "correspondence", "first": d} for d in ctx.disagreements[:5]],
                                  "build_log": proof.get("log", "")[-3000:]})
        print("VIOLATION property=%s replay=%s no-failing-input-found" % (prop, path))

    cov = {
        "obligations": proof["obligations"],
        "discharged": proof["discharged"],
        "checker_cmd": "cd /verif/lean && lake build CffiVerif.Props.%s && lake env lean <audit: #print axioms of every theorem>%s"
                       % (prop, "" if ctx.quick else " && lake env leanchecker CffiVerif.Props.%s" % prop),
        "trusted_base": TRUSTED_BASE + list(getattr(mod, "TRUSTED_EXTRA", [])),
        "theorems": proof.get("theorems", []),
        "axioms_used": proof.get("axioms", []),
        "regenerated": proof.get("translated", []),
        "evaluations": ctx.evaluations,
        "distinct_nontrivial": len(ctx._distinct),
        "rule": getattr(mod, "RULE", ""),
        "samples": jsonable(ctx.samples) or ["(no correspondence cases in this run)"],
        "traces_validated_against_impl": max(0, ctx.evaluations - getattr(ctx, "n_disagreements", 0)),
        "disagreements": getattr(ctx, "n_disagreements", 0),
        "distribution": ctx.distribution,
        "known_findings_hit": sorted(ctx.known_hits),
        "build_s": proof.get("build_s"),
    }
    if "leanchecker" in proof:
        cov["leanchecker"] = proof["leanchecker"]
    cov.update(ctx.coverage)
    ev = {"property_id": prop, "tier": ctx.tier, "seed": ctx.seed, "level": "proof",
          "coverage": cov,
          "assumptions": list(getattr(mod, "ASSUMPTIONS", [])) + ctx.assumptions,
          "wall_s": round(time.time() - ctx.t0, 2), "violations": violations}
    os.makedirs(os.path.join(VERIF, "evidence"), exist_ok=True)
    with open(os.path.join(VERIF, "evidence", prop + ".json"), "w") as f:
        json.dump(ev, f, indent=1, sort_keys=True)
        f.write("\n")
    return 1 if violations else 0
