"""C03 -- integer stores accept exactly the type's range and round-trip.

Theorems (lean/CffiVerif/Props/C03.lean) over the models of convert_from_object
(path A), of the API-mode argument converters (path B; macro conditions,
instantiations, dispatch and return types regenerated from the source into
Generated/IntMacros.lean) and of the callback result conversion.

Tie to the code, per (type, value):
  * oracle, independent of the model: range arithmetic in Python, `int.to_bytes`
    / `int.from_bytes` on `ffi.buffer` contents, a compiled C receiver that
    records the bytes of the argument it was called with, a compiled C caller
    of the callback that records what it got;
  * correspondence: the same (type, value, previous bytes) through the Lean
    driver (Drivers/C03.lean), compared with every store path.
Store paths: ffi.new initializer, array-initializer item, struct-initializer
field, array item assignment, struct field assignment, global variable (API
module and dlopen'ed library), function argument (API module = `_cffi_to_c_*`,
dlopen'ed library = libffi path), result of an `ffi.callback` (libffi closure)
and of an `extern "Python"` function, each called from compiled C.
"""
import importlib
import os
import sys
import time

import common
from common import InfraError

sys.path.insert(0, os.path.join(common.VERIF, "translate"))
import intmacros  # noqa: E402
import castexprs  # noqa: E402

MANIFEST = {
    "text": "Kernel-checked theorems, for every integer primitive (1/2/4/8 bytes; signed, unsigned, _Bool) and every "
            "Python int of any magnitude: convert_from_object accepts iff the value is in the type's range, a rejected "
            "store raises OverflowError and leaves the memory as it was, an accepted store reads back exactly the value "
            "and leaves the following bytes alone; the API-mode argument converters (_cffi_to_c_i8.._u64 dispatched by "
            "_cffi_to_c_int, _cffi_to_c__Bool, the emitted (type)-1 error check) accept the same set, pass the same "
            "bytes and never call the C function with an exception set; the overflow conditions written in the two "
            "macros mean exactly [-2^(N-1), 2^(N-1)-1] and [0, 2^N-1] at every instantiation and shift by in-range "
            "counts; a callback result is the value (sign/zero-extended over the ffi_arg slot) when in range and the "
            "prepared error bytes otherwise.  The macro conditions, instantiation list, dispatch table, exports "
            "indices, return types and the primitive-type table are re-extracted from the source on every run; all "
            "store paths of the real implementation are run against a plain-Python oracle and against the model.",
    "note": "Trusted: Lean kernel; the C-expression translator (translate/intmacros.py); CPython's PyLong_As* "
            "(modelled: OverflowError outside 64 bits, in-band -1); gcc conversions between integer types wrap; LP64 "
            "little endian; libffi argument/return marshalling (validated by the compiled receivers, not proved). "
            "The if/else chain of _cffi_to_c__Bool and the emitted argument check (obtained by running the code "
            "generator on every integer primitive) are regenerated too (translate/castexprs.py); objects with "
            "__int__ / floats as stored values are outside the statement.",
    "technique": "Lean 4 proof (case analysis over widths/kinds, omega, BitVec simprocs over regenerated macro "
                 "expressions) + translator + differential correspondence on all store paths with a Python/C oracle",
}

RULE = ("per type: the boundary sweep {+-2^k + d : k = 0..70, d = -3..3} plus random 1..200-bit ints of both signs, plus "
        "ints beyond the int->str digit limit (+-10^4300, 10^4300-1, +-10^6000, +-2^20000, two random 14400..30000-bit "
        "ones; written in hex everywhere); "
        "every value goes through every store path with a random previous content of the target; the oracle runs on "
        "all of them, the Lean driver on the values near the type's own bounds / the 64-bit conversion limits plus a "
        "random sample of the rest.  A case is non-trivial when the value is within 3 of one of the type's bounds or "
        "of +-2^63 / 2^64, or wider than 64 bits; distinct = distinct (type, value).")
ASSUMPTIONS = ["x86-64 SysV, LP64, little endian, sizeof(ffi_arg) = 8", "CPython 3.12 PyLong_AsLongLong / "
               "PyLong_AsUnsignedLongLong / PyLong_AsUnsignedLongLongMask semantics as modelled"]
TRUSTED_EXTRA = ["translate/intmacros.py: C expression -> BitVec 64 term for the operator subset of the two macros"]
CLASSES = {}

INT_TYPES = [
    "short", "int", "long", "long long", "signed char", "unsigned char", "unsigned short", "unsigned int",
    "unsigned long", "unsigned long long", "_Bool",
    "int8_t", "uint8_t", "int16_t", "uint16_t", "int32_t", "uint32_t", "int64_t", "uint64_t",
    "int_least8_t", "uint_least8_t", "int_least16_t", "uint_least16_t", "int_least32_t", "uint_least32_t",
    "int_least64_t", "uint_least64_t", "int_fast8_t", "uint_fast8_t", "int_fast16_t", "uint_fast16_t",
    "int_fast32_t", "uint_fast32_t", "int_fast64_t", "uint_fast64_t", "intptr_t", "uintptr_t",
    "intmax_t", "uintmax_t", "ptrdiff_t", "size_t", "ssize_t"]
ENUM_DECLS = """
enum c03_eu32 { C03_EU32_A, C03_EU32_B = 4294967295 };
enum c03_es32 { C03_ES32_A = -1, C03_ES32_B = 2147483647 };
enum c03_eu64 { C03_EU64_A, C03_EU64_B = 18446744073709551615 };
enum c03_es64 { C03_ES64_A = -1, C03_ES64_B = 9223372036854775807 };
"""
ENUM_DECLS_C = ENUM_DECLS.replace("18446744073709551615", "18446744073709551615ULL").replace(
    "9223372036854775807", "9223372036854775807LL")
ENUM_TYPES = ["enum c03_eu32", "enum c03_es32", "enum c03_eu64", "enum c03_es64"]
ALL_TYPES = INT_TYPES + ENUM_TYPES


def ident(t):
    return t.replace(" ", "_")


def _quiet(fn):
    so = os.dup(1)
    devnull = os.open(os.devnull, os.O_WRONLY)
    sys.stdout.flush()
    os.dup2(devnull, 1)
    try:
        return fn()
    finally:
        sys.stdout.flush()
        os.dup2(so, 1)
        os.close(devnull)
        os.close(so)


# ---------------------------------------------------------------- the compiled side

def c_source():
    L = ["#include <stdint.h>", "#include <stddef.h>", "#include <sys/types.h>", "#include <string.h>",
         ENUM_DECLS_C,
         "int c03_called;", "unsigned char c03_last[8];",
         "#define C03_DEF(T, ID) \\",
         "  T c03_g_##ID; \\",
         "  int c03_sizeof_##ID(void) { return (int)sizeof(T); } \\",
         "  int c03_signed_##ID(void) { return ((T)-1) < 0; } \\",
         "  struct c03_s_##ID { unsigned char before; T f; unsigned char after; }; \\",
         "  void c03_recv_##ID(T x) { c03_called++; memset(c03_last, 0xAA, 8); memcpy(c03_last, &x, sizeof x); } \\",
         "  T c03_callcb_##ID(T (*cb)(void)) { T r = cb(); c03_called++; memset(c03_last, 0xAA, 8); "
         "memcpy(c03_last, &r, sizeof r); return r; }",
         "#ifdef C03_API",
         "#define C03_EPY(T, ID) \\",
         "  static T c03_epy_##ID(void); \\",
         "  T c03_callepy_##ID(void) { T r = c03_epy_##ID(); c03_called++; memset(c03_last, 0xAA, 8); "
         "memcpy(c03_last, &r, sizeof r); return r; }",
         "#else", "#define C03_EPY(T, ID)", "#endif"]
    for t in ALL_TYPES:
        L.append("C03_DEF(%s, %s)" % (t, ident(t)))
        L.append("C03_EPY(%s, %s)" % (t, ident(t)))
    return "\n".join(L) + "\n"


def cdef_text(api):
    L = [ENUM_DECLS, "extern int c03_called;", "extern unsigned char c03_last[8];"]
    for t in ALL_TYPES:
        i = ident(t)
        L.append("extern %s c03_g_%s;" % (t, i))
        L.append("struct c03_s_%s { unsigned char before; %s f; unsigned char after; };" % (i, t))
        L.append("void c03_recv_%s(%s);" % (i, t))
        L.append("int c03_sizeof_%s(void);" % i)
        L.append("int c03_signed_%s(void);" % i)
        L.append("%s c03_callcb_%s(%s (*cb)(void));" % (t, i, t))
        if api:
            L.append('extern "Python" %s c03_epy_%s(void);' % (t, i))
            L.append("%s c03_callepy_%s(void);" % (t, i))
    return "\n".join(L) + "\n"


class World:
    pass


def build(ctx):
    """One API-mode extension module and one shared library (the same C text), per run."""
    if getattr(ctx, "_c03_world", None) is not None:
        return ctx._c03_world
    import cffi
    sys.path.insert(0, ctx.scratch)
    w = World()
    src = c_source()
    modname = "_c03_ext_%d" % ctx.seed
    ffi = cffi.FFI()
    ffi.cdef(cdef_text(True))
    ffi.set_source(modname, "#define C03_API 1\n" + src)
    cpath = os.path.join(ctx.scratch, modname + ".c")
    _quiet(lambda: ffi.emit_c_code(cpath))
    common.compile_ext(cpath, ctx.scratch, modname)
    m = importlib.import_module(modname)
    w.api_ffi, w.api_lib = m.ffi, m.lib
    libc = os.path.join(ctx.scratch, "c03lib.c")
    with open(libc, "w") as f:
        f.write(src)
    so = common.compile_shared(libc, os.path.join(ctx.scratch, "libc03.so"))
    ffi2 = cffi.FFI()
    ffi2.cdef(cdef_text(False))
    w.abi_ffi, w.abi_lib = ffi2, ffi2.dlopen(so)
    w.types = [TypeEnv(w, t, ctx.rng) for t in ALL_TYPES]
    ctx._c03_world = w
    return w


class TypeEnv:
    """Everything needed to push one value through every store path of one type."""

    def __init__(self, w, name, rng):
        self.w, self.name, self.id = w, name, ident(name)
        ffi = w.abi_ffi
        # size and signedness as gcc sees the type (not as cffi reports them)
        self.size = getattr(w.abi_lib, "c03_sizeof_" + self.id)()
        self.is_bool = name == "_Bool"
        self.is_enum = name.startswith("enum ")
        self.signed = bool(getattr(w.abi_lib, "c03_signed_" + self.id)())
        self.ffi_size = ffi.sizeof(name)
        self.kind = "b" if self.is_bool else ("s" if self.signed else "u")
        if self.is_bool:
            self.lo, self.hi = 0, 1
        elif self.signed:
            self.lo, self.hi = -(1 << (8 * self.size - 1)), (1 << (8 * self.size - 1)) - 1
        else:
            self.lo, self.hi = 0, (1 << (8 * self.size)) - 1
        # reusable targets
        self.arr = ffi.new("%s[3]" % name)
        self.arr_buf = ffi.buffer(self.arr)
        self.st = ffi.new("struct c03_s_%s *" % self.id)
        self.st_buf = ffi.buffer(self.st)
        self.f_off = ffi.offsetof("struct c03_s_%s" % self.id, "f")
        self.g_api = w.api_ffi.buffer(w.api_ffi.addressof(w.api_lib, "c03_g_" + self.id))
        # in-line ABI mode does not expose global variables of enum type at all (api.py make_accessors
        # treats every declaration whose type is an EnumType as the enum's own declaration): path skipped
        self.g_abi = None if self.is_enum else \
            w.abi_ffi.buffer(w.abi_ffi.addressof(w.abi_lib, "c03_g_" + self.id))
        self.last_api = w.api_ffi.buffer(w.api_ffi.addressof(w.api_lib, "c03_last"))
        self.last_abi = w.abi_ffi.buffer(w.abi_ffi.addressof(w.abi_lib, "c03_last"))
        self.recv_api = getattr(w.api_lib, "c03_recv_" + self.id)
        self.recv_abi = getattr(w.abi_lib, "c03_recv_" + self.id)
        # callbacks: the Python function returns self.cell[0]; error value chosen per run
        self.cell = [0]
        cands = [x for x in (self.lo, self.lo + 1, self.hi, self.hi - 1, 0, 1, 5, -7) if self.lo <= x <= self.hi]
        self.errval = rng.choice(cands)
        self.cb_exc = []
        onerr = lambda exc, val, tb: self.cb_exc.append(exc.__name__)   # noqa: E731
        self.cb = ffi.callback("%s(void)" % name, lambda: self.cell[0], error=self.errval, onerror=onerr)
        self.cb0 = ffi.callback("%s(void)" % name, lambda: self.cell[0], onerror=onerr)   # default error value
        self.callcb = getattr(w.abi_lib, "c03_callcb_" + self.id)
        w.api_ffi.def_extern("c03_epy_" + self.id, error=self.errval, onerror=onerr)(lambda: self.cell[0])
        self.callepy = getattr(w.api_lib, "c03_callepy_" + self.id)

    def in_range(self, v):
        return self.lo <= v <= self.hi

    def obj_bytes(self, v):
        return v.to_bytes(self.size, "little", signed=self.signed)

    def from_bytes(self, b):
        return int.from_bytes(b, "little", signed=self.signed)


def run_paths(te, v, pat):
    """Push v through every path of type te; `pat` (size bytes) is the previous content of each target.
    Returns {path: observation}; an observation is
      ("ok", object bytes after, value read back through cffi, neighbours unchanged?)  or
      (exception type name, object bytes after, None, neighbours unchanged?)."""
    w, size, name = te.w, te.size, te.name
    ffi = w.abi_ffi
    obs = {}

    def attempt(fn):
        try:
            fn()
        except Exception as e:      # noqa: BLE001 - the exception type is the observation
            return type(e).__name__
        try:
            bytes(_CANARY)          # bytes() checks PyErr_Occurred(): reports an exception fn() left pending
        except Exception as e:      # noqa: BLE001
            return "returned-with-pending-" + type(e).__name__
        return "ok"

    # ffi.new initializer / array initializer / struct initializer (fresh memory: no "before")
    box = []
    r = attempt(lambda: box.append(ffi.new(name + "*", v)))
    obs["new"] = (r, bytes(ffi.buffer(box[0])) if box else None, int(box[0][0]) if box else None, True)
    box = []
    r = attempt(lambda: box.append(ffi.new(name + "[]", [v])))
    obs["new-array"] = (r, bytes(ffi.buffer(box[0])) if box else None, int(box[0][0]) if box else None, True)
    box = []
    r = attempt(lambda: box.append(ffi.new("struct c03_s_%s *" % te.id, {"f": v})))
    if box:
        b = bytes(ffi.buffer(box[0]))
        obs["new-struct"] = (r, b[te.f_off:te.f_off + size], int(box[0].f), b[0] == 0 and b[te.f_off + size] == 0)
    else:
        obs["new-struct"] = (r, None, None, True)

    # array item assignment: items 0 and 2 are neighbours
    fill = bytes((i * 37 + 11) & 0xFF for i in range(size))
    te.arr_buf[:] = fill + pat + fill[::-1]
    r = attempt(lambda: te.arr.__setitem__(1, v))
    b = bytes(te.arr_buf)
    obs["item"] = (r, b[size:2 * size], int(te.arr[1]) if r == "ok" else None,
                   b[:size] == fill and b[2 * size:] == fill[::-1])

    # struct field assignment
    before = bytearray(bytes(te.st_buf))
    before[0] = 0x5A
    before[te.f_off:te.f_off + size] = pat
    before[te.f_off + size] = 0xA5
    te.st_buf[:] = bytes(before)
    r = attempt(lambda: setattr(te.st, "f", v))
    b = bytes(te.st_buf)
    obs["field"] = (r, b[te.f_off:te.f_off + size], int(te.st.f) if r == "ok" else None,
                    b[:te.f_off] == bytes(before[:te.f_off]) and b[te.f_off + size:] == bytes(before[te.f_off + size:]))

    # global variables
    for key, lib, gbuf in (("global-api", w.api_lib, te.g_api), ("global-abi", w.abi_lib, te.g_abi)):
        if gbuf is None:
            continue
        gbuf[:] = pat
        r = attempt(lambda: setattr(lib, "c03_g_" + te.id, v))
        obs[key] = (r, bytes(gbuf), int(getattr(lib, "c03_g_" + te.id)) if r == "ok" else None, True)

    # function arguments: API mode (_cffi_to_c_*) and libffi
    for key, lib, fn, last in (("arg-api", w.api_lib, te.recv_api, te.last_api),
                               ("arg-abi", w.abi_lib, te.recv_abi, te.last_abi)):
        last[:] = b"\xEE" * 8
        c0 = lib.c03_called
        r = attempt(lambda: fn(v))
        called = lib.c03_called - c0
        lb = bytes(last)
        if r == "ok":
            obs[key] = (r, lb[:size], te.from_bytes(lb[:size]), called == 1 and lb[size:] == b"\xAA" * (8 - size))
        else:
            obs[key] = (r, None, None, called == 0 and lb == b"\xEE" * 8)    # the C function must not run

    # callback results, as received by compiled C
    te.cell[0] = v
    for key, call, lib, last in (("callback", lambda: te.callcb(te.cb), w.abi_lib, te.last_abi),
                                 ("callback-noerr", lambda: te.callcb(te.cb0), w.abi_lib, te.last_abi),
                                 ("extern-python", te.callepy, w.api_lib, te.last_api)):
        del te.cb_exc[:]
        last[:] = b"\xEE" * 8
        box = []
        r = attempt(lambda: box.append(call()))
        lb = bytes(last)
        obs[key] = (r, lb[:size], int(box[0]) if box else None, list(te.cb_exc))
    return obs


_CANARY = bytearray(b"c03")

A_PATHS = ("new", "new-array", "new-struct", "item", "field", "global-api", "global-abi", "arg-abi")
MEM_PATHS = ("item", "field", "global-api", "global-abi")


def check_oracle(ctx, te, v, pat, obs):
    """The property's own statement, evaluated without the model."""
    ok = te.in_range(v)
    want = te.obj_bytes(v) if ok else None
    case = {"type": te.name, "size": te.size, "kind": te.kind, "value": cval(v), "before": pat.hex()}
    for path in A_PATHS + ("arg-api",):
        if path not in obs:
            continue
        r, b, rd, nb = obs[path]
        c = dict(case, path=path)
        ctx.count("%s:%s" % (path, "accept" if r == "ok" else r))
        if ok:
            if r != "ok":
                ctx.fail(c, "in-range value rejected with %s" % r)
            elif b != want:
                ctx.fail(c, "stored bytes %s, expected %s" % (b.hex(), want.hex()))
            elif rd != v:
                ctx.fail(c, "read back %r instead of %r" % (rd, v))
            elif not nb:
                ctx.fail(c, "an accepted store touched neighbouring bytes / the C function was not called once")
        else:
            if r == "ok":
                ctx.fail(c, "out-of-range value accepted (stored bytes %s, read back %r)" % (b.hex() if b else b, rd))
            elif r != "OverflowError":
                ctx.fail(c, "out-of-range value raised %s, not OverflowError" % r)
            elif path in MEM_PATHS and b != pat:
                ctx.fail(c, "a rejected store changed the target: %s -> %s" % (pat.hex(), b.hex()))
            elif not nb:
                ctx.fail(c, "a rejected store touched neighbouring bytes / the C function was called")
    for path, ev in (("callback", te.errval), ("callback-noerr", 0), ("extern-python", te.errval)):
        r, b, rd, excs = obs[path]
        c = dict(case, path=path, error_value=ev)
        ctx.count("%s:%s" % (path, "value" if ok else "error-value"))
        expect = v if ok else ev
        if r != "ok":
            ctx.fail(c, "calling the C caller of the callback raised %s" % r)
        elif b != te.obj_bytes(expect) or rd != expect:
            ctx.fail(c, "the C caller received %s / %r, expected %r" % (b.hex(), rd, expect))
        elif ok and excs:
            ctx.fail(c, "onerror called (%s) for an in-range result" % excs)
        elif not ok and excs != ["OverflowError"]:
            ctx.fail(c, "out-of-range callback result reported %r, not one OverflowError" % (excs,))


# ---------------------------------------------------------------- values

# Python ints beyond sys.get_int_max_str_digits() (4300 decimal digits): str()/repr()/"%d" of them raise
# ValueError, so this harness only ever writes them in hex (no digit limit for power-of-two bases).
HUGE = [10 ** 4300, -(10 ** 4300), 10 ** 4300 - 1, 10 ** 6000, -(10 ** 6000), 2 ** 20000, -(2 ** 20000)]


def vtxt(v):
    """a value for the line protocol: decimal when short, else hex"""
    if v.bit_length() <= 512:
        return "%d" % v
    return "-0x%x" % -v if v < 0 else "0x%x" % v


def cval(v):
    """a value for a JSON-able case dict"""
    return v if v.bit_length() <= 512 else vtxt(v)


def huge_values(rng):
    out = list(HUGE)
    for sign in (1, -1):
        bits = rng.randint(14400, 30000)        # 2**14399 > 10**4300
        out.append(sign * (rng.getrandbits(bits) | (1 << (bits - 1))))
    return out

def sweep():
    s = set()
    for k in range(71):
        for sg in (1, -1):
            for d in range(-3, 4):
                s.add(sg * (1 << k) + d)
    return sorted(s)


def randoms(rng, n):
    out = []
    for _ in range(n):
        bits = rng.randint(1, 200)
        x = rng.getrandbits(bits) | (1 << (bits - 1))
        out.append(-x if rng.random() < 0.5 else x)
    return out


def near(te, v):
    for b in (te.lo, te.hi, -(1 << 63), (1 << 63), (1 << 64)):
        if abs(v - b) <= 3:
            return True
    return False


def nontrivial(te, v):
    return near(te, v) or v.bit_length() > 64


# ---------------------------------------------------------------- entry points

def translators(ctx):
    return [intmacros.translator(ctx), castexprs.translator(ctx)]


def compare_model(ctx, te, v, pat, obs, store_ans, cb_ans):
    case = {"type": te.name, "size": te.size, "kind": te.kind, "value": cval(v), "before": pat.hex()}
    # "ok A=<mem>,<res>,<read> B=<bytes|Err>"
    try:
        a_part, b_part = store_ans[3:].split(" ")
        mem, res, rd = a_part[2:].split(",")
        bres = b_part[2:]
    except ValueError:
        raise InfraError("unparsable driver answer %r" % store_ans)
    for path in A_PATHS:
        if path not in obs:
            continue
        r, b, readback, _ = obs[path]
        if r != res:
            ctx.disagree(dict(case, path=path), r, res, "outcome of the store")
        elif r == "ok" and (b.hex() != mem or str(readback) != rd):
            ctx.disagree(dict(case, path=path), (b.hex(), readback), (mem, rd), "bytes stored / value read back")
        elif r != "ok" and path in MEM_PATHS and b.hex() != mem:
            ctx.disagree(dict(case, path=path), b.hex(), mem, "memory after a rejected store")
    r, b, readback, _ = obs["arg-api"]
    got = b.hex() if r == "ok" else r
    if got != bres:
        ctx.disagree(dict(case, path="arg-api"), got, bres, "API-mode argument conversion")
    for path, ans in cb_ans.items():
        r, b, readback, _ = obs[path]
        if not ans.startswith("ok "):
            ctx.disagree(dict(case, path=path), (r, readback), ans, "callback result")
            continue
        slot, val = ans[3:].split(" ")
        if r != "ok" or b.hex() != slot[:2 * te.size] or str(readback) != val:
            ctx.disagree(dict(case, path=path), (r, b.hex(), readback), ans, "what the C caller of the callback received")


def explore(ctx, with_model, n_model_sample, n_random, full_sweep=True):
    w = build(ctx)
    rng = ctx.rng
    sw = sweep()
    lines, pending = [], []
    for te in w.types:
        vals = list(sw) if full_sweep else [v for v in sw if near(te, v) or rng.random() < 0.15]
        vals += randoms(rng, n_random)
        vals += huge_values(rng)        # every tier, every seed: beyond the int -> str digit limit
        focus = [v for v in vals if nontrivial(te, v) or abs(v) <= 2]
        rest = [v for v in vals if not (nontrivial(te, v) or abs(v) <= 2)]
        chosen = set(focus)
        chosen.update(rng.sample(rest, min(n_model_sample, len(rest))))
        for v in vals:
            pat = bytes(rng.getrandbits(8) for _ in range(te.size))
            obs = run_paths(te, v, pat)
            case = {"type": te.name, "value": cval(v), "before": pat.hex()}
            ctx.case((te.name, v) if nontrivial(te, v) else None, sample=case if nontrivial(te, v) else None)
            ctx.count("value:" + ("in-range" if te.in_range(v) else
                                  ">4300-digits" if abs(v) >= HUGE[0] else
                                  ">64-bit" if v.bit_length() > 64 else "out-of-range"))
            check_oracle(ctx, te, v, pat, obs)
            if with_model and v in chosen:
                i = len(lines)
                lines.append("store %d %s %s %s" % (te.size, te.kind, vtxt(v), pat.hex()))
                res0 = "%016x" % rng.getrandbits(64)
                lines.append("cb %d %s %s %d 1 %s" % (te.size, te.kind, vtxt(v), te.errval, res0))
                lines.append("cb %d %s %s none 1 %s" % (te.size, te.kind, vtxt(v), res0))
                lines.append("cb %d %s %s %d 0 %s" % (te.size, te.kind, vtxt(v), te.errval, res0))
                pending.append((te, v, pat, obs, i))
    common.log("C03: %d (type, value) pairs explored, %.1f s since start" % (ctx.evaluations, time.time() - ctx.t0))
    if with_model and lines:
        out = ctx.driver(lines)
        common.log("C03: driver answered %d lines, %.1f s since start" % (len(lines), time.time() - ctx.t0))
        ctx.count("model-lines", len(lines))
        for te, v, pat, obs, i in pending:
            compare_model(ctx, te, v, pat, obs, out[i],
                          {"callback": out[i + 1], "callback-noerr": out[i + 2], "extern-python": out[i + 3]})


def check_table(ctx):
    """The sizes/kinds the real ffi reports are the ones in the regenerated table (hence in the model's)."""
    w = build(ctx)
    text, _ = intmacros.generate(ctx.scratch)
    import re
    table = {m.group(1): (int(m.group(2)), m.group(3))
             for m in re.finditer(r'\("([^"]+)", (\d+), "(\w+)"\)', text)}
    names = {"s": "signed", "u": "unsigned", "b": "bool"}
    for te in w.types:
        if te.ffi_size != te.size:
            ctx.disagree({"type": te.name}, te.ffi_size, te.size, "ffi.sizeof vs gcc's sizeof")
        if te.is_enum:
            continue
        if table.get(te.name) != (te.size, names[te.kind]):
            ctx.disagree({"type": te.name}, (te.size, names[te.kind]), table.get(te.name),
                         "ffi.sizeof / signedness vs the regenerated primitive table")


def correspond(ctx):
    common.log("C03: proof stage done, %.1f s since start" % (time.time() - ctx.t0))
    check_table(ctx)
    common.log("C03: extension + library built, %.1f s since start" % (time.time() - ctx.t0))
    explore(ctx, True, ctx.n(40, 400), ctx.n(40, 400), full_sweep=True)


def search(ctx):
    explore(ctx, False, 0, ctx.n(400, 4000), full_sweep=True)


def replay(ctx, obj):
    case = obj["case"]
    w = build(ctx)
    te = [t for t in w.types if t.name == case["type"]][0]
    v = case["value"] if isinstance(case["value"], int) else int(case["value"], 0)
    pat = bytes.fromhex(case.get("before") or "00" * te.size)
    obs = run_paths(te, v, pat)
    n0 = len(ctx.failures)
    check_oracle(ctx, te, v, pat, obs)
    for k in sorted(obs):
        print("%-15s %r" % (k, obs[k]))
    for f in ctx.failures[n0:]:
        print("FAILS:", f["case"].get("path"), f["detail"])
    return 1 if len(ctx.failures) > n0 else 0
