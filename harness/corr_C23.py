"""C23 -- generated source is deterministic, idempotent and replaced atomically.

Theorems (lean/CffiVerif/Props/C23.lean) over the model of `_make_c_or_py_source`
(lean/CffiVerif/Model/AtomicWrite.lean): crash_safe, complete_run_installs_new,
same_content_no_ops, up_to_date_iff, identical_is_up_to_date_partial, tmp_name_differs_from_target,
identical_with_cr_not_up_to_date (finding witness), fallback_not_crash_safe (Windows-only
branch), render_perm_invariant, sortByKey_sorted_perm.

The statements of `_make_c_or_py_source` (try body, handler, rename fallback, read-back limit, returned
booleans, temp-name pattern) are re-extracted from recompiler.py on every run (translate/c23_atomic_write.py ->
Generated/AtomicWriteOps.lean); the model's operation sequence and up-to-date test are built from them.

Tie to the code and property oracles (all subprocesses run with PYTHONPATH = <rebuilt backend>:REPO/src):
  (i)   the real make_c_source / make_py_source run under strace: the sequence of system calls
        on the target and on any other path of the scenario directory must be the model's
        operation sequence; the return value and the final state must be the model's;
  (ii)  crash injection at every I/O boundary -- (a) Python level: open/read/write/close/
        os.rename/os.replace/os.unlink wrapped, the k-th step calls os._exit(9); (b) system-call
        level: strace delivers SIGKILL on entry of the k-th openat/write/close/rename/unlink --
        afterwards the target must hold the complete old or the complete new bytes (oracle),
        and the state must be the model's state after that prefix (correspondence);
  (iii) determinism: the same declarations generated in fresh processes under several
        PYTHONHASHSEED values, split over cdef() calls in different ways and cdef'd in different
        orders give byte-identical emit_c_code / emit_python_code text; regenerating identical
        content preserves the mtime and returns False; the order of the emitted name tables is
        the model's sortByKey; Python's text-mode read is the model's univNewlines.
"""
import ast
import io
import json
import locale
import os
import re
import shutil
import subprocess
import sys

import common
from common import InfraError

MANIFEST = {
    "text": "Kernel-checked theorems about a transition-system model of recompiler._make_c_or_py_source: after any "
            "prefix of its I/O operations (any crash point, any chunking of the write) the target path holds exactly "
            "the old file or the complete new text, an uninterrupted run installs the new text and removes the "
            "temporary file, an up-to-date target causes no mutating operation (content and mtime of every path "
            "unchanged, returns False), and generation modelled as render-after-sort-by-key is invariant under the "
            "insertion order of declarations with distinct keys. Tied to the code by comparing the real system-call "
            "sequence (strace) with the model's operations, by killing the real function at every Python-level and "
            "system-call-level I/O step and comparing the surviving file with the model's state, and by regenerating "
            "in fresh processes under different hash seeds, cdef chunkings and declaration orders. The statements of the "
            "function (try body, except-OSError handler, rename fallback, read-back limit, returned booleans, temp-name "
            "pattern) are re-extracted from recompiler.py on every run and the model's operation sequence and up-to-date "
            "test are built from them, so the theorems are re-checked against the source.",
    "note": "Modelled, not verified: rename(2) atomicity, O_TRUNC|O_CREAT semantics, no concurrent writer, durability "
            "without fsync is out of scope (crash = process death, not power loss). 'generation = render o sortByKey' "
            "is the modelling assumption validated by the determinism runs, render itself is uninterpreted. The "
            "Windows-only unlink+rename fallback is shown NOT crash safe in the model (fallback_not_crash_safe) and "
            "cannot be exercised on Linux.",
    "technique": "Lean 4 proof (transition system over a path->file map built from statements regenerated from the source, "
                 "List.Perm for sorting) + strace-based "
                 "operation-sequence correspondence + exhaustive crash injection + multi-process determinism runs",
}

RULE = ("scenarios = random cdef (2..8 declarations: functions, structs, unions, enums, typedefs, globals, #define) x "
        "target kind (C with random preamble incl. non-ASCII / Python) x old state of the target (absent, identical, "
        "identical with CRLF line ends, one character changed, one character longer, proper prefix, empty, unrelated); "
        "per scenario every I/O step is a crash point; determinism cases = (cdef, hash seed | chunking | permutation). "
        "non-trivial = the write path is taken or a crash point lies inside it / the run differs from the reference "
        "run in seed, chunking or order; distinct = distinct (scenario, crash point) resp. (cdef, variation)")

ASSUMPTIONS = ["POSIX rename(2) replaces the destination atomically; the Windows fallback (unlink, rename) is not exercised",
               "the old target, when present, is decodable in the locale encoding (otherwise UnicodeDecodeError propagates, nothing is written)",
               "a crash is the death of the process at a system-call / Python I/O-call boundary; no power loss, no concurrent writers",
               "strace (ptrace) is available in the sandbox"]

TRUSTED_EXTRA = ["strace 6.1 (system-call log and signal injection)"]

CLASSES = {
    # a '\r' in the generated text (it can only come from the C preamble): text-mode read-back translates it,
    # the comparison fails and the identical file is rewritten on every call
    "C23/carriage-return-in-output": lambda case: "\r" in (case.get("preamble") or ""),
    # an old file that differs from the generated text only in its line ends (CRLF / CR) compares equal in text
    # mode: it is reported up to date and kept, so the file is not the generated text
    "C23/newline-variant-old-kept": lambda case: case.get("old") in ("crlf", "cr-line-ends") and case.get("crash") == "none",
}


def translators(ctx):
    sys.path.insert(0, os.path.join(common.VERIF, "translate"))
    import c23_atomic_write
    return [c23_atomic_write.run]


def known_or_fail(ctx, case, detail):
    """The property fails at `case`; ctx.fail matches it against the classes listed in KNOWN_FINDINGS.jsonl."""
    r = ctx.fail(case, detail)
    if r == "known":
        for cls, pred in CLASSES.items():
            if pred(case):
                ctx.count("known:" + cls)
                break
    return r


# ------------------------------------------------------------------ the child process

CHILD = r'''
import builtins, io, json, os, sys
spec = json.load(open(sys.argv[1]))
import cffi
from cffi import recompiler

def build():
    ffi = cffi.FFI()
    for chunk in spec["chunks"]:
        ffi.cdef(chunk)
    return ffi

def mark(name):
    try:
        os.stat("/C23-MARK-" + name)
    except OSError:
        pass

result = {}
if spec["mode"] == "gen":
    ffi = build()
    f = io.StringIO(); recompiler.make_py_source(ffi, spec["modname"], f); result["py"] = f.getvalue()
    f = io.StringIO(); recompiler.make_c_source(ffi, spec["modname"], spec["preamble"] or "", f); result["c"] = f.getvalue()
else:
    ffi = build()
    target = spec["target"]
    sdir = os.path.dirname(target) + os.sep
    steps = []
    crash_at = None
    if spec["mode"] == "pycrash":
        def step(name):
            steps.append(name)
            if len(steps) == crash_at:
                os._exit(9)
        def relevant(p):
            return isinstance(p, str) and os.path.abspath(p).startswith(sdir)
        def cls(p):
            return "T" if os.path.abspath(p) == target else "M"
        class Proxy(object):
            def __init__(self, f, kind, c):
                self._f = f; self._kind = kind; self._c = c
            def read(self, *a):
                step("read:" + self._c); return self._f.read(*a)
            def write(self, s):
                step("write:" + self._c); return self._f.write(s)
            def close(self):
                step("close" + self._kind + ":" + self._c); return self._f.close()
            def __enter__(self):
                return self
            def __exit__(self, *a):
                self.close(); return False
            def __getattr__(self, n):
                return getattr(self._f, n)
        real_open = builtins.open
        def my_open(file, mode="r", *a, **kw):
            if not relevant(file):
                return real_open(file, mode, *a, **kw)
            kind = "r" if set(mode) <= set("rbtU") else ("w" if mode.replace("b", "").replace("t", "") == "w" else "[" + mode + "]")
            step("open" + kind + ":" + cls(file))
            return Proxy(real_open(file, mode, *a, **kw), kind, cls(file))
        builtins.open = my_open
        io.open = my_open
        def wrap2(name):
            real = getattr(os, name)
            def w(a, b, *r, **kw):
                if relevant(a) or relevant(b):
                    step("rename:" + cls(a) + ":" + cls(b))
                return real(a, b, *r, **kw)
            setattr(os, name, w)
        def wrap1(name):
            real = getattr(os, name)
            def w(a, *r, **kw):
                if relevant(a):
                    step("unlink:" + cls(a))
                return real(a, *r, **kw)
            setattr(os, name, w)
        wrap2("rename"); wrap2("replace"); wrap1("unlink"); wrap1("remove")
    def make():
        if spec["preamble"] is None:
            return recompiler.make_py_source(ffi, spec["modname"], target)
        return recompiler.make_c_source(ffi, spec["modname"], spec["preamble"], target)

    if spec["mode"] == "pycrash":
        # one forked process per crash point k = 1, 2, ...: the k-th I/O step calls os._exit(9);
        # the first process that survives tells how many steps there are
        import hashlib, shutil
        def look():
            names = sorted(os.listdir(sdir))
            if not os.path.exists(target):
                return {"exists": False, "others": names}
            data = real_open(target, "rb").read()
            return {"exists": True, "sha": hashlib.sha256(data).hexdigest(), "mtime": int(os.stat(target).st_mtime),
                    "others": [n for n in names if n != os.path.basename(target)]}
        points = []
        k = 0
        while True:
            k += 1
            for n in os.listdir(sdir):
                os.unlink(os.path.join(sdir, n))
            if spec["old_file"] is not None:
                shutil.copyfile(spec["old_file"], target)
                os.utime(target, (1000000000, 1000000000))
            del steps[:]                 # the clean-up above went through the wrappers
            pid = os.fork()
            if pid == 0:
                crash_at = k
                try:
                    ret = make()
                except BaseException as e:
                    sys.stderr.write("crash child %d: %r\n" % (k, e))
                    os._exit(3)
                with real_open(sys.argv[2] + ".steps", "w") as f:
                    json.dump({"steps": steps, "ret": bool(ret)}, f)
                os._exit(0)
            _, status = os.waitpid(pid, 0)
            code = os.waitstatus_to_exitcode(status)
            if code == 9:
                points.append(look())
            elif code == 0:
                result.update(json.load(real_open(sys.argv[2] + ".steps")))
                os.unlink(sys.argv[2] + ".steps")
                result["final"] = look()
                break
            else:
                sys.exit("crash child %d ended with %r" % (k, code))
            if k > 200:
                sys.exit("more than 200 I/O steps")
        result["points"] = points
    else:
        mark("begin")
        ret = make()
        mark("end")
        result["ret"] = bool(ret)
with open(sys.argv[2], "w") as f:
    json.dump(result, f)
'''


def child_env(hashseed="0"):
    import _cffi_backend
    env = dict(os.environ)
    backend_dir = os.path.dirname(sys.modules["_cffi_backend"].__file__)
    env["PYTHONPATH"] = backend_dir + os.pathsep + os.path.join(common.REPO, "src")
    env["PYTHONHASHSEED"] = str(hashseed)
    env["PYTHONDONTWRITEBYTECODE"] = "1"
    return env


class Runner:
    def __init__(self, ctx):
        self.ctx = ctx
        self.dir = os.path.join(ctx.scratch, "c23")
        os.makedirs(self.dir, exist_ok=True)
        self.child = os.path.join(self.dir, "child.py")
        with open(self.child, "w") as f:
            f.write(CHILD)
        self.n = 0

    def fresh(self, old_bytes, fname):
        self.n += 1
        d = os.path.join(self.dir, "s%d" % self.n)
        os.makedirs(d)
        target = os.path.join(d, fname)
        if old_bytes is not None:
            with open(target, "wb") as f:
                f.write(old_bytes)
            os.utime(target, (1000000000, 1000000000))
        return d, target

    def run(self, spec, hashseed="0", strace=None, timeout=120):
        """-> (returncode, result dict or None, strace text or None)"""
        self.n += 1
        specf = os.path.join(self.dir, "spec%d.json" % self.n)
        resf = os.path.join(self.dir, "res%d.json" % self.n)
        with open(specf, "w") as f:
            json.dump(spec, f)
        cmd = [common.PYTHON, self.child, specf, resf]
        tracef = None
        if strace is not None:
            tracef = os.path.join(self.dir, "trace%d.txt" % self.n)
            cmd = ["strace", "-f", "-o", tracef] + strace + cmd
        try:
            r = subprocess.run(cmd, env=child_env(hashseed), stdout=subprocess.PIPE, stderr=subprocess.PIPE,
                               timeout=timeout)
        except subprocess.TimeoutExpired:
            raise InfraError("child process timed out")
        res = None
        if os.path.exists(resf):
            res = json.load(open(resf))
            os.unlink(resf)
        os.unlink(specf)
        trace = None
        if tracef is not None:
            if not os.path.exists(tracef):
                raise InfraError("strace produced no log: " + r.stderr.decode("utf-8", "replace")[-500:])
            trace = open(tracef, errors="replace").read()
            os.unlink(tracef)
        if r.returncode not in (0, 9, -9, 137) or (r.returncode == 0 and res is None):
            raise InfraError("child failed (%d): %s" % (r.returncode, r.stderr.decode("utf-8", "replace")[-1500:]))
        return r.returncode, res, trace


# ------------------------------------------------------------------ cdef generator

PRIMS = ["int", "unsigned int", "long", "short", "char", "unsigned char", "long long", "double", "float", "size_t",
         "uint8_t", "int32_t", "uint64_t"]


def gen_decls(rng, n, independent=False):
    """n declarations; with independent=True no declaration refers to another one (any order is valid)"""
    out, structs = [], []
    for i in range(n):
        k = rng.choice(["func", "struct", "union", "enum", "typedef", "global", "define", "fnptr", "anon"])
        nm = "%s%d_%s" % (k[0], i, "".join(rng.choice("abXY_9") for _ in range(rng.randint(0, 3))))
        t = lambda: rng.choice(PRIMS)
        if k == "func":
            args = ", ".join(t() + rng.choice(["", " *", " a%d" % j]) for j in range(rng.randint(1, 3)))
            out.append("%s %s(%s%s);" % (rng.choice(["void", t(), t() + " *"]), nm, args, rng.choice(["", "", ", ..."])))
        elif k in ("struct", "union"):
            flds = []
            for j in range(rng.randint(1, 4)):
                r = rng.random()
                if r < 0.2:
                    flds.append("%s m%d : %d;" % (rng.choice(["int", "unsigned int"]), j, rng.randint(1, 9)))
                elif r < 0.4:
                    flds.append("%s m%d[%d];" % (t(), j, rng.randint(1, 4)))
                elif r < 0.55 and structs and not independent:
                    flds.append("%s *m%d;" % (rng.choice(structs), j))
                elif r < 0.65:
                    flds.append("%s %s *self%d;" % (k, nm, j))
                else:
                    flds.append("%s m%d;" % (t(), j))
            out.append("%s %s { %s };" % (k, nm, " ".join(flds)))
            structs.append("%s %s" % (k, nm))
        elif k == "enum":
            vals = ", ".join("%s_V%d%s" % (nm, j, rng.choice(["", " = %d" % rng.randint(-5, 300)]))
                             for j in range(rng.randint(1, 4)))
            out.append("enum %s { %s };" % (nm, vals))
        elif k == "typedef":
            if structs and not independent and rng.random() < 0.4:
                out.append("typedef %s %s%s;" % (rng.choice(structs), rng.choice(["", "*"]), nm))
            else:
                out.append("typedef %s %s%s;" % (t(), rng.choice(["", "*"]), nm))
        elif k == "global":
            out.append("extern %s %s;" % (t(), nm))
        elif k == "define":
            out.append("#define %s %s\n" % (nm, rng.choice(["42", "0x1F", "-3", "0", "1000000"])))
        elif k == "fnptr":
            out.append("typedef %s (*%s)(%s, void *);" % (t(), nm, t()))
        else:
            out.append("typedef struct { %s q; %s r[2]; } %s;" % (t(), t(), nm))
    return out


def gen_preamble(rng):
    parts = ["/* preamble */\n", "#include <stddef.h>\n", "static int helper(int x) { return x + 1; }\n",
             "/* éè 中文 */\n", "\t\n", "#define LOCAL 1\n", "// end", "\n\n"]
    return "".join(rng.choice(parts) for _ in range(rng.randint(0, 5)))


def reference(chunks, modname, preamble):
    """the text the in-process implementation generates"""
    import cffi
    from cffi import recompiler
    ffi = cffi.FFI()
    for c in chunks:
        ffi.cdef(c)
    f = io.StringIO()
    if preamble is None:
        recompiler.make_py_source(ffi, modname, f)
    else:
        recompiler.make_c_source(ffi, modname, preamble, f)
    return f.getvalue()


def enc(text):
    return ",".join(str(ord(c)) for c in text) or "-"


def dec(word):
    return "" if word == "-" else "".join(chr(int(x)) for x in word.split(","))


ENCODING = locale.getpreferredencoding(False)


def old_variants(new, i, cut):
    i, cut = i % len(new), cut % min(40, len(new) - 1)
    repl = "#" if new[i] != "#" else "%"
    return [("absent", None), ("identical", new), ("crlf", new.replace("\n", "\r\n")),
            ("one-char-changed", new[:i] + repl + new[i + 1:]), ("one-char-longer", new + "\n"),
            ("prefix", new[:len(new) - 1 - cut]), ("empty", ""),
            ("unrelated", "int main(void) { return 0; }\n"), ("cr-line-ends", new.replace("\n", "\r")),
            ("trailing-space", new + " "), ("leading-newline", "\n" + new), ("rstripped", new.rstrip()),
            ("tab-for-spaces", new.replace("    ", "\t", 1)), ("last-line-twice", new + new[new.rstrip("\n").rfind("\n") + 1:]),
            ("case-changed", new[:i] + new[i].swapcase() + new[i + 1:])]


# ------------------------------------------------------------------ strace parsing

_R_LINE = re.compile(r"^(\d+)\s+(\w+)\((.*)\)\s+=\s+(-?\d+|\?)(.*)$")
_R_STR = re.compile(r'"((?:[^"\\]|\\.)*)"')
TRACE_SET = "trace=%file,read,write,close,ftruncate"
KILL_SET = "openat,open,creat,write,close,rename,renameat,renameat2,unlink,unlinkat,ftruncate,truncate,link,linkat"
READONLY_CALLS = {"newfstatat", "stat", "lstat", "access", "faccessat", "faccessat2", "readlink", "readlinkat",
                  "statx", "getcwd", "chdir", "statfs", "execve"}


def unescape(s):
    return s.encode("latin-1", "backslashreplace").decode("unicode_escape").encode("latin-1").decode("utf-8", "replace")


def canonical_ops(trace, sdir, target):
    """System calls between the two marks that touch the scenario directory, in canonical form.
    -> (ops, complete) ; complete = the end mark was reached."""
    ops, fds = [], {}
    inside, complete = False, False

    def cls(p):
        return "T" if p == target else "M"

    for line in trace.split("\n"):
        if "/C23-MARK-begin" in line:
            inside = True
            continue
        if "/C23-MARK-end" in line:
            complete = True
            break
        if not inside:
            continue
        m = _R_LINE.match(line)
        if not m:
            continue
        _, call, args, ret, _ = m.groups()
        if ret == "?":
            continue                    # killed on entry: not executed
        paths = [unescape(p) for p in _R_STR.findall(args)]
        paths = [p for p in paths if p.startswith(sdir + os.sep)]
        ok = not ret.startswith("-")
        if call in ("openat", "open", "creat"):
            if not paths:
                continue
            flags = set(re.findall(r"O_[A-Z_]+", args)) - {"O_CLOEXEC", "O_LARGEFILE", "O_NOCTTY"}
            if flags == {"O_RDONLY"}:
                kind = "r"
            elif flags == {"O_WRONLY", "O_CREAT", "O_TRUNC"}:
                kind = "w"
            else:
                kind = "[" + "|".join(sorted(flags)) + "]"
            ops.append("open%s:%s" % (kind, cls(paths[0])))
            if ok:
                fds[int(ret)] = (kind, cls(paths[0]))
        elif call in ("read", "write", "close", "ftruncate", "pread64", "pwrite64"):
            fd = int(args.split(",")[0])
            if fd not in fds:
                continue
            kind, c = fds[fd]
            if call == "read":
                if not ops or ops[-1] != "read:" + c:
                    ops.append("read:" + c)
            elif call == "close":
                ops.append("close%s:%s" % (kind, c))
                del fds[fd]
            else:
                ops.append("%s:%s" % (call, c))
        elif call in ("rename", "renameat", "renameat2"):
            if paths:
                allp = [unescape(p) for p in _R_STR.findall(args)]
                ops.append("rename%s:%s:%s" % ("" if ok else "fail", cls(allp[0]) if allp[0].startswith(sdir) else "X",
                                               cls(allp[1]) if allp[1].startswith(sdir) else "X"))
        elif call in ("unlink", "unlinkat"):
            if paths:
                ops.append("unlink:" + cls(paths[0]))
        elif paths and call not in READONLY_CALLS:
            ops.append("%s:%s" % (call, cls(paths[0])))
    return ops, complete


def state_letter(target, old_bytes, new_bytes, old_mtime=1000000000):
    """what the target path holds, relative to before: O old (bytes and mtime), N new bytes, A absent, X other"""
    if not os.path.exists(target):
        return "O" if old_bytes is None else "A"
    data = open(target, "rb").read()
    if old_bytes is not None and data == old_bytes and int(os.stat(target).st_mtime) == old_mtime:
        return "O"
    if data == new_bytes:
        return "N"
    return "X"


# ------------------------------------------------------------------ parts (i) and (ii)

def model_plan(ctx, scen_lines):
    """[(old_text|None, new_text, nwrites)] -> [(ret, ops list, states string)]"""
    uniq = sorted(set(scen_lines), key=lambda t: (t[0] is None, t))
    lines = ["plan %s %s %d 1" % ("none" if o is None else enc(o), enc(n), k) for o, n, k in uniq]
    res = {}
    for key, o in zip(uniq, ctx.driver(lines)):
        m = re.match(r"ok ret=(\d) ops=(\S+) states=(\S+)$", o)
        if not m:
            raise InfraError("unexpected driver answer " + o[:200])
        res[key] = (m.group(1) == "1", m.group(2).split(","), m.group(3))
    return [res[k] for k in scen_lines]


def oracle_target(ctx, case, target, old_bytes, new_bytes, what):
    """The property's own statement at a crash point / after a run: complete old or complete new."""
    if not os.path.exists(target):
        if old_bytes is None:
            return "absent"
        known_or_fail(ctx, case, "%s: the target path no longer exists (it held %d bytes before)" % (what, len(old_bytes)))
        return "lost"
    data = open(target, "rb").read()
    if data == new_bytes:
        return "new"
    if old_bytes is not None and data == old_bytes:
        return "old"
    known_or_fail(ctx, case, "%s: the target holds %d bytes that are neither the old (%s) nor the new (%d) content"
                  % (what, len(data), "absent" if old_bytes is None else len(old_bytes), len(new_bytes)))
    return "torn"


def oracle_point(ctx, case, pt, old_bytes, new_bytes, what):
    """the same on the summary a crash loop reports; -> the state letter"""
    import hashlib
    if not pt["exists"]:
        if old_bytes is None:
            return "O"
        known_or_fail(ctx, case, "%s: the target path no longer exists (it held %d bytes before)" % (what, len(old_bytes)))
        return "A"
    if old_bytes is not None and pt["sha"] == hashlib.sha256(old_bytes).hexdigest():
        return "O" if pt["mtime"] == 1000000000 else ("N" if old_bytes == new_bytes else "X")
    if pt["sha"] == hashlib.sha256(new_bytes).hexdigest():
        return "N"
    known_or_fail(ctx, case, "%s: the target holds content that is neither the complete old nor the complete new text" % what)
    return "X"


def scenarios(ctx, nscen, with_cr=True):
    rng = ctx.rng
    out = []
    for i in range(nscen):
        chunks = gen_decls(rng, rng.randint(2, 8))
        is_c = rng.random() < 0.5
        preamble = gen_preamble(rng) if is_c else None
        if is_c and with_cr and i % 7 == 3:
            preamble += "int with_cr;\r\n"       # known finding class C23/carriage-return-in-output
        modname = "_c23_%s%d" % ("c" if is_c else "p", i)
        new = reference(chunks, modname, preamble)
        pos, cut = rng.randrange(1 << 20), rng.randrange(1 << 10)
        olds = old_variants(new, pos, cut)
        # every scenario gets 'absent'/'identical' in turn plus random others
        pick = [olds[i % 2]] + rng.sample(olds[2:], 1)
        for oname, old in pick:
            out.append({"chunks": chunks, "preamble": preamble, "modname": modname, "new": new,
                        "old_name": oname, "old": old, "pos": [pos, cut]})
    return out


def sweep(ctx, runner, sc):
    """In-process, every old state: identical content is left untouched and reported as not updated,
    anything else is replaced by the generated text (property oracle, no model)."""
    import cffi
    from cffi import recompiler
    new_bytes = sc["new"].encode(ENCODING)
    fname = sc["modname"] + (".py" if sc["preamble"] is None else ".c")
    for oname, old in old_variants(sc["new"], *sc["pos"]):
        old_bytes = None if old is None else old.encode(ENCODING)
        d, target = runner.fresh(old_bytes, fname)
        ffi = cffi.FFI()
        for c in sc["chunks"]:
            ffi.cdef(c)
        if sc["preamble"] is None:
            ret = recompiler.make_py_source(ffi, sc["modname"], target)
        else:
            ret = recompiler.make_c_source(ffi, sc["modname"], sc["preamble"], target)
        case = {"part": "write", "chunks": sc["chunks"], "preamble": sc["preamble"], "modname": sc["modname"],
                "old": oname, "pos": sc["pos"], "crash": "none"}
        ctx.case(("sweep", sc["modname"], oname) if old_bytes != new_bytes else None)
        ctx.count("i:sweep-old-" + oname)
        final = oracle_target(ctx, case, target, old_bytes, new_bytes, "after an uninterrupted in-process run")
        if old_bytes == new_bytes:
            if ret is not False or int(os.stat(target).st_mtime) != 1000000000:
                known_or_fail(ctx, case, "identical content was regenerated: returned %r, mtime %s"
                              % (ret, "preserved" if int(os.stat(target).st_mtime) == 1000000000 else "changed"))
        elif final == "old":
            known_or_fail(ctx, case, "the target differed from the generated text and was left as it was (returned %r)" % (ret,))
        elif final == "new" and ret is not True:
            known_or_fail(ctx, case, "the target was replaced but the function reported 'not updated'")
        leftovers = sorted(set(os.listdir(d)) - {fname})
        if leftovers:
            ctx.disagree(case, leftovers, [], "files left next to the target after an uninterrupted run")
        shutil.rmtree(d)


def run_scenarios(ctx, runner, scens, syscall_crash_every, oracle_only=False):
    plans_in, todo = [], []
    seen_mod = set()
    for si, sc in enumerate(scens):
        if sc["modname"] not in seen_mod:
            seen_mod.add(sc["modname"])
            sweep(ctx, runner, sc)
        new_bytes = sc["new"].encode(ENCODING)
        old_bytes = None if sc["old"] is None else sc["old"].encode(ENCODING)
        fname = sc["modname"] + (".py" if sc["preamble"] is None else ".c")
        base_case = {"part": "write", "chunks": sc["chunks"], "preamble": sc["preamble"], "modname": sc["modname"],
                     "old": sc["old_name"], "pos": sc["pos"]}
        spec = {"chunks": sc["chunks"], "preamble": sc["preamble"], "modname": sc["modname"]}

        # (i) complete run under strace
        d, target = runner.fresh(old_bytes, fname)
        rc, res, trace = runner.run(dict(spec, mode="make", target=target), strace=["-e", TRACE_SET])
        ops, complete = canonical_ops(trace, d, target)
        if rc != 0 or not complete:
            raise InfraError("strace run did not complete (rc=%s)" % rc)
        case = dict(base_case, crash="none")
        ctx.case(("run", si) if old_bytes != new_bytes else None, sample=case)
        ctx.count("i:old-" + sc["old_name"])
        final = oracle_target(ctx, case, target, old_bytes, new_bytes, "after an uninterrupted run")
        leftovers = sorted(set(os.listdir(d)) - {fname})
        if old_bytes == new_bytes:
            # idempotence, stated on the real file: identical content => untouched, reported as not updated
            st = os.stat(target)
            if res["ret"] is not False or int(st.st_mtime) != 1000000000:
                known_or_fail(ctx, case, "identical content was regenerated: returned %r, mtime %s"
                              % (res["ret"], "preserved" if int(st.st_mtime) == 1000000000 else "changed"))
        elif final == "new" and res["ret"] is not True:
            known_or_fail(ctx, case, "the target was replaced but the function reported 'not updated'")
        elif final == "old":
            # "replaced": after an uninterrupted regeneration the file is the generated text
            known_or_fail(ctx, case, "the target differed from the generated text and was left as it was (returned %r)"
                          % (res["ret"],))
        nwrites = max(1, sum(1 for o in ops if o.startswith("write:")))
        plans_in.append((sc["old"], sc["new"], nwrites))
        todo.append(("run", case, {"ops": ops, "ret": res["ret"], "final": state_letter(target, old_bytes, new_bytes),
                                   "leftovers": leftovers}))
        shutil.rmtree(d)

        # (ii-a) Python-level crash injection: one forked child per I/O step, the step calls os._exit(9)
        d, target = runner.fresh(old_bytes, fname)
        old_file = None
        if old_bytes is not None:
            old_file = os.path.join(runner.dir, "old.bin")
            with open(old_file, "wb") as f:
                f.write(old_bytes)
        rc, res, _ = runner.run(dict(spec, mode="pycrash", target=target, old_file=old_file))
        shutil.rmtree(d)
        steps = res["steps"]
        if len(res["points"]) != len(steps):
            raise InfraError("crash loop: %d crash points for %d steps" % (len(res["points"]), len(steps)))
        letters = []
        for k, pt in enumerate(res["points"], 1):
            case = dict(base_case, crash="python:%d/%d:%s" % (k, len(steps), steps[k - 1]))
            ctx.case(("py", si, k) if len(steps) > 3 else None, sample=None)
            ctx.count("ii:python-crash-points")
            letters.append(oracle_point(ctx, case, pt, old_bytes, new_bytes,
                                        "crash before Python I/O step %d (%s)" % (k, steps[k - 1])))
        plans_in.append((sc["old"], sc["new"], 1))
        todo.append(("steps", dict(base_case, crash="python-steps"), {"steps": steps, "letters": "".join(letters)}))

        # (ii-b) system-call-level crash injection
        if si % syscall_crash_every == 0:
            d, target = runner.fresh(old_bytes, fname)
            rc, res, trace = runner.run(dict(spec, mode="make", target=target),
                                        strace=["-e", "trace=newfstatat," + KILL_SET])
            shutil.rmtree(d)
            # strace counts `when=` per system call name: note, for every call of the write path,
            # its name and its ordinal among the calls of that name since process start
            counts, points = {}, []
            inside = False
            for line in trace.split("\n"):
                if "/C23-MARK-begin" in line:
                    inside = True
                    continue
                if "/C23-MARK-end" in line:
                    break
                m = re.match(r"^\d+\s+(%s)\(" % KILL_SET.replace(",", "|"), line)
                if m:
                    counts[m.group(1)] = counts.get(m.group(1), 0) + 1
                    if inside:
                        points.append((m.group(1), counts[m.group(1)]))
            n1 = len(points)
            for k, (name, ordinal) in enumerate(points, 1):
                d, target = runner.fresh(old_bytes, fname)
                rc, res, trace = runner.run(
                    dict(spec, mode="make", target=target),
                    strace=["-e", "trace=newfstatat,read," + KILL_SET,
                            "-e", "inject=%s:signal=SIGKILL:when=%d" % (name, ordinal)])
                if rc not in (-9, 137):
                    raise InfraError("SIGKILL injection at %s #%d did not kill the child (rc=%s)" % (name, ordinal, rc))
                ops, complete = canonical_ops(trace, d, target)
                case = dict(base_case, crash="syscall:%d/%d" % (k, n1))
                ctx.case(("sys", si, k), sample=None)
                ctx.count("ii:syscall-crash-points")
                oracle_target(ctx, case, target, old_bytes, new_bytes,
                              "SIGKILL on entry of system call %d of %d of the write path" % (k, n1))
                plans_in.append((sc["old"], sc["new"], nwrites))
                todo.append(("killed", case, {"ops": ops, "letter": state_letter(target, old_bytes, new_bytes)}))
                shutil.rmtree(d)
    if oracle_only:
        return
    plans = model_plan(ctx, plans_in)
    for (kind, case, obs), (mret, mops, mstates) in zip(todo, plans):
        if kind == "run":
            model = {"ops": mops, "ret": mret, "final": mstates[-1], "leftovers": []}
            if obs != model:
                ctx.disagree(case, obs, model, "complete run: system calls / return value / final state vs model")
        elif kind == "steps":
            # Python-level steps: open/read/close/open/write/close/rename = the model's operations with one chunk
            model = {"steps": mops, "letters": mstates[:len(mops)]}
            if obs != model:
                ctx.disagree(case, obs, model, "Python-level I/O steps and the state at each crash point vs model")
        else:
            # the killed run executed a prefix of the model's operations: same prefix, same state
            k = len(obs["ops"])
            if obs["ops"] != mops[:k] or obs["letter"] != mstates[k]:
                ctx.disagree(case, obs, {"ops": mops[:k], "letter": mstates[k] if k < len(mstates) else "?"},
                             "killed run: executed prefix and surviving state vs model")


# ------------------------------------------------------------------ part (iii)

def module_tables(pysrc):
    tree = ast.parse(pysrc)
    call = [n for n in ast.walk(tree) if isinstance(n, ast.Call) and getattr(n.func, "attr", "") == "FFI"][0]
    kw = {k.arg: ast.literal_eval(k.value) for k in call.keywords}
    tabs = {}
    tabs["globals"] = [g[4:].split(b"\0")[0] for g in kw.get("_globals", ())[0::2]]
    tabs["typenames"] = [t[4:] for t in kw.get("_typenames", ())]
    tabs["struct_unions"] = [s[0][8:] for s in kw.get("_struct_unions", ())]
    tabs["enums"] = [e[8:].split(b"\0")[0] for e in kw.get("_enums", ())]
    return tabs


def determinism(ctx, runner, ncdefs, seeds, oracle_only=False):
    rng = ctx.rng
    sort_lines, sort_expect = [], []
    for ci in range(ncdefs):
        independent = ci % 2 == 0
        decls = gen_decls(rng, rng.randint(3, 10), independent=independent)
        preamble = gen_preamble(rng)
        modname = "_c23_det%d" % ci
        ref = {"py": reference(["".join(d + "\n" for d in decls)], modname, None),
               "c": reference(["".join(d + "\n" for d in decls)], modname, preamble)}
        variations = [("seed=%s" % s, [d + "\n" for d in decls], s) for s in seeds]
        variations.append(("one-cdef", ["".join(d + "\n" for d in decls)], seeds[1]))
        cut = sorted(rng.sample(range(1, len(decls)), min(2, len(decls) - 1)))
        parts = [decls[:cut[0]]] + [decls[a:b] for a, b in zip(cut, cut[1:] + [len(decls)])]
        variations.append(("chunks=%s" % cut, ["".join(d + "\n" for d in p) for p in parts], seeds[2]))
        if independent:
            for _ in range(2):
                perm = decls[:]
                rng.shuffle(perm)
                variations.append(("permuted", [d + "\n" for d in perm], seeds[-1]))
        for name, chunks, seed in variations:
            case = {"part": "determinism", "decls": decls, "variation": name, "chunks": chunks, "preamble": preamble,
                    "modname": modname, "hashseed": seed}
            rc, res, _ = runner.run({"mode": "gen", "chunks": chunks, "preamble": preamble, "modname": modname},
                                    hashseed=seed)
            ctx.case((ci, name, seed), sample=case if name != "seed=0" else None)
            ctx.count("iii:" + name.split("=")[0])
            for k in ("py", "c"):
                if res[k] != ref[k]:
                    la, lb = ref[k].split("\n"), res[k].split("\n")
                    where = next((i for i, (x, y) in enumerate(zip(la, lb)) if x != y), min(len(la), len(lb)))
                    ctx.fail(case, "generated %s text differs from the reference generation at line %d: %r vs %r"
                             % (k, where + 1, la[where][:100] if where < len(la) else None,
                                lb[where][:100] if where < len(lb) else None))
        # idempotence in-process: identical content -> mtime preserved, returns False
        from cffi import recompiler
        import cffi
        for kind in ("py", "c"):
            d, target = runner.fresh(ref[kind].encode(ENCODING), modname + "." + kind)
            ffi = cffi.FFI()
            ffi.cdef("".join(x + "\n" for x in decls))
            if kind == "py":
                ret = recompiler.make_py_source(ffi, modname, target)
            else:
                ret = recompiler.make_c_source(ffi, modname, preamble, target)
            case = {"part": "idempotence", "decls": decls, "preamble": preamble if kind == "c" else None, "kind": kind}
            ctx.case(None)
            ctx.count("iii:idempotence")
            if ret is not False or int(os.stat(target).st_mtime) != 1000000000 or \
                    open(target, "rb").read() != ref[kind].encode(ENCODING):
                known_or_fail(ctx, case, "regenerating identical content: returned %r, mtime %s" % (
                    ret, "preserved" if int(os.stat(target).st_mtime) == 1000000000 else "changed"))
            shutil.rmtree(d)
        # the order of the emitted tables is the model's sortByKey over the declared names
        tabs = module_tables(ref["py"])
        for tname, names in tabs.items():
            if len(names) >= 2:
                shuffled = names[:]
                rng.shuffle(shuffled)
                sort_lines.append("sort " + " ".join(enc(n.decode("latin-1")) for n in shuffled))
                sort_expect.append(({"part": "sort", "table": tname, "names": [n.decode("latin-1") for n in shuffled]},
                                    [shuffled.index(n) for n in names]))
    # Python's universal-newline read vs the model's univNewlines
    univ = []
    for _ in range(20):
        t = "".join(rng.choice(["a", "\r", "\n", "\r\n", "b", " "]) for _ in range(rng.randint(0, 12)))
        d, target = runner.fresh(t.encode(), "u.txt")
        got = open(target, "r").read()
        shutil.rmtree(d)
        univ.append((t, got))
    if oracle_only:
        return
    out = ctx.driver(sort_lines + ["univ " + enc(t) for t, _ in univ])
    for o, (case, want) in zip(out, sort_expect):
        if o != "ok " + " ".join(map(str, want)):
            ctx.disagree(case, want, o, "order of an emitted name table vs sortByKey")
    for o, (t, got) in zip(out[len(sort_lines):], univ):
        if not o.startswith("ok ") or dec(o[3:]) != got:
            ctx.disagree({"part": "univ", "text": t}, got, o, "text-mode read vs univNewlines")


# ------------------------------------------------------------------ entry points

def correspond(ctx):
    runner = Runner(ctx)
    scens = scenarios(ctx, ctx.n(5, 40))
    run_scenarios(ctx, runner, scens, syscall_crash_every=ctx.n(5, 3))
    determinism(ctx, runner, ctx.n(3, 20), ["0", "1", "2", "3"] if ctx.quick else ["0", "1", "2", "3", "7", "99", "12345", "4294967295"])


def search(ctx):
    runner = Runner(ctx)
    scens = scenarios(ctx, ctx.n(12, 80), with_cr=False)
    run_scenarios(ctx, runner, scens, syscall_crash_every=2, oracle_only=True)
    determinism(ctx, runner, ctx.n(8, 40), ["0", "1", "2", "3", "7", "99"], oracle_only=True)


def check_witness(ctx, finding):
    import cffi
    from cffi import recompiler
    if finding["class"] not in CLASSES:
        return None
    runner = Runner(ctx)
    pre = "int x;\r\n" if finding["class"] == "C23/carriage-return-in-output" else "int x;\n"
    ffi = cffi.FFI()
    ffi.cdef("int f(int);")
    new = reference(["int f(int);"], "_c23_w", pre)
    old = new if finding["class"] == "C23/carriage-return-in-output" else new.replace("\n", "\r\n")
    d, target = runner.fresh(old.encode(ENCODING), "_c23_w.c")
    ret = recompiler.make_c_source(ffi, "_c23_w", pre, target)
    changed = int(os.stat(target).st_mtime) != 1000000000
    data = open(target, "rb").read()
    shutil.rmtree(d)
    if finding["class"] == "C23/carriage-return-in-output":
        return bool(ret) or changed            # identical content was rewritten
    return data != new.encode(ENCODING)        # the file is still not the generated text


def replay(ctx, obj):
    case = obj.get("case")
    if case is None:
        print("no failing input in this file; differences between model and implementation:")
        print(json.dumps(obj.get("theorems_or_correspondence_no_longer_checking"), indent=1)[:4000])
        return 1
    runner = Runner(ctx)
    if case["part"] in ("determinism",):
        ref = {"py": reference(["".join(d + "\n" for d in case["decls"])], case["modname"], None),
               "c": reference(["".join(d + "\n" for d in case["decls"])], case["modname"], case["preamble"])}
        rc, res, _ = runner.run({"mode": "gen", "chunks": case["chunks"], "preamble": case["preamble"],
                                 "modname": case["modname"]}, hashseed=case["hashseed"])
        same = all(res[k] == ref[k] for k in ("py", "c"))
        print("variation %s of %r: generated text %s" % (case["variation"], case["decls"],
                                                         "identical" if same else "DIFFERS"))
        return 0 if same else 1
    if case["part"] == "idempotence":
        import cffi
        from cffi import recompiler
        src = "".join(x + "\n" for x in case["decls"])
        new = reference([src], "_c23_r", case["preamble"])
        d, target = runner.fresh(new.encode(ENCODING), "_c23_r." + case["kind"])
        ffi = cffi.FFI()
        ffi.cdef(src)
        ret = (recompiler.make_py_source(ffi, "_c23_r", target) if case["preamble"] is None else
               recompiler.make_c_source(ffi, "_c23_r", case["preamble"], target))
        changed = int(os.stat(target).st_mtime) != 1000000000
        print("regenerating identical content: returned %r, mtime %s" % (ret, "changed" if changed else "preserved"))
        return 1 if (ret or changed) else 0
    # a write scenario, possibly with a crash point
    new = reference(case["chunks"], case["modname"], case["preamble"])
    old = dict(old_variants(new, *case["pos"])).get(case["old"])
    new_bytes = new.encode(ENCODING)
    old_bytes = None if old is None else old.encode(ENCODING)
    fname = case["modname"] + (".py" if case["preamble"] is None else ".c")
    spec = {"chunks": case["chunks"], "preamble": case["preamble"], "modname": case["modname"]}
    d, target = runner.fresh(old_bytes, fname)
    crash = case.get("crash", "none")
    if crash.startswith("python:"):
        k = int(crash.split(":")[1].split("/")[0])
        old_file = None
        if old_bytes is not None:
            old_file = os.path.join(runner.dir, "old.bin")
            with open(old_file, "wb") as f:
                f.write(old_bytes)
        rc, res, _ = runner.run(dict(spec, mode="pycrash", target=target, old_file=old_file))
        import hashlib
        bad = 0
        for i, pt in enumerate(res["points"], 1):
            ok = (not pt["exists"] and old_bytes is None) or (pt["exists"] and pt["sha"] in (
                hashlib.sha256(new_bytes).hexdigest(), old_bytes is not None and hashlib.sha256(old_bytes).hexdigest()))
            print("crash before step %d (%s): target %s" % (i, res["steps"][i - 1], "old or new" if ok else
                                                            ("LOST" if not pt["exists"] else "TORN")))
            bad |= not ok
        return 1 if bad else 0
    elif crash.startswith("syscall:"):
        print("(system-call crash points are replayed as the complete run plus every Python-level point)")
        rc, res, _ = runner.run(dict(spec, mode="make", target=target))
    else:
        rc, res, _ = runner.run(dict(spec, mode="make", target=target))
    letter = state_letter(target, old_bytes, new_bytes)
    print("old=%s crash=%s -> child rc=%s result=%s; target now holds: %s" % (
        case["old"], crash, rc, res and res.get("ret"),
        {"O": "the old file (untouched)", "N": "the new content", "A": "NOTHING (file lost)", "X": "TORN content"}[letter]))
    bad = letter in ("A", "X")
    if crash == "none" and old_bytes == new_bytes and (res["ret"] or letter != "O"):
        bad = True
    if crash == "none" and old_bytes != new_bytes and letter != "N":
        bad = True           # an uninterrupted regeneration must leave the generated text
    return 1 if bad else 0
