"""C05 -- floating-point and complex stores round-trip with C conversion semantics
(partial: the FPU is external).

Theorems (lean/CffiVerif/Props/C05.lean) are about the specification of the two C
conversions on bit patterns (Spec/Ieee.lean: narrow = (float)d, widen = (double)f)
and about the model of cffi's store/read paths (Model/FloatStore.lean).

Tie to the code, per case (a binary64 bit pattern, a pair for the complex types, a
16-byte long double image, a character ordinal):
  * the implementation: every store path (ffi.new, item, list initialiser, field,
    field initialiser, ffi.cast, object with __float__ / __index__, complex parts)
    observed as *bytes* through ffi.buffer and as the bit pattern of what is read back;
  * the property oracle (no Lean): gcc's own `(float)d` / `(double)f`
    (csrc/c05_oracle.c) and, for non-NaN values, CPython's struct.pack('<f');
  * the Lean model/spec through the driver.
Floats are never compared as text or with ==, only as bit patterns.
"""
import ctypes
import os
import struct
import sys

import common
from common import InfraError

MANIFEST = {
    "text": "Kernel-checked theorems about an executable bit-level specification of the C conversions binary64->binary32 "
            "(round-to-nearest-even, overflow to infinity, gradual underflow, NaN quieting) and binary32->binary64: "
            "narrow(widen b) = b for every non-NaN 32-bit pattern (NaN stays NaN), widening keeps the rational value, "
            "narrowing keeps sign/infinity/NaN-ness and is monotone; on the model of cffi's store paths: float/double "
            "store-then-read, complex types stored part by part, long double copies keep their 10 value bytes. "
            "The specification is compared with the compiler/FPU and the model with every cffi store path on random and "
            "edge bit patterns, byte for byte.",
    "note": "Partial: that the hardware computes Ieee.narrow/Ieee.widen is validated by running (gcc cast helper, "
            "struct.pack), not derived; x87 long double is an opaque 16-byte object whose 6 padding bytes are excluded; "
            "PyFloat_AsDouble / PyComplex_AsCComplex (int->double, __float__ dispatch) are CPython's and trusted.",
    "technique": "Lean 4 proof (case analysis on exponent ranges over Nat bit fields, omega; store-path theorems over the "
                 "size dispatch and flag tests re-extracted from the C source on every run) + three-way differential "
                 "correspondence cffi / Lean spec / gcc-compiled cast and struct.pack",
}

RULE = ("binary64 bit patterns: uniform 64-bit; exponent drawn around the binary32 limits (underflow 860..910, overflow "
        "1140..1160, 0, 2047); fractions with forced rounding ties / one-off-tie / all-ones carries at the normal (29 bit) and "
        "the subnormal (926-e bit) shift; fixed edge table; pairs of those for the complex types at each array slot; random "
        "16-byte long double images (10 value + 6 padding bytes); character ordinals. A case is non-trivial when narrowing is "
        "inexact, overflows, underflows, produces a subnormal, or the value is an infinity/NaN; distinct = distinct patterns")
ASSUMPTIONS = ["x86-64 SSE2 cvtsd2ss/cvtss2sd in the default rounding mode (MXCSR untouched by the process)",
               "CPython float objects carry their binary64 pattern unchanged through struct.unpack/pack('<d') and PyFloat_AsDouble",
               "x87 fld/fstp of an 80-bit operand moves the 10 bytes unchanged"]
TRUSTED_EXTRA = ["csrc/c05_oracle.c compiled by gcc: the C conversion the property refers to"]
CLASSES = {}

CDEF = """
struct c05_s { char c; float f; double d; long double ld; float _Complex fc; double _Complex dc; };
"""

_state = {}


def _setup(ctx):
    if "ffi" in _state:
        return _state
    import cffi
    ffi = cffi.FFI()
    ffi.cdef(CDEF)
    so = os.path.join(ctx.scratch, "c05_oracle.so")
    if not os.path.exists(so):
        common.compile_shared(os.path.join(common.VERIF, "csrc/c05_oracle.c"), so)
    lib = ctypes.CDLL(so)
    lib.c05_narrow.argtypes = [ctypes.c_uint64]
    lib.c05_narrow.restype = ctypes.c_uint32
    lib.c05_widen.argtypes = [ctypes.c_uint32]
    lib.c05_widen.restype = ctypes.c_uint64
    if lib.c05_sizeof_long_double() != 16 or ffi.sizeof("long double") != 16:
        raise InfraError("long double is not the 16-byte x87 type this check models")
    sys.path.insert(0, os.path.join(common.VERIF, "translate"))
    import c05_exprs
    abi = {"float": lib.c05_sizeof_float(), "double": lib.c05_sizeof_double(), "long double": lib.c05_sizeof_long_double()}
    if abi != c05_exprs.SIZEOF:
        raise InfraError("sizeof of the floating types %r differs from the ABI parameters of the translator %r"
                         % (abi, c05_exprs.SIZEOF))
    _state.update(ffi=ffi, lib=lib,
                  off_f=ffi.offsetof("struct c05_s", "f"), off_d=ffi.offsetof("struct c05_s", "d"),
                  off_ld=ffi.offsetof("struct c05_s", "ld"), off_fc=ffi.offsetof("struct c05_s", "fc"),
                  off_dc=ffi.offsetof("struct c05_s", "dc"))
    return _state


def f_of(bits):
    return struct.unpack("<d", struct.pack("<Q", bits))[0]


def bits_of(v):
    return struct.unpack("<Q", struct.pack("<d", v))[0]


def is_nan64(x):
    return (x >> 52) & 0x7ff == 0x7ff and x & ((1 << 52) - 1) != 0


def is_nan32(b):
    return (b >> 23) & 0xff == 0xff and b & ((1 << 23) - 1) != 0


class HasFloat(object):
    def __init__(self, v):
        self.v = v

    def __float__(self):
        return self.v


class HasIndex(object):
    def __init__(self, n):
        self.n = n

    def __index__(self):
        return self.n


# ---------------------------------------------------------------- oracles

def c_narrow(st, x):
    """(float)d by the compiler; cross-checked with struct.pack('<f') for non-NaN."""
    r = st["lib"].c05_narrow(x)
    if not is_nan64(x):
        try:
            py = struct.unpack("<I", struct.pack("<f", f_of(x)))[0]
        except OverflowError:
            py = ((x >> 63) << 31) | 0x7f800000      # C gives the infinity where struct refuses
        if py != r:
            raise InfraError("the two C oracles disagree at %#x: gcc %#x, struct.pack %#x" % (x, r, py))
    return r


def c_widen(st, b):
    r = st["lib"].c05_widen(b)
    if not is_nan32(b):
        py = bits_of(struct.unpack("<f", struct.pack("<I", b))[0])
        if py != r:
            raise InfraError("the two C oracles disagree at float %#x: gcc %#x, struct.unpack %#x" % (b, r, py))
    return r


def region(x):
    e = (x >> 52) & 0x7ff
    m = x & ((1 << 52) - 1)
    if e == 0x7ff:
        return "inf" if m == 0 else ("nan-quiet" if m >> 51 else "nan-signalling")
    if e == 0:
        return "zero" if m == 0 else "double-subnormal"
    if e >= 1151:
        return "overflow"
    if e >= 897:
        low = m & ((1 << 29) - 1)
        if low == 0:
            return "normal-exact"
        if low == 1 << 28:
            return "normal-tie"
        if e == 1150 and (m >> 29) == (1 << 23) - 1 and low > (1 << 28):
            return "round-up-to-inf"
        return "normal-inexact"
    if e < 873:
        return "underflow-to-zero"
    sh = 926 - e
    low = ((1 << 52) | m) & ((1 << sh) - 1)
    if low == 0:
        return "subnormal-exact"
    if low == 1 << (sh - 1):
        return "subnormal-tie"
    return "subnormal-inexact"


# ---------------------------------------------------------------- generators

EDGE_E = [0, 1, 2, 872, 873, 874, 875, 876, 880, 895, 896, 897, 898, 1000, 1022, 1023, 1024, 1149, 1150, 1151, 1152,
          2045, 2046, 2047]
EDGE_M = [0, 1, 2, (1 << 28) - 1, 1 << 28, (1 << 28) + 1, 1 << 29, (1 << 29) | (1 << 28), (3 << 28) + 1, (3 << 28) - 1,
          (1 << 52) - 1, (1 << 52) - (1 << 28), (1 << 52) - (1 << 28) - 1, (1 << 52) - (1 << 28) + 1, (1 << 52) - (1 << 29),
          1 << 51, (1 << 51) + 1, (1 << 51) - 1, 1 << 50, 1 << 22, (1 << 29) - 1, 0x000fffffe0000000, 0x000fffffefffffff,
          0x000ffffff0000000]


def edge_patterns():
    out = []
    for e in EDGE_E:
        for m in EDGE_M:
            for s in (0, 1):
                out.append((s << 63) | (e << 52) | m)
    return out


def gen_pattern(rng):
    r = rng.random()
    s = rng.getrandbits(1) << 63
    if r < 0.15:
        return rng.getrandbits(64)
    if r < 0.25:     # ordinary magnitudes, random fraction
        return s | (rng.randint(897, 1150) << 52) | rng.getrandbits(52)
    if r < 0.45:     # normal range: ties and near ties at bit 28
        hi = rng.getrandbits(23) << 29
        if rng.random() < 0.3:
            hi = ((1 << 23) - 1 - rng.choice((0, 1, 2))) << 29
        low = rng.choice((1 << 28, (1 << 28) + 1, (1 << 28) - 1, 0, 1, (1 << 29) - 1, rng.getrandbits(29)))
        e = rng.choice((897, 898, 1023, 1149, 1150, rng.randint(897, 1150)))
        return s | (e << 52) | hi | low
    if r < 0.75:     # gradual underflow: ties and near ties at the variable shift
        e = rng.randint(870, 897)
        sh = max(926 - e, 1)
        sig = (1 << 52) | rng.getrandbits(52)
        q = sig >> sh << sh if sh < 53 else 0
        low = rng.choice((1 << (sh - 1), (1 << (sh - 1)) + 1, (1 << (sh - 1)) - 1, 0, 1, (1 << sh) - 1,
                          rng.getrandbits(sh)))
        sig = (q | low) & ((1 << 53) - 1) | (1 << 52)
        return s | (e << 52) | (sig & ((1 << 52) - 1))
    if r < 0.85:     # around overflow
        return s | (rng.randint(1140, 1160) << 52) | rng.getrandbits(52)
    if r < 0.93:     # NaNs, infinities, zeros, double subnormals
        k = rng.random()
        if k < 0.6:
            return s | (0x7ff << 52) | (rng.getrandbits(52) >> rng.choice((0, 0, 1, 23, 29, 30, 40, 51)))
        if k < 0.7:
            return s | (0x7ff << 52)
        if k < 0.8:
            return s
        return s | rng.getrandbits(52)
    # far underflow / huge
    return s | (rng.choice((rng.randint(1, 872), rng.randint(1161, 2046))) << 52) | rng.getrandbits(52)


# ---------------------------------------------------------------- one scalar case

def le(n, v):
    return v.to_bytes(n, "little")


def impl_scalar(st, x):
    """Every float/double store path; returns {observation name: bytes or int}."""
    ffi = st["ffi"]
    X = f_of(x)
    if bits_of(X) != x:
        raise InfraError("python float does not carry the pattern %#x" % x)
    obs = {}
    for T, n, off in (("float", 4, st["off_f"]), ("double", 8, st["off_d"])):
        fld = "f" if n == 4 else "d"
        p = ffi.new(T + "*", X)
        obs[T + ":new"] = bytes(ffi.buffer(p))
        obs[T + ":read"] = bits_of(p[0])
        a = ffi.new(T + "[3]")
        a[1] = X
        obs[T + ":item"] = bytes(ffi.buffer(a))
        obs[T + ":item-read"] = bits_of(a[1])
        a = ffi.new(T + "[]", [X, 0.0])
        obs[T + ":list"] = bytes(ffi.buffer(a))[:n]
        s = ffi.new("struct c05_s *")
        setattr(s, fld, X)
        obs[T + ":field"] = bytes(ffi.buffer(s))[off:off + n]
        obs[T + ":field-read"] = bits_of(getattr(s, fld))
        s = ffi.new("struct c05_s *", {fld: X})
        obs[T + ":field-init"] = bytes(ffi.buffer(s))[off:off + n]
        c = ffi.cast(T, X)
        obs[T + ":cast-read"] = bits_of(float(c))
        q = ffi.new(T + "*", c)
        obs[T + ":cast-store"] = bytes(ffi.buffer(q))
        q = ffi.new(T + "*", HasFloat(X))
        obs[T + ":__float__"] = bytes(ffi.buffer(q))
        c = ffi.cast(T, HasFloat(X))
        obs[T + ":cast-__float__"] = bits_of(float(c))
    return obs


def expect_scalar(st, x):
    nar = c_narrow(st, x)
    back = c_widen(st, nar)
    nar2 = c_narrow(st, back)
    exp = {}
    for T, n, stored, rd, again in (("float", 4, nar, back, nar2), ("double", 8, x, x, x)):
        b = le(n, stored)
        exp[T + ":new"] = b
        exp[T + ":read"] = rd
        exp[T + ":item"] = bytes(n) + b + bytes(n)
        exp[T + ":item-read"] = rd
        exp[T + ":list"] = b
        exp[T + ":field"] = b
        exp[T + ":field-read"] = rd
        exp[T + ":field-init"] = b
        exp[T + ":cast-read"] = rd
        exp[T + ":cast-store"] = le(n, again)
        exp[T + ":__float__"] = b
        exp[T + ":cast-__float__"] = rd
    return exp


def show(v):
    return v.hex() if isinstance(v, bytes) else "%#x" % v


def showc(v):
    return v.hex() if isinstance(v, bytes) else "(%#x, %#x)" % v


def scalar_case(ctx, st, x, lines, expect, oracle_only=False):
    case = {"kind": "scalar", "x": x}
    reg = region(x)
    ctx.count("scalar:" + reg)
    ctx.case(("s", x) if reg not in ("normal-exact", "zero") else None, sample=case)
    obs = impl_scalar(st, x)
    exp = expect_scalar(st, x)
    bad = [k for k in exp if obs[k] != exp[k]]
    if bad:
        k = bad[0]
        ctx.fail(case, "double %#018x (%s) via %s: cffi has %s, the C conversion gives %s (%d paths differ)"
                 % (x, reg, k, show(obs[k]), show(exp[k]), len(bad)))
    if not oracle_only:
        lines.append("store 4 %d" % x)
        expect.append((case, "ok %s %d" % (obs["float:new"].hex(), obs["float:read"]), "float store/read"))
        lines.append("store 8 %d" % x)
        expect.append((case, "ok %s %d" % (obs["double:new"].hex(), obs["double:read"]), "double store/read"))
    return not bad


# ---------------------------------------------------------------- complex

def impl_complex(st, T, n, off, re, im, slot):
    ffi = st["ffi"]
    Z = complex(f_of(re), f_of(im))
    if bits_of(Z.real) != re or bits_of(Z.imag) != im:
        raise InfraError("python complex does not carry the patterns")
    obs = {}
    a = ffi.new(T + "[3]")
    a[slot] = Z
    obs["item"] = bytes(ffi.buffer(a))
    w = a[slot]
    obs["item-read"] = (bits_of(w.real), bits_of(w.imag))
    p = ffi.new(T + "*", Z)
    obs["new"] = bytes(ffi.buffer(p))
    s = ffi.new("struct c05_s *")
    setattr(s, "fc" if n == 8 else "dc", Z)
    obs["field"] = bytes(ffi.buffer(s))[off:off + n]
    c = ffi.cast(T, Z)
    w = complex(c)
    obs["cast-read"] = (bits_of(w.real), bits_of(w.imag))
    p = ffi.new(T + "*", f_of(re))         # a plain float: imaginary part +0.0
    obs["real-only"] = bytes(ffi.buffer(p))
    return obs


def complex_case(ctx, st, re, im, size, slot, lines, expect, oracle_only=False):
    T = "float _Complex" if size == 8 else "double _Complex"
    half = size // 2
    off = st["off_fc"] if size == 8 else st["off_dc"]
    case = {"kind": "complex", "re": re, "im": im, "size": size, "slot": slot}
    ctx.count("complex:%d" % size)
    ctx.case(("c", size, re, im), sample=case)
    obs = impl_complex(st, T, size, off, re, im, slot)
    if half == 4:
        sr, si = c_narrow(st, re), c_narrow(st, im)
        rr, ri = c_widen(st, sr), c_widen(st, si)
    else:
        sr, si, rr, ri = re, im, re, im
    parts = le(half, sr) + le(half, si)
    exp = {"item": bytes(size * slot) + parts + bytes(size * (2 - slot)), "item-read": (rr, ri), "new": parts,
           "field": parts, "cast-read": (rr, ri), "real-only": le(half, sr) + bytes(half)}
    bad = [k for k in exp if obs[k] != exp[k]]
    if bad:
        k = bad[0]
        ctx.fail(case, "%s (%#x, %#x) via %s: cffi has %s, storing each part with the C conversion gives %s"
                 % (T, re, im, k, showc(obs[k]), showc(exp[k])))
    if not oracle_only:
        lines.append("cplx %d %d %d %d %d" % (size, size * slot, 3 * size, re, im))
        expect.append((case, "ok %s %d %d" % (obs["item"].hex(), obs["item-read"][0], obs["item-read"][1]),
                       "complex store/read"))
    return not bad


# ---------------------------------------------------------------- long double

def impl_ld(st, blob):
    ffi = st["ffi"]
    src = ffi.new("long double *")
    ffi.buffer(src)[:] = blob
    obs = {}
    v = src[0]                                   # convert_to_object: a new cdata
    dst = ffi.new("long double *", v)            # convert_from_object
    obs["item+new"] = bytes(ffi.buffer(dst))[:10]
    c = ffi.cast("long double", v)               # do_cast
    dst = ffi.new("long double *", c)
    obs["cast"] = bytes(ffi.buffer(dst))[:10]
    a = ffi.new("long double[3]")
    a[1] = v
    b = bytes(ffi.buffer(a))
    obs["array-item"] = b[16:26]
    obs["array-neighbours"] = b[:16] + b[32:]
    s = ffi.new("struct c05_s *")
    s.ld = c
    obs["field"] = bytes(ffi.buffer(s))[st["off_ld"]:st["off_ld"] + 10]
    w = s.ld
    a = ffi.new("long double[]", [w, v])
    b = bytes(ffi.buffer(a))
    obs["field-read+list"] = b[:10] + b[16:26]
    obs["src-untouched"] = bytes(ffi.buffer(src))
    return obs


def ld_case(ctx, st, blob, lines, expect, oracle_only=False):
    case = {"kind": "ld", "blob": blob.hex()}
    ctx.count("longdouble")
    ctx.case(("ld", blob[:10]), sample=case)
    obs = impl_ld(st, blob)
    v = blob[:10]
    exp = {"item+new": v, "cast": v, "array-item": v, "array-neighbours": bytes(32), "field": v,
           "field-read+list": v + v, "src-untouched": blob}
    bad = [k for k in exp if obs[k] != exp[k]]
    if bad:
        k = bad[0]
        ctx.fail(case, "long double %s via %s: value bytes became %s" % (v.hex(), k, obs[k].hex()))
    if not oracle_only:
        junk = blob[10:].hex()
        for path, key in (("item", "item+new"), ("new", "item+new"), ("cast", "cast")):
            lines.append("ld %s %s %s" % (path, blob.hex(), junk))
            expect.append((case, "ok " + obs[key].hex(), "long double copy (%s)" % path))
    return not bad


def ld_exact_case(ctx, st, x):
    """double -> long double -> double is exact in C (oracle only)."""
    ffi = st["ffi"]
    case = {"kind": "ld-exact", "x": x}
    ctx.count("double-via-longdouble")
    ctx.case(None)
    got = bits_of(float(ffi.cast("long double", f_of(x))))
    p = ffi.new("long double *", f_of(x))
    got2 = bits_of(float(p[0]))
    if is_nan64(x):
        ok = is_nan64(got) and is_nan64(got2)
    else:
        ok = got == x and got2 == x
    if not ok:
        ctx.fail(case, "double %#x through long double came back as %#x / %#x" % (x, got, got2))
    return ok


# ---------------------------------------------------------------- ordinals and rejected inputs

def ord_case(ctx, st, n, lines, expect, oracle_only=False):
    ffi = st["ffi"]
    case = {"kind": "ord", "n": n}
    ctx.count("ordinal")
    ctx.case(("o", n), sample=case)
    want = bits_of(float(n))
    got = {}
    for T in ("float", "double"):
        got[T + ":str"] = bits_of(float(ffi.cast(T, chr(n))))
        if n < 256:
            got[T + ":bytes"] = bits_of(float(ffi.cast(T, bytes([n]))))
    bad = [k for k in got if got[k] != want]
    if bad:
        ctx.fail(case, "1-character value %d cast via %s gives %#x, (double)%d is %#x" % (n, bad[0], got[bad[0]], n, want))
    stored = {}
    for T in ("float", "double"):
        stored[T] = bytes(ffi.buffer(ffi.new(T + "*", ffi.cast(T, chr(n)))))
        wantb = le(4, c_narrow(st, want)) if T == "float" else le(8, want)
        if stored[T] != wantb and not bad:
            ctx.fail(case, "1-character str %d cast to %s and stored: %s, the C conversion gives %s"
                     % (n, T, stored[T].hex(), wantb.hex()))
            bad = ["stored"]
    if not oracle_only:
        for T, nb in (("float", 4), ("double", 8)):
            lines.append("castchar %d str 1 %d" % (nb, n))
            expect.append((case, "ok " + stored[T].hex(), "ffi.cast(%s, 1-char str)" % T))
            if n < 256:
                lines.append("castchar %d bytes 1 %d" % (nb, n))
                expect.append((case, "ok " + stored[T].hex(), "ffi.cast(%s, 1-byte bytes)" % T))
        lines.append("ord %d" % n)
        expect.append((case, "ok %d" % got["double:str"], "ordinal to double"))
        lines.append("store 4 %d" % want)
        expect.append((case, "ok %s %d" % (le(4, c_narrow(st, want)).hex(), got["float:str"]), "ordinal to float"))
    return not bad


def rejected_inputs(ctx, st, lines=None, expect=None):
    """What the float store paths must refuse (exception types only)."""
    ffi = st["ffi"]
    if lines is not None:
        for T, nb in (("float", 4), ("double", 8)):
            for kind, arg, ln in (("bytes", b"AB", 2), ("bytes", b"", 0), ("str", "AB", 2), ("str", "", 0)):
                try:
                    ffi.cast(T, arg)
                    got = "ok"
                except Exception as e:      # noqa
                    got = "err " + type(e).__name__
                lines.append("castchar %d %s %d 65" % (nb, kind, ln))
                expect.append(({"kind": "rejected", "name": "cast-%s-%s-%d" % (T, kind, ln)}, got, "rejected cast"))
    table = [
        ("new-bytes", lambda: ffi.new("float *", b"A"), TypeError),
        ("new-str", lambda: ffi.new("double *", "A"), TypeError),
        ("new-huge-int", lambda: ffi.new("float *", 10 ** 400), OverflowError),
        ("cast-2-bytes", lambda: ffi.cast("float", b"AB"), TypeError),
        ("cast-empty-str", lambda: ffi.cast("double", ""), TypeError),
        ("cast-none", lambda: ffi.cast("double", None), TypeError),
        ("new-complex-into-float", lambda: ffi.new("float *", 1j), TypeError),
        ("cast-pointer", lambda: ffi.cast("float", ffi.new("int *")), TypeError),
    ]
    for name, fn, want in table:
        case = {"kind": "rejected", "name": name}
        ctx.count("rejected")
        ctx.case(None)
        try:
            r = fn()
            got = None
        except Exception as e:      # noqa
            got = type(e)
        if got is not want:
            ctx.fail(case, "%s: expected %s, got %s" % (name, want.__name__, got.__name__ if got else "a value"))
    # int and __index__ objects are converted by CPython exactly like float(n)
    for n in (0, 1, -1, 7, 2 ** 24 + 1, 2 ** 53 + 1, -(2 ** 63), 2 ** 64 - 1, 2 ** 127 + 2 ** 103, 2 ** 128, 10 ** 38 * 4):
        case = {"kind": "int", "n": n}
        ctx.count("int-argument")
        ctx.case(None)
        x = bits_of(float(n))
        for T, nb in (("float", 4), ("double", 8)):
            want = le(nb, c_narrow(st, x) if nb == 4 else x)
            for nm, arg in (("int", n), ("__index__", HasIndex(n))):
                got = bytes(ffi.buffer(ffi.new(T + "*", arg)))
                if got != want:
                    ctx.fail(case, "%s %d stored into %s: %s, the C conversion of float(n) gives %s"
                             % (nm, n, T, got.hex(), want.hex()))


# ---------------------------------------------------------------- entry points

def run(ctx, n_scalar, n_complex, n_ld, n_ord, oracle_only=False):
    st = _setup(ctx)
    rng = ctx.rng
    lines, expect = [], []
    rejected_inputs(ctx, st, None if oracle_only else lines, expect)
    pats = edge_patterns() + [gen_pattern(rng) for _ in range(n_scalar)]
    for x in pats:
        scalar_case(ctx, st, x, lines, expect, oracle_only)
    edges = edge_patterns()
    for k in range(n_complex):
        re = gen_pattern(rng) if rng.random() < 0.7 else rng.choice(edges)
        im = gen_pattern(rng) if rng.random() < 0.7 else rng.choice(edges)
        complex_case(ctx, st, re, im, rng.choice((8, 16)), rng.randrange(3), lines, expect, oracle_only)
    for k in range(n_ld):
        r = rng.random()
        if r < 0.5:
            blob = bytes(rng.getrandbits(8) for _ in range(16))
        elif r < 0.8:   # a normalised finite extended value (integer bit set), random padding
            mant = (1 << 63) | rng.getrandbits(63)
            se = rng.getrandbits(16)
            blob = mant.to_bytes(8, "little") + se.to_bytes(2, "little") + bytes(rng.getrandbits(8) for _ in range(6))
        else:           # infinities, NaNs, zeros, pseudo-denormals / unnormals
            mant = rng.choice((0, 1 << 63, (1 << 63) | 1, (3 << 62), (1 << 62), 1, (1 << 63) - 1, rng.getrandbits(64)))
            se = rng.choice((0, 0x7fff, 0xffff, 0x8000, 1, 0x3fff))
            blob = mant.to_bytes(8, "little") + se.to_bytes(2, "little") + bytes(rng.getrandbits(8) for _ in range(6))
        ld_case(ctx, st, blob, lines, expect, oracle_only)
        ld_exact_case(ctx, st, gen_pattern(rng))
    for k in range(n_ord):
        r = rng.random()
        n = rng.randrange(256) if r < 0.4 else (rng.randrange(0x110000) if r < 0.9 else
                                                rng.choice((0, 1, 255, 256, 0xd800, 0xdfff, 0xffff, 0x10000, 0x10ffff,
                                                            (1 << 20) + 1)))
        ord_case(ctx, st, n, lines, expect, oracle_only)
    if oracle_only or not lines:
        return
    out = ctx.driver(lines)
    for o, (case, want, what) in zip(out, expect):
        if o != want:
            ctx.disagree(case, want, o, what)


def translators(ctx):
    """Generated/FloatExprs.lean: the size dispatch of read/write_raw_float_data, the halves of the complex stores, the
    long double sizes, the CT_IS_LONGDOUBLE tests of convert_to_object / convert_from_object / do_cast and the result
    codes of check_bytes_for_float_compatible, re-extracted from _cffi_backend.c (translate/c05_exprs.py)."""
    sys.path.insert(0, os.path.join(common.VERIF, "translate"))
    import c05_exprs
    return [c05_exprs.translator]


def correspond(ctx):
    run(ctx, ctx.n(40000, 1600000), ctx.n(5000, 200000), ctx.n(1500, 40000), ctx.n(600, 20000))


def search(ctx):
    run(ctx, ctx.n(150000, 1500000), ctx.n(20000, 200000), ctx.n(5000, 40000), ctx.n(2000, 20000), oracle_only=True)


def replay(ctx, obj):
    st = _setup(ctx)
    case = obj["case"]
    before = len(ctx.failures)
    kind = case.get("kind")
    if kind == "scalar":
        scalar_case(ctx, st, int(case["x"]), [], [], True)
    elif kind == "complex":
        complex_case(ctx, st, int(case["re"]), int(case["im"]), case["size"], case["slot"], [], [], True)
    elif kind == "ld":
        ld_case(ctx, st, bytes.fromhex(case["blob"]), [], [], True)
    elif kind == "ld-exact":
        ld_exact_case(ctx, st, int(case["x"]))
    elif kind == "ord":
        ord_case(ctx, st, case["n"], [], [], True)
    else:
        rejected_inputs(ctx, st)
    new = ctx.failures[before:]
    for f in new:
        print("still failing:", f["detail"])
    if not new:
        print("the case passes now")
    return 1 if new else 0
