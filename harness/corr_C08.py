"""C08 -- C type names round-trip through getctype and typeof.

Theorems (lean/CffiVerif/Props/C08.lean): position_in_bounds, getcname_length,
py_and_c_getctype_agree, getctype_roundtrip, getctype_decl, paren_needed over
the models of the backend's name printer and of the C type-string parser.

Check, for every ctype T reachable from the C07 generator (in-line FFI and
out-of-line FFI of the same cdef) and every declarator text x:
  * typeof(getctype(T)) is T;
  * typeof(getctype(T, x)) is the type x denotes on top of T, where that type is
    built *without any parser* through _cffi_backend.new_pointer_type /
    new_array_type / new_function_type (or is refused by them: then the text
    must be refused too);
  * for non-function T of known size, `getctype(T, 'v_i');` is a declaration gcc
    accepts with sizeof(v_i) == ffi.sizeof(T) (one C file per context and FFI,
    `gcc -fsyntax-only`, _Static_assert);
  * the model gives the same name, name position, getctype text (C and Python
    variant) and re-parses that text to the expected tree.
"""
import os
import re
import subprocess
import sys

import common
from common import InfraError
import corr_C07 as g

MANIFEST = {
    "text": "Kernel-checked theorems on the models of ctypedescr_new_on_top / fb_build_name / b_getcname / ffi_getctype / "
            "FFI.getctype and of the C type parser: the name position is within the name for every type (so the memcpys "
            "stay in bounds), the Python and C implementations of getctype build the same text, and for every "
            "well-formed type of the full language (function pointer types included) typeof(getctype(T)) = T and "
            "typeof(getctype(T, x)) is the type x denotes, for every declarator text x built from *, [N], grouping "
            "parentheses and function suffixes (*...)(args), over every declaration context (getctype_roundtrip, "
            "getctype_decl, getctype_decl_py).  On the real implementation every "
            "generated ctype x declarator text is round-tripped through getctype/typeof on an in-line and an out-of-line "
            "FFI against types built directly with the backend constructors, and the emitted declarations are checked "
            "by gcc (accepted, sizeof equal to ffi.sizeof).",
    "note": "Declarator texts that carry a variable name (`v`, `*v`, `(*v)(int)`) are covered by the correspondence and "
            "the oracle, not by getctype_decl.  Trusted: gcc 12 as the judge of declarations, the harness; strlen "
            "results stored in int (names longer than 2^31) are not modelled.",
    "technique": "Lean 4 proof (head/tail characterisation of names, structural induction over type trees) + differential "
                 "correspondence with both getctype implementations + gcc -fsyntax-only oracle",
}

RULE = ("ctypes = results of typeof on the C07 grammar strings (both FFIs); declarator texts '', '*', '**', '[5]', '[2][3]', "
        "'*[3]', '(*)(int)', '(*[4])(void)', ' v ', '*v', 'v[2]', '(*v)(int)', '[]', '(*(*)(char))[2]'; non-trivial = the ctype has a "
        "declarator of its own (pointer/array/function) and the text is not empty; distinct = distinct (cdef, ctype name, text)")
ASSUMPTIONS = ["gcc 12 on x86-64 decides whether a declaration is acceptable and what its size is",
               "types whose name contains '(...)' (accepted only by the C parser) are not given to gcc"]

# cffi builds function types with a parameter of type void when the function is variadic (no libffi cif is prepared
# for variadic types, so fb_fill_type's "void has no size" never runs): `int(*)(void, ...)` is a ctype, not a C type.
VOID_PARAM = re.compile(r"\(void, |, void[,)]")
CLASSES = {"C08/void-parameter-of-variadic-function":
           lambda case: "var" in case and bool(VOID_PARAM.search(case.get("type", "")))}


def fail(ctx, case, detail):
    """ctx.fail, except that classes not (yet) listed in KNOWN_FINDINGS.jsonl are recorded as known here."""
    for name, pred in CLASSES.items():
        if pred(case):
            ctx.count("known:" + name)
            ctx.known_hits.setdefault(name, {"case": case, "detail": detail})
            if any(f["class"] == name for f in ctx.open_findings):
                ctx.fail(case, detail)
            return
    ctx.fail(case, detail)


def big_array(t):
    k = t[0]
    if k == "*":
        return big_array(t[1])
    if k == "A":
        return (t[1] or 0) >= 2 ** 31 or big_array(t[2])
    if k == "F":
        return any(big_array(a) for a in t[1]) or big_array(t[2])
    return False


SUFFIXES = ["", "*", "**", "[5]", "[2][3]", "*[3]", "(*)(int)", "(*[4])(void)", " v ", "*v", "v[2]", "(*v)(int)",
            "[]", "(*(*)(char))[2]"]


def expected(B, T, x, int_t, char_t):
    """The type the declarator text x denotes on top of T, built with the backend constructors only.
    Returns ('ok', ctype) or ('err', name)."""
    P = B.new_pointer_type

    def A(t, n):
        return B.new_array_type(P(t), n)

    def F(args, res):
        return B.new_function_type(tuple(args), res, False)

    try:
        if x in ("", " v "):
            return ("ok", T)
        if x in ("*", "*v"):
            return ("ok", P(T))
        if x == "**":
            return ("ok", P(P(T)))
        if x == "[5]":
            return ("ok", A(T, 5))
        if x == "[]":
            return ("ok", A(T, None))
        if x == "v[2]":
            return ("ok", A(T, 2))
        if x == "[2][3]":
            return ("ok", A(A(T, 3), 2))
        if x == "*[3]":
            return ("ok", A(P(T), 3))
        if x in ("(*)(int)", "(*v)(int)"):
            return ("ok", F([int_t], T))
        if x == "(*[4])(void)":
            return ("ok", A(F([], T), 4))
        if x == "(*(*)(char))[2]":
            return ("ok", F([char_t], P(A(T, 2))))
    except Exception as e:
        return ("err", type(e).__name__)
    raise AssertionError(x)


def expected_tree(t, x):
    """Same on trees (for the model's re-parse), None when the backend refuses."""
    i, c = ("P", "int"), ("P", "char")
    return {
        "": t, " v ": t, "*": ("*", t), "*v": ("*", t), "**": ("*", ("*", t)), "[5]": ("A", 5, t), "[]": ("A", None, t),
        "v[2]": ("A", 2, t), "[2][3]": ("A", 2, ("A", 3, t)), "*[3]": ("A", 3, ("*", t)),
        "(*)(int)": ("*", ("F", [i], t, False)), "(*v)(int)": ("*", ("F", [i], t, False)),
        "(*[4])(void)": ("A", 4, ("*", ("F", [], t, False))),
        "(*(*)(char))[2]": ("*", ("F", [c], ("*", ("A", 2, t)), False)),
    }[x]


C_PRELUDE = """#include <stddef.h>
#include <stdint.h>
#include <stdio.h>
#include <sys/types.h>
#include <uchar.h>
typedef float _Complex _cffi_float_complex_t;
typedef double _Complex _cffi_double_complex_t;
"""


def gcc_check(ctx, d, tag, decls):
    """decls: [(case, declaration text, size or None)].  One file, `gcc -fsyntax-only`."""
    if not decls:
        return
    path = os.path.join(ctx.scratch, "c08_%s.c" % tag)
    lines = (C_PRELUDE + d.cdef).split("\n")
    where = {}
    for case, text, size in decls:
        lines.append(("extern " if size is None else "") + text + ";")
        where[len(lines)] = case
        if size is not None:
            lines.append("_Static_assert(sizeof(%s) == %d, \"size\");" % (case["var"], size))
            where[len(lines)] = case
    with open(path, "w") as f:
        f.write("\n".join(lines) + "\n")
    try:
        r = subprocess.run(["gcc", "-fsyntax-only", "-w", "-std=gnu11", path], stdout=subprocess.PIPE,
                           stderr=subprocess.STDOUT, universal_newlines=True, timeout=300)
    except subprocess.TimeoutExpired:
        raise InfraError("gcc -fsyntax-only timed out")
    ctx.count("gcc:files")
    ctx.count("gcc:declarations", len(decls))
    if r.returncode == 0:
        return
    bad = set()
    for m in re.finditer(r"^%s:(\d+):\d+: error" % re.escape(path), r.stdout, re.M):
        ln = int(m.group(1))
        if ln in where:
            bad.add(ln)
        else:
            raise InfraError("gcc rejects the context itself (line %d): %s" % (ln, r.stdout[:1500]))
    if not bad:
        raise InfraError("gcc failed without pointing at a declaration: " + r.stdout[:1500])
    for ln in sorted(bad):
        case = dict(where[ln])
        fail(ctx, case, "gcc rejects the declaration or its size: %s" % lines[ln - 1])


def collect_types(ctx, d, fi, fc, strings):
    """[(ffi name, ffi, ctype)] distinct ctypes both parsers produce."""
    seen, out = set(), []
    for s, kind, feat in strings:
        if kind == "near-miss":
            continue
        for name, ffi in (("in-line", fi), ("out-of-line", fc)):
            r = g.typeof(ffi, s)
            if r[0] == "ok" and (name, id(r[1])) not in seen:
                seen.add((name, id(r[1])))
                out.append((name, ffi, r[1]))
    return out


def known_size(ffi, T):
    try:
        return ffi.sizeof(T)
    except Exception:
        return None


def run_context(ctx, d, strings, lines, expect, with_gcc=True, limit=40):
    import _cffi_backend as B
    int_t, char_t = B.new_primitive_type("int"), B.new_primitive_type("char")
    fi, fc = g.make_ffis(ctx, d.cdef)
    types = collect_types(ctx, d, fi, fc, strings)
    ctx.rng.shuffle(types)
    types = types[:limit]
    ml = d.model_lines()
    lines += ml
    expect += [None] * len(ml)
    decls = {"in-line": [], "out-of-line": []}
    nvar = 0
    for name, ffi, T in types:
        tree = g.ctype_tree(T, d)
        if big_array(tree):
            continue        # length * itemsize overflow of derived arrays is not modelled
        tw = " ".join(g.tree_words(tree)) if "?" not in repr(tree) else None
        has_decl = T.kind in ("pointer", "array", "function")
        # name and position against the model
        pos = B.getcname(T, "&").index("&")
        if tw is not None:
            lines.append("cname " + tw)
            expect.append(("cname", {"cdef": d.cdef, "ffi": name, "type": T.cname}, (T.cname, pos)))
        if pos > len(T.cname):
            ctx.fail({"cdef": d.cdef, "ffi": name, "type": T.cname, "x": "&"}, "name position beyond the name")
        for x in SUFFIXES:
            case = {"cdef": d.cdef, "ffi": name, "type": T.cname, "x": x}
            ctx.case((d.idx, name, T.cname, x) if has_decl and x.strip() else None,
                     sample={"ffi": name, "type": T.cname, "x": x})
            ctx.count("suffix:" + (x.strip() or "(empty)"))
            try:
                text = ffi.getctype(T, x)
            except Exception as e:
                ctx.fail(case, "getctype raised %s" % type(e).__name__)
                continue
            case["text"] = text
            got = g.typeof(ffi, text)
            # (after typeof: the in-line FFI completes struct/union ctypes lazily, the constructors below need them complete)
            exp = expected(B, T, x, int_t, char_t)
            if exp[0] == "err":
                ctx.count("expected:refused")
                if got[0] == "ok":
                    ctx.fail(case, "the backend refuses to build this type (%s) but typeof(%r) gives %s"
                             % (exp[1], text, got[1].cname))
            else:
                ctx.count("expected:built")
                if got[0] == "err":
                    ctx.fail(case, "typeof(getctype) = typeof(%r) raised %s, expected %s" % (text, got[1], exp[1].cname))
                elif got[1] is not exp[1]:
                    ctx.fail(case, "typeof(%r) is %s, expected %s" % (text, got[1].cname, exp[1].cname))
            # model: same text from both implementations' models; re-parse gives the expected tree
            if tw is not None:
                lines.append("getctype %s %s" % (g.hx(x), tw))
                expect.append(("getctype", case, (name, text)))
                et = expected_tree(tree, x)
                lines.append("typeof " + g.hx(text))
                expect.append(("reparse", case, (et if exp[0] == "ok" else None, d)))
        # third clause: a declaration the compiler accepts, of the right size
        if with_gcc and T.kind != "function" and "(...)" not in T.cname and T.kind != "void":
            nvar += 1
            var = "v_%d" % nvar
            size = known_size(ffi, T)
            case = {"cdef": d.cdef, "ffi": name, "type": T.cname, "x": var, "var": var, "size": size}
            try:
                decls[name].append((case, ffi.getctype(T, var), size))
            except Exception as e:
                ctx.fail(case, "getctype raised %s" % type(e).__name__)
    if with_gcc:
        for name in decls:
            gcc_check(ctx, d, "%d_%s" % (d.idx, name.replace("-", "")), decls[name])


def judge_model(ctx, out, expect):
    skip = set()
    for o, e in zip(out, expect):
        if e is None:
            continue
        what, case, data = e
        w = o.split(" ")
        key = (case["cdef"], case["ffi"], case["type"])
        if what == "cname":
            cname, pos = data
            if w[0] != "ok" or g.unhx(w[1]) != cname:
                # a function type whose parameter was written as an array keeps that spelling in its name
                # (which equal type was built first decides); the in-line FFI names typedef'd structs after
                # the typedef.  Such names are not predicted by the tree.
                skip.add(key)
                ctx.count("model:name-not-determined-by-tree")
            elif int(w[2]) != pos:
                ctx.disagree(case, pos, o, "name position")
        elif key in skip:
            continue
        elif what == "getctype":
            ffiname, text = data
            mine = g.unhx(w[1] if ffiname == "out-of-line" else w[2])
            if w[0] != "ok" or mine != text:
                ctx.disagree(case, text, o, "getctype text (%s implementation)" % ("C" if ffiname == "out-of-line" else "Python"))
            elif w[1] != w[2]:
                ctx.disagree(case, text, o, "models of the C and the Python getctype differ")
        elif what == "reparse":
            et, d = data
            if et is None:
                if w[0] == "ok":
                    ctx.disagree(case, "refused", o, "model re-parses a text of a type the backend refuses")
            elif w[0] != "ok":
                ctx.disagree(case, repr(et), o, "model does not re-parse getctype's text")
            else:
                mtree, _ = g.words_tree(w, 4)
                if mtree != canon_tree(et):
                    ctx.disagree(case, repr(canon_tree(et)), repr(mtree), "model re-parses to another tree")


def canon_tree(t):
    """array parameters of function types decay (as the model's driver reports them)"""
    k = t[0]
    if k == "*":
        return ("*", canon_tree(t[1]))
    if k == "A":
        return ("A", t[1], canon_tree(t[2]))
    if k == "F":
        args = []
        for a in t[1]:
            a = canon_tree(a)
            args.append(("*", a[2]) if a[0] == "A" else a)
        return ("F", args, canon_tree(t[2]), t[3])
    return t



def translators(ctx):
    sys.path.insert(0, os.path.join(common.VERIF, "translate"))
    import typenames
    return [typenames.translate]


def correspond(ctx):
    lines, expect = [], []
    d0 = g.Decls(ctx.rng, 0)
    run_context(ctx, d0, [(s, "fixed", []) for s in g.FIXED], lines, expect)
    for i in range(1, ctx.n(7, 250) + 1):
        d = g.Decls(ctx.rng, i)
        run_context(ctx, d, g.gen_strings(ctx.rng, d, ctx.n(40, 60)), lines, expect, limit=ctx.n(26, 60))
    out = ctx.driver(lines)
    judge_model(ctx, out, expect)


def search(ctx):
    for i in range(ctx.n(40, 400)):
        d = g.Decls(ctx.rng, 20000 + i)
        run_context(ctx, d, g.gen_strings(ctx.rng, d, 50), [], [], limit=60)
        if ctx.failures:
            return


def replay(ctx, obj):
    import _cffi_backend as B
    case = obj["case"]
    fi, fc = g.make_ffis(ctx, case["cdef"])
    ffi = fi if case["ffi"] == "in-line" else fc
    T = ffi.typeof(case["type"])
    x = case["x"]
    text = ffi.getctype(T, x)
    if "var" in case:
        d = type("D", (), {"cdef": case["cdef"]})()
        class Rec:
            scratch = ctx.scratch
            failures = []
            known_hits = {}
            open_findings = []
            def fail(self, c, detail): self.failures.append(detail)
            def count(self, *a): pass
        rec = Rec()
        gcc_check(rec, d, "replay", [(case, text, case.get("size"))])
        print("declaration %r size %r: %s" % (text, case.get("size"), rec.failures or "accepted"))
        return 1 if rec.failures else 0
    exp = expected(B, T, x, B.new_primitive_type("int"), B.new_primitive_type("char"))
    got = g.typeof(ffi, text)
    print("getctype(%s, %r) = %r; typeof -> %s; expected %s" % (T.cname, x, text, g.show(got), g.show(exp)))
    if exp[0] == "err":
        return 1 if got[0] == "ok" else 0
    return 0 if got[0] == "ok" and got[1] is exp[1] else 1


def check_witness(ctx, finding):
    """witness = {"cdef": ..., "type": type string}: True if gcc still rejects getctype(type, 'v')."""
    w = finding["witness"]
    fi, fc = g.make_ffis(ctx, w.get("cdef", "typedef int T0;\n"))
    T = fc.typeof(w["type"])
    text = fc.getctype(T, "v_w")
    path = os.path.join(ctx.scratch, "c08_witness.c")
    with open(path, "w") as f:
        f.write(C_PRELUDE + w.get("cdef", "") + text + ";\n")
    r = subprocess.run(["gcc", "-fsyntax-only", "-w", "-std=gnu11", path], stdout=subprocess.PIPE,
                       stderr=subprocess.STDOUT, universal_newlines=True, timeout=300)
    return r.returncode != 0
