"""C21 -- ownership, destructors and handles behave correctly over any history.

Theorems (lean/CffiVerif/Props/C21.lean) over the transition system
Model/Ownership.lean: destructor_at_most_once,
destructor_exactly_once_when_dead_or_released, never_after_gc_none,
free_fn_exactly_once(_struct), release_idempotent, frombuf_export_until_release
(+ frombuf_resize_ok_iff_no_live_view, release_drops_export),
struct_memory_valid_while_either_alive, handles_distinct,
from_handle_returns_original, collect_only_unreachable.

Tie to the code: random histories (<= 60 operations) on the real
implementation.  Every object of a history is watched through a weakref, every
destructor / free function is a Python callable that counts, the collector is
run explicitly (automatic collection is off, so a history is a function of its
seed).  After every operation
  * the clauses of the property are evaluated directly from what was observed
    (call counters, BufferError on resize, identity of from_handle results,
    handle addresses, canaries written through struct pointers) -> ctx.fail;
  * the operation, the implementation's choices (which objects it deallocated,
    which address a handle got) and the observed destructor calls are written as
    lines of the model's protocol; the model must accept the whole trace and
    predict the same destructor calls, errors and resize outcomes -> ctx.disagree.
Histories run in forked children, so that a crash of the interpreter (use after
free, Py_FatalError) is reported as a failure of that history instead of killing
the check.
"""
import gc
import json
import os
import signal
import sys
import threading
import weakref
import random

import common
from common import InfraError

MANIFEST = {
    "text": "Kernel-checked invariants of a state machine of cffi's ownership machinery (ffi.gc wrappers with destructor "
            "and origobj slots, allocator allocations, struct pointers owning their struct object, from_buffer views, "
            "handles, Python containers forming cycles, a collector that may finalise any unreferenced set at any step): "
            "over every operation list a destructor / free function is called at most once per wrapper, exactly once "
            "once the wrapper is released or deallocated and never before, never after ffi.gc(x, None); ffi.release is "
            "idempotent; a live unreleased from_buffer view keeps its source alive and un-resizable and releasing "
            "unlocks; a live struct pointer (or a held p[0]) keeps the struct object from being finalised; live handles "
            "have distinct addresses and from_handle returns the object given to new_handle.  Destructor / free calls "
            "are activations with an extent (release marks the wrapper first, then calls; ret ends the call): the "
            "histories contain arbitrary operations issued from inside callbacks to any depth, so exactly-once and "
            "idempotence also cover re-entrant and concurrent release of the wrapper being finalised.  The model is tied to "
            "_cffi_backend by replaying random histories (cycles, explicit collections, both FFI front ends) whose "
            "observed deallocations and destructor calls the model must accept and predict.",
    "note": "Trusted: Lean kernel; CPython's reference counting / cycle collector / weakref semantics and bytearray's "
            "export counter are parameters of the model (the collector rule is 'any set nothing outside refers to'); "
            "the harness's bookkeeping of who references whom.  Not modelled: destructors that raise or resurrect "
            "objects, callbacks (closures) owned by CDataOwningGC objects, threads, interpreter shutdown.",
    "technique": "Lean 4 proof (invariant by induction over operation lists of a nondeterministic state machine) + "
                 "trace acceptance of random stateful histories on the real implementation + direct property oracles",
}

RULE = ("histories of 15..60 operations drawn by weight from: new Python container / destructor / bytearray-subclass, "
        "ffi.new (plain and struct *), allocator() (plain and struct *, free function present or None), ffi.gc(p, d), "
        "ffi.gc(g, None), ffi.release, with-statement, double release, p[0], store into a container (cycles through "
        "destructor objects, handle targets and buffer sources), clear a container, drop a reference, new_handle, "
        "from_handle (through the handle, a void* and a char* cast), from_buffer, bytearray resize, gc.collect(), plus "
        "the calls the implementation rejects (release of a handle / a struct, gc(non-wrapper, None), ...); destructors "
        "and free callbacks carry scripts run inside the call (release / with / double release of their own wrapper, "
        "release of other wrappers, drops, gc.collect(), random operations, depth <= 3); 14 fixed histories in every run "
        "(re-entrant release from destructor, free callback, collector finaliser; two threads with forced ordering: A "
        "blocked inside the destructor while B releases the same wrapper); a history "
        "is non-trivial when a destructor ran at a deallocation and a reference cycle was collected; distinct = "
        "distinct operation sequences")
ASSUMPTIONS = ["CPython 3.12 reference counting, cycle collector and weakref clearing order",
               "bytearray refuses to resize exactly while its export counter is non-zero",
               "destructors return normally and do not keep their argument"]
CLASSES = {}

MAXOPS = 60


def translators(ctx):
    """statement order of cdatagcp_finalize / cdatagcp_dealloc / cdata_exit / b_gcp / the handle functions"""
    sys.path.insert(0, os.path.join(common.VERIF, "translate"))
    import c21_steps
    return [lambda: c21_steps.translate(common.REPO, common.write_generated)]
MAXDEPTH = 3          # nesting of destructor calls inside which scripted operations are still issued


# --------------------------------------------------------------------------
# Python-level objects of a history

class Box(object):
    __slots__ = ("fields", "__weakref__")

    def __init__(self):
        self.fields = []


class Dtor(object):
    """A destructor / free function.  `script`: operations it issues itself, the first time it is called,
    while the call is in progress (re-entrant release of its own wrapper, of other wrappers, drops, collections,
    random operations of the history language, or blocking until another thread has released the wrapper)."""
    __slots__ = ("fields", "hist", "wid", "script", "ran", "own", "block", "__weakref__")

    def __init__(self, hist, script=()):
        self.fields = []
        # a strong reference: a weakref held by an object that is itself cyclic garbage is cleared by the
        # collector before the finalisers run, and the call would go unnoticed
        self.hist = hist
        self.wid = None          # wrapper this destructor belongs to; None = free function of an allocator
        self.script = list(script)
        self.ran = False
        self.own = None          # index in .fields of the wrapper itself (a cycle wrapper -> destructor -> wrapper)
        self.block = None        # (started, proceed) events of the two-thread scenario

    def __call__(self, arg):
        self.hist.on_call(self, arg)


class Buf(bytearray):
    pass                         # instances have a __dict__: .fields


class Rec(object):
    """What the harness knows about one object of the history (never a strong reference)."""
    def __init__(self, mid, kind):
        self.mid = mid
        self.kind = kind          # box dtor buf plain struct structptr gcp frombuf handle raw
        self.wr = None
        self.dead = False
        # wrappers
        self.had_dtor = False
        self.is_alloc = False
        self.calls = 0
        self.released = False
        self.noned_first = False
        self.noned_at = None      # call count when gc(x, None) was applied
        self.orig_id = None
        # struct pointers / structs
        self.sid = None           # structptr -> struct record id
        self.default_struct = False
        self.canary = None
        # views
        self.src = None
        # handles
        self.addr = None
        self.target = None
        self.early = False
        # mirror of the references the object holds (to linearise what the cycle collector does)
        self.fields = []
        self.dtor_mid = None
        self.orig_mid = None
        self.fin = False


class InfraTimeout(Exception):
    pass


class Hist(object):
    def __init__(self, hseed, flavor):
        import cffi
        import _cffi_backend
        self.rng = random.Random(hseed)
        self.hseed = hseed
        self.flavor = flavor
        self.ffi1 = cffi.FFI()
        self.ffi1.cdef("struct c21s { int x; int y; };")
        self.ffi = self.ffi1 if flavor.endswith("api") else _cffi_backend.FFI()
        self.t_structp = self.ffi1.typeof("struct c21s *")
        self.t_intp = self.ffi1.typeof("int *")
        self.t_chararr = self.ffi1.typeof("char[]")
        self.t_intarr = self.ffi1.typeof("int[]")
        self.recs = {}
        self.next_id = 0
        self.slots = []            # (mid, strong reference)
        self.lines = []            # (line, expected answer or None, what)
        self.fails = []
        self.counts = {}
        self.deaths = []           # model ids deallocated during the current step
        self.fired = []            # wrapper ids whose destructor ran during the current step
        self.pending_raw = []
        self.raw_by_id = {}        # id(raw cdata) -> wrapper mid
        self.addr_index = {}
        self.opnames = []
        self.allocators = {}       # free-function mid (or None) -> allocator callable
        self.cyclic_collected = False
        self.dtor_at_dealloc = False
        self.broken = None
        self.early_sink = None
        self.rel_stack = []        # releases in progress: {"target": wrapper id, "fired": bool, "idx": line index}
        self.depth = 0             # destructor calls in progress
        self.finalize_depth = 0    # ... of which started by the collector's tp_finalize
        self.gc_phase = None       # None | 1 (collector clears weakrefs of the garbage) | 2 (finalizers and later)
        self.gc_garbage = set()
        self.gc_finalized = set()
        self.gc_silent_done = True
        self.nested_ops = 0
        self.timeout = None
        self.thread_done = False
        self.role = {}             # destructor object id -> "gc" (used by one ffi.gc call) | "free" (of an allocator)

    # ---- bookkeeping
    def count(self, k, n=1):
        self.counts[k] = self.counts.get(k, 0) + n

    def fail(self, detail):
        if any(f["detail"] == detail for f in self.fails):
            return
        self.fails.append({"at": len(self.lines), "detail": detail})
        if self.early_sink is not None:
            # tell the parent at once: a double call usually corrupts reference counts and the interpreter
            # may not survive until the end of the history
            self.early_sink({"early": self.hseed, "flavor": self.flavor, "detail": detail,
                             "at": len(self.lines), "lines": [l for l, _, _ in self.lines]})

    def new_rec(self, kind, obj):
        mid = self.next_id
        self.next_id += 1
        r = Rec(mid, kind)
        self.recs[mid] = r

        def cb(_wr, self=self, mid=mid):
            self.recs[mid].dead = True
            if self.recs[mid].early:
                return             # already reported together with the object it referred to
            self.deaths.append(mid)
            if self.gc_phase == 1:
                self.gc_garbage.add(mid)
        r.wr = weakref.ref(obj, cb)
        return r

    def hold(self, rec, obj):
        self.slots.append((rec.mid, obj))

    def emit(self, line, expect, what=None):
        self.lines.append([line, expect, what or line.split(" ")[0]])
        return len(self.lines) - 1

    def edges(self, r):
        if r.kind in ("box", "dtor", "buf"):
            return r.fields
        if r.kind == "gcp":
            if r.fin:
                return []
            e = [r.orig_mid] if r.orig_mid is not None else []
            if r.dtor_mid is not None and r.noned_at is None:
                e.append(r.dtor_mid)
            return e
        if r.kind == "handle":
            return [r.target]
        if r.kind == "structptr":
            return [r.sid]
        if r.kind == "frombuf" and not r.released:
            return [r.src]
        return []

    def garbage_parents(self, dead):
        """During a collection the weak references of all the garbage are cleared first; when a member is really
        deallocated afterwards cannot be seen.  If something it referred to is reported dead, it is dead too."""
        if self.gc_phase is None:
            return list(dead)
        S = set(dead)
        pend = [m for m in self.deaths if m in self.gc_garbage and m not in S]
        changed = True
        while changed:
            changed = False
            for y in pend:
                if y not in S and any(e in S for e in self.edges(self.recs[y])):
                    S.add(y)
                    changed = True
        self.deaths[:] = [m for m in self.deaths if m not in S]
        return sorted(S)

    def dying_parents(self, dead):
        """Handles and struct pointers drop their reference *before* their own weak references are cleared
        (cdataowninggc_dealloc, cdataowning_dealloc): when the object they referred to is reported dead they are
        in the middle of their deallocation.  They are reported with it.  (If one stayed alive, check_clauses
        would see a live handle / pointer whose object is gone.)"""
        dead = set(dead)
        changed = True
        while changed:
            changed = False
            for r in self.recs.values():
                if r.dead or r.mid in dead:
                    continue
                if (r.kind == "handle" and r.target in dead) or (r.kind == "structptr" and r.sid in dead):
                    dead.add(r.mid)
                    r.early = True
                    changed = True
        return sorted(dead)

    def take_deaths(self):
        """the deallocations to report now"""
        if self.finalize_depth > 0:
            # inside a finaliser run by the collector: the garbage is not deallocated yet (only its weak
            # references are cleared); it is reported when it must be, at the latest when gc.collect() is over
            dead = [m for m in self.deaths if m not in self.gc_garbage]
            self.deaths[:] = [m for m in self.deaths if m in self.gc_garbage]
        else:
            dead = list(self.deaths)
            del self.deaths[:]
        if not dead:
            return []
        if len(set(dead)) != len(dead):
            self.fail("an object was reported dead twice")
        dead = self.garbage_parents(self.dying_parents(dead))
        self.gc_garbage.difference_update(dead)
        return dead

    def flush_deaths(self):
        """report what the implementation deallocated since the last report (no destructor call involved)"""
        dead = self.take_deaths()
        if dead:
            self.emit("collect " + " ".join(str(i) for i in dead), "ok", "collect")

    def on_call(self, dtor, arg):
        if dtor.wid is not None:
            wid = dtor.wid
        else:
            wid = self.raw_by_id.get(id(arg))
            if wid is None:
                self.fail("free function called with a cdata that is not the result of alloc()")
                return
        r = self.recs[wid]
        r.calls += 1
        r.fin = True
        if r.calls > 1:
            self.fail("%s of wrapper %d called %d times" % ("free function" if r.is_alloc else "destructor",
                                                            wid, r.calls))
        if r.orig_id is not None and id(arg) != r.orig_id:
            self.fail("destructor of wrapper %d called with an object that is not the original cdata" % wid)
        # what started this call?
        top = self.rel_stack[-1] if self.rel_stack else None
        fin = False
        if top is not None and top["target"] == wid and not top["fired"]:
            top["fired"] = True                      # ffi.release() / __exit__ in progress on this wrapper
            self.lines[top["idx"]][1] = "ok %d" % wid
            kind = "release"
        elif self.gc_phase is not None and wid in self.gc_garbage and wid not in self.gc_finalized:
            self.gc_finalized.add(wid)               # tp_finalize run by the cycle collector
            self.gc_phase = 2
            self.finalize_depth += 1                 # (the garbage itself is not reported dead yet)
            self.silent_finalizes()
            self.flush_deaths()
            self.emit("finalize %d %s" % (wid, " ".join(str(i) for i in sorted(self.gc_garbage))), "ok %d" % wid,
                      "finalize")
            kind = "finalize"
            fin = True
        else:
            dead = self.take_deaths()                # deallocation of the wrapper (it is the last that died)
            self.emit("collect " + " ".join(str(i) for i in dead), "ok %d" % wid, "collect")
            self.dtor_at_dealloc = True
            kind = "dealloc"
        self.next_id += 1                            # the activation record of the model
        self.count("call:" + kind)
        self.depth += 1
        try:
            if not dtor.ran and self.depth <= MAXDEPTH and not self.broken:
                dtor.ran = True
                self.run_script(dtor, wid, kind)
        except Exception as e:
            self.broken = "operation issued from inside a destructor raised %s: %s" % (type(e).__name__, e)
        finally:
            self.depth -= 1
            self.flush_deaths()
            if fin:
                self.finalize_depth -= 1
            self.emit("ret", "ok", "ret")

    # ---- operations issued from inside a destructor / free callback
    def own_ref(self, dtor, wid, kind):
        """a reference through which the callback can reach the wrapper being finalised"""
        for i, (mid, obj) in enumerate(self.slots):
            r = self.recs[mid]
            if mid == wid or (r.kind == "structptr" and r.sid == wid):
                return (i, mid, obj)
        if kind != "dealloc" and dtor.own is not None and dtor.own < len(dtor.fields):
            return (None, wid, dtor.fields[dtor.own])
        return None

    def run_script(self, dtor, wid, kind):
        for act in dtor.script:
            if self.broken:
                break
            self.nested_ops += 1
            self.count("nested:" + act)
            if act in ("release_self", "with_self", "twice_self"):
                x = self.own_ref(dtor, wid, kind)
                if x is not None:
                    self.op_release({"release_self": "release", "with_self": "with", "twice_self": "twice"}[act], x)
                    self.count("event:reentrant-release-of-own-wrapper")
            elif act == "release_other":
                self.op_release(self.rng.choice(["release", "with"]))
            elif act == "drop_self":
                x = self.own_ref(dtor, wid, kind)
                if x is not None and x[0] is not None:
                    self.op_drop(x[0])
            elif act == "drop_other":
                self.op_drop()
            elif act == "collect":
                self.do_collect()
            elif act == "random":
                for _ in range(self.rng.randint(1, 3)):
                    self.random_op(nested=True)
            elif act == "block":
                started, proceed = dtor.block
                started.set()
                if not proceed.wait(30):
                    self.timeout = "the second thread did not come back"
            self.flush_deaths()

    # ---- choosing operands among the references the program holds
    def held(self, pred):
        return [(i, mid, obj) for i, (mid, obj) in enumerate(self.slots) if pred(self.recs[mid])]

    def pick(self, pred):
        c = self.held(pred)
        return self.rng.choice(c) if c else None

    # ---- the operations
    SCRIPT_ACTS = ["release_self", "with_self", "twice_self", "release_other", "drop_self", "drop_other", "collect",
                   "random"]

    def rand_script(self):
        if self.rng.random() < 0.4:
            return []
        return [self.rng.choice(self.SCRIPT_ACTS) for _ in range(self.rng.randint(1, 3))]

    def op_new_py(self, tag=None, script=None):
        tag = tag or self.rng.choice(["box", "dtor", "buf", "box"])
        if tag == "dtor" and script is None:
            script = self.rand_script()
        obj = Box() if tag == "box" else Dtor(self, script) if tag == "dtor" else Buf(b"0123456789abcdef")
        if tag == "buf":
            obj.fields = []
        r = self.new_rec(tag, obj)
        self.hold(r, obj)
        self.emit("new_py %s" % tag, "ok %d" % r.mid)

    def op_new_plain(self):
        obj = self.ffi.new(self.t_intp) if self.rng.random() < 0.5 else self.ffi.new(self.t_chararr, 24)
        r = self.new_rec("plain", obj)
        self.hold(r, obj)
        self.emit("new_plain", "ok %d" % r.mid)

    def op_new_struct(self):
        p = self.ffi.new(self.t_structp)
        s = p[0]
        rs = self.new_rec("struct", s)
        rp = self.new_rec("structptr", p)
        del s
        rp.sid = rs.mid
        rs.default_struct = True
        rs.canary = self.rng.randrange(1, 2 ** 31 - 1)
        p.x = rs.canary
        p.y = -rs.canary
        self.hold(rp, p)
        self.emit("new_struct", "ok %d %d" % (rp.mid, rs.mid))

    def get_allocator(self, free_mid, free_obj):
        key = free_mid
        if key not in self.allocators:
            ffi1 = self.ffi1
            pend = self.pending_raw

            def alloc(size, ffi1=ffi1, pend=pend):
                raw = ffi1.new("char[]", max(size, 1))
                pend.append(raw)
                return raw
            self.allocators[key] = self.ffi.new_allocator(alloc, free_obj)
        return self.allocators[key]

    def op_alloc(self, struct, free=None):
        if free is not None:
            c = free or None
        else:
            c = self.pick(lambda r: r.kind == "dtor" and self.dtor_role(r) in (None, "free")) \
                if self.rng.random() < 0.8 else None
        free_mid, free_obj = (c[1], c[2]) if c else (None, None)
        if free_obj is not None:
            self.role[free_mid] = "free"
        al = self.get_allocator(free_mid, free_obj)
        del self.pending_raw[:]
        obj = al(self.t_structp) if struct else al(self.t_intarr, 4)
        raw = self.pending_raw.pop()
        rraw = self.new_rec("raw", raw)
        if struct:
            s = obj[0]
            rw = self.new_rec("gcp", s)
            del s
            rp = self.new_rec("structptr", obj)
            rp.sid = rw.mid
            held = rp
        else:
            rw = self.new_rec("gcp", obj)
            held = rw
        rw.is_alloc = True
        rw.had_dtor = free_obj is not None
        rw.orig_id = id(raw)
        rw.orig_mid = rraw.mid
        rw.dtor_mid = free_mid
        self.raw_by_id[id(raw)] = rw.mid
        del raw
        self.hold(held, obj)
        f = "-" if free_mid is None else str(free_mid)
        if struct:
            self.emit("alloc_struct %s" % f, "ok %d %d %d" % (held.mid, rw.mid, rraw.mid))
        else:
            self.emit("alloc_plain %s" % f, "ok %d %d" % (rw.mid, rraw.mid))

    def dtor_role(self, r):
        return self.role.get(r.mid)

    def op_gc(self, p=None, d=None):
        p = p or self.pick(lambda r: r.kind in ("plain", "struct", "structptr", "gcp", "frombuf", "handle", "raw"))
        if p is None:
            return False
        d = d or self.pick(lambda r: r.kind == "dtor" and self.dtor_role(r) is None)
        if d is None:
            self.op_new_py("dtor")
            d = (len(self.slots) - 1,) + self.slots[-1]
        self.role[d[1]] = "gc"
        g = self.ffi.gc(p[2], d[2])
        r = self.new_rec("gcp", g)
        r.had_dtor = True
        r.orig_id = id(p[2])
        r.orig_mid = p[1]
        r.dtor_mid = d[1]
        d[2].wid = r.mid
        self.hold(r, g)
        self.emit("gc %d %d" % (p[1], d[1]), "ok %d" % r.mid)
        return True

    def op_gc_none(self):
        g = self.pick(lambda r: r.kind == "gcp")
        if g is None:
            return False
        r = self.recs[g[1]]
        if r.noned_at is None:
            r.noned_at = r.calls
            if r.calls == 0 and not r.released:
                r.noned_first = True
        self.emit("gc_none %d" % g[1], "ok")
        res = self.ffi.gc(g[2], None)          # may deallocate the destructor object
        if res is not None:
            self.fail("ffi.gc(x, None) returned %r" % (res,))
        self.flush_deaths()
        return True

    def release_target(self, r):
        """The wrapper whose destructor release(r) may call."""
        if r.kind == "gcp":
            return r
        if r.kind == "structptr" and self.recs[r.sid].kind == "gcp":
            return self.recs[r.sid]
        return None

    def op_release(self, how, x=None):
        x = x or self.pick(lambda r: r.kind in ("plain", "structptr", "gcp", "frombuf", "raw"))
        if x is None:
            return False
        r = self.recs[x[1]]
        n = 2 if how == "twice" else 1
        for k in range(n):
            t = self.release_target(r)
            # the line first: what the destructor does while it runs comes after it
            idx = self.emit("%s %d" % ("with_exit" if how == "with" else "release", x[1]), "ok")
            ent = {"target": t.mid if t is not None else None, "fired": False, "idx": idx}
            self.rel_stack.append(ent)
            if t is not None:
                t.released = True
                t.fin = True
            if r.kind == "frombuf":
                r.released = True
            try:
                if how == "with":
                    with x[2] as y:
                        if y is not x[2]:
                            self.fail("__enter__ did not return the cdata itself")
                        del y
                else:
                    self.ffi.release(x[2])
            finally:
                self.rel_stack.remove(ent)
            if k == 1 and ent["fired"]:
                self.fail("second ffi.release() called the destructor again")
            self.flush_deaths()
        return True

    def op_drop(self, i=None):
        if not self.slots:
            return False
        if i is None:
            i = self.rng.randrange(len(self.slots))
        ref = self.slots.pop(i)
        self.emit("drop_ref %d" % ref[0], "ok")
        del ref                    # deallocations and destructor calls happen here
        self.flush_deaths()
        return True

    def op_store(self):
        c = self.pick(lambda r: r.kind in ("box", "dtor", "buf"))
        if c is None or not self.slots:
            return False
        # prefer targets that can close a cycle (wrappers, handles, views, struct pointers)
        cyc = [sl for sl in self.slots if self.recs[sl[0]].kind in ("gcp", "handle", "frombuf", "structptr")]
        x = self.rng.choice(cyc) if cyc and self.rng.random() < 0.6 else self.rng.choice(self.slots)
        return self.do_store(c, x)

    def do_store(self, c, x):
        c[2].fields.append(x[1])
        self.recs[c[1]].fields.append(x[0])
        if isinstance(c[2], Dtor) and c[2].wid == x[0]:
            c[2].own = len(c[2].fields) - 1
        self.emit("store %d %d" % (c[1], x[0]), "ok")
        return True

    def op_clear(self):
        c = self.pick(lambda r: r.kind in ("box", "dtor", "buf"))
        if c is None:
            return False
        self.emit("clear %d" % c[1], "ok")
        if isinstance(c[2], Dtor):
            c[2].own = None
        self.recs[c[1]].fields = []
        del c[2].fields[:]
        self.flush_deaths()
        return True

    def op_alias(self):
        p = self.pick(lambda r: r.kind == "structptr")
        if p is None:
            return False
        s = p[2][0]
        rs = self.recs[self.recs[p[1]].sid]
        if rs.wr() is not s:
            self.fail("p[0] is not the struct object owned by p")
        self.slots.append((rs.mid, s))
        self.emit("alias %d" % p[1], "ok %d" % rs.mid)
        return True

    def op_new_handle(self):
        if not self.slots:
            return False
        x = self.rng.choice(self.slots)
        h = self.ffi.new_handle(x[1])
        addr = int(self.ffi1.cast("intptr_t", h))
        for r in self.recs.values():
            if r.kind == "handle" and not r.dead and r.addr == addr:
                self.fail("two live handles have the same address")
        a = self.addr_index.setdefault(addr, len(self.addr_index) + 1)
        rh = self.new_rec("handle", h)
        rh.addr = addr
        rh.target = x[0]
        self.hold(rh, h)
        self.emit("new_handle %d %d" % (x[0], a), "ok %d" % rh.mid)
        return True

    def op_from_handle(self):
        h = self.pick(lambda r: r.kind == "handle")
        if h is None:
            return False
        rh = self.recs[h[1]]
        k = self.rng.randrange(3)
        arg = h[2] if k == 0 else self.ffi1.cast("void *", h[2]) if k == 1 else self.ffi1.cast("char *", h[2])
        got = self.ffi.from_handle(arg)
        want = self.recs[rh.target].wr()
        if got is not want or want is None:
            self.fail("from_handle did not return the object given to new_handle")
        del got, want, arg
        self.emit("from_handle %d" % self.addr_index[rh.addr], "ok %d" % rh.target)
        # the model counted the returned reference; give it back
        self.emit("drop_ref %d" % rh.target, "ok")
        return True

    def op_from_buffer(self):
        b = self.pick(lambda r: r.kind == "buf")
        if b is None:
            return False
        if self.rng.random() < 0.5:
            f = self.ffi.from_buffer(b[2])
        else:
            f = self.ffi.from_buffer(self.t_chararr, b[2])
        r = self.new_rec("frombuf", f)
        r.src = b[1]
        self.hold(r, f)
        self.emit("from_buffer %d" % b[1], "ok %d" % r.mid)
        return True

    def views_of(self, bmid):
        return [r for r in self.recs.values()
                if r.kind == "frombuf" and r.src == bmid and not r.dead and not r.released]

    def op_resize(self):
        b = self.pick(lambda r: r.kind == "buf")
        if b is None:
            return False
        locked = bool(self.views_of(b[1]))
        try:
            b[2].extend(b"xy")
            raised = False
        except BufferError:
            raised = True
        if raised:
            try:
                del b[2][-1:]
            except BufferError:
                pass
        if locked and not raised:
            self.fail("bytearray could be resized while a from_buffer() view on it is alive and not released")
        if not locked and raised:
            self.fail("bytearray still export-locked after every from_buffer() view was released or collected")
        self.emit("resize %d" % b[1], "err BufferError" if raised else "ok")
        self.count("resize:" + ("BufferError" if raised else "ok"))
        return True

    def op_reject(self):
        """Calls the implementation must refuse; they change nothing."""
        k = self.rng.randrange(5)
        if k == 0:
            x = self.pick(lambda r: r.kind == "handle")
            line, exc = "release", ValueError
        elif k == 1:
            x = self.pick(lambda r: r.kind == "struct")
            line, exc = "release", ValueError
        elif k == 2:
            x = self.pick(lambda r: r.kind in ("box", "dtor", "buf"))
            line, exc = "release", TypeError
        elif k == 3:
            x = self.pick(lambda r: r.kind in ("plain", "struct", "structptr", "frombuf", "handle", "raw", "box"))
            line, exc = "gc_none", TypeError
        else:
            x = self.pick(lambda r: r.kind in ("box", "dtor"))
            line, exc = "from_buffer", TypeError
        if x is None:
            return False
        try:
            if line == "release":
                if self.rng.random() < 0.5:
                    self.ffi.release(x[2])
                else:
                    with x[2]:
                        pass
                    line = "with_exit"
            elif line == "gc_none":
                self.ffi.gc(x[2], None)
            else:
                self.ffi.from_buffer(x[2])
            got = None
        except (ValueError, TypeError) as e:
            got = type(e)
        if got is not exc:
            self.fail("%s on a %s: expected %s, got %s" % (line, self.recs[x[1]].kind, exc.__name__,
                                                           got.__name__ if got else "no error"))
        self.emit("%s %d" % (line, x[1]), "err " + (got.__name__ if got else "none"), "reject:" + line)
        return True

    def op_touch(self):
        """Read the canary of a struct through whatever alias the program holds."""
        c = self.held(lambda r: (r.kind == "structptr" and self.recs[r.sid].default_struct) or
                      (r.kind == "struct" and r.default_struct))
        if not c:
            return False
        junk = [self.ffi1.new("struct c21s *", [7, 7]) for _ in range(6)]
        del junk
        for _, mid, obj in c:
            r = self.recs[mid]
            rs = self.recs[r.sid] if r.kind == "structptr" else r
            if obj.x != rs.canary or obj.y != -rs.canary:
                self.fail("struct memory changed while p or p[0] was alive")
        return None      # no model line

    # ---- one step
    def silent_finalizes(self):
        """tp_finalize of the garbage wrappers whose destructor slot is empty: no callback, but the reference to
        the original cdata is given up there.  Their place among the other finalisers cannot be observed;
        they are reported before the first one that can."""
        if self.gc_silent_done:
            return
        self.gc_silent_done = True
        S = " ".join(str(i) for i in sorted(self.gc_garbage))
        for mid in sorted(self.gc_garbage):
            r = self.recs[mid]
            if mid in self.gc_finalized:
                continue
            if r.kind == "gcp" and not (r.had_dtor and r.calls == 0 and r.noned_at is None and not r.released):
                self.gc_finalized.add(mid)
                r.fin = True
                self.emit("finalize %d %s" % (mid, S), "ok", "finalize")

    def do_collect(self):
        if self.gc_phase is not None:
            return                 # gc.collect() while a collection is in progress does nothing
        self.flush_deaths()
        self.gc_phase = 1
        self.gc_garbage = set()
        self.gc_finalized = set()
        self.gc_silent_done = False
        try:
            gc.collect()
        finally:
            garbage = bool(self.gc_garbage)
            self.gc_phase = None
        if garbage:
            self.cyclic_collected = True
            self.count("event:cycle-collected")
        self.flush_deaths()

    def settle(self, collect):
        """Report what the implementation deallocated (its choice)."""
        self.flush_deaths()
        if collect:
            self.do_collect()

    def check_clauses(self):
        for r in self.recs.values():
            if r.kind == "gcp":
                what = "free function" if r.is_alloc else "destructor"
                if r.calls > 1:
                    self.fail("%s of wrapper %d called %d times" % (what, r.mid, r.calls))
                if r.noned_at is not None and r.calls != r.noned_at:
                    self.fail("%s of wrapper %d called after ffi.gc(x, None)" % (what, r.mid))
                if not r.had_dtor:
                    continue
                done = r.dead or r.released
                if done and not r.noned_first and r.calls != 1:
                    self.fail("%s of wrapper %d called %d times although the wrapper is %s"
                              % (what, r.mid, r.calls, "dead" if r.dead else "released"))
                if not done and r.calls != 0:
                    self.fail("%s of wrapper %d called while the wrapper is alive and not released" % (what, r.mid))
            elif r.kind == "frombuf":
                if not r.dead and not r.released and self.recs[r.src].dead:
                    self.fail("source of a live from_buffer() view was deallocated")
            elif r.kind == "structptr":
                if not r.dead and self.recs[r.sid].dead:
                    self.fail("struct object deallocated while the pointer from ffi.new() is alive")
            elif r.kind == "handle":
                if not r.dead and self.recs[r.target].dead:
                    self.fail("object of a live handle was deallocated")

    WEIGHTS = [("new_py", 10), ("new_plain", 5), ("new_struct", 6), ("alloc_plain", 5), ("alloc_struct", 5),
               ("gc", 16), ("gc_none", 4), ("release", 6), ("with", 4), ("twice", 3), ("drop", 16), ("store", 12),
               ("clear", 3), ("alias", 5), ("new_handle", 6), ("from_handle", 5), ("from_buffer", 7),
               ("resize", 8), ("reject", 4), ("touch", 4), ("thread", 1)]

    def op_table(self):
        return {"new_py": self.op_new_py, "new_plain": self.op_new_plain, "new_struct": self.op_new_struct,
                "alloc_plain": lambda: self.op_alloc(False), "alloc_struct": lambda: self.op_alloc(True),
                "gc": self.op_gc, "gc_none": self.op_gc_none, "release": lambda: self.op_release("release"),
                "with": lambda: self.op_release("with"), "twice": lambda: self.op_release("twice"),
                "drop": self.op_drop, "store": self.op_store, "clear": self.op_clear, "alias": self.op_alias,
                "new_handle": self.op_new_handle, "from_handle": self.op_from_handle,
                "from_buffer": self.op_from_buffer, "resize": self.op_resize, "reject": self.op_reject,
                "touch": self.op_touch, "thread": self.op_thread_release}

    def random_op(self, nested=False):
        names = [n for n, _ in self.WEIGHTS]
        weights = [w for _, w in self.WEIGHTS]
        for _ in range(20):
            name = self.rng.choices(names, weights)[0]
            if nested and name == "thread":
                continue
            ok = self.op_table()[name]()
            if ok is False:
                continue
            self.opnames.append(("in:" if nested else "") + name)
            self.count(("nested-op:" if nested else "op:") + name)
            self.flush_deaths()
            return name
        return None

    def op_thread_release(self, alloc=False, how=None):
        """Two threads: A is inside the destructor (blocked, GIL released) when B releases the same wrapper."""
        if self.depth or self.thread_done:
            return False
        self.thread_done = True
        self.op_new_py("dtor", script=["block"])
        d = (len(self.slots) - 1,) + self.slots[-1]
        if alloc:
            self.op_alloc(False, free=d)
        else:
            self.op_new_plain()
            p = (len(self.slots) - 1,) + self.slots[-1]
            self.op_gc(p, d)
        g = (len(self.slots) - 1,) + self.slots[-1]
        started, proceed = threading.Event(), threading.Event()
        d[2].block = (started, proceed)
        errors = []
        how = how or self.rng.choice(["release", "with"])

        def second():
            try:
                if not started.wait(30):
                    errors.append("the destructor was not entered")
                    return
                self.op_release(how, g)
            except BaseException as e:
                errors.append("%s: %s" % (type(e).__name__, e))
            finally:
                proceed.set()
        t = threading.Thread(target=second)
        t.start()
        try:
            self.op_release("release", g)
        finally:
            proceed.set()
            t.join(60)
        if t.is_alive() or self.timeout or (errors and "not entered" in errors[0]):
            raise InfraTimeout(self.timeout or (errors[0] if errors else "second thread still running"))
        if errors:
            raise RuntimeError(errors[0])
        self.count("event:two-thread-release")
        return True

    def finish(self):
        # end of the history: drop everything, collect, every armed wrapper must have fired exactly once
        while self.slots and not self.broken:
            self.op_drop(len(self.slots) - 1)
        del self.slots[:]
        self.allocators.clear()
        if not self.broken:
            self.settle(True)
            self.settle(True)
            self.check_clauses()
        for r in self.recs.values():
            if r.kind == "gcp" and not self.broken:
                self.emit("calls %d" % r.mid, "ok %d" % r.calls, "calls")
                if not r.dead:
                    # not a clause of the property: a cycle through a non-GC cdata type (the pointer returned
                    # by allocator("struct s *") is a CDataOwning object) is never found by the collector
                    self.count("event:wrapper-never-collected")

    def guarded(self, name, fn):
        try:
            return fn()
        except InfraTimeout:
            raise
        except Exception as e:
            # the implementation refused an operation it must accept: the history cannot be followed
            # any further (not a clause of the property by itself; reported as a disagreement)
            self.broken = "operation %s raised %s: %s" % (name, type(e).__name__, e)
            self.emit("noop", "impl-raised " + type(e).__name__, "broken")
            return None

    def run(self):
        nops = self.rng.randint(15, MAXOPS)
        p_collect = self.rng.choice([0.15, 0.4, 1.0])
        was = gc.isenabled()
        gc.disable()
        try:
            gc.collect()
            self.emit("reset", "ok")
            if self.flavor.startswith("scenario"):
                self.guarded(self.flavor, lambda: self.scenario(int(self.flavor.split(":")[1])))
                if not self.broken:
                    self.settle(True)
                    self.check_clauses()
            else:
                tries = 0
                while len(self.opnames) + self.nested_ops < nops and tries < 10 * nops and not self.broken:
                    tries += 1
                    if self.guarded("random_op", self.random_op) is None:
                        break
                    self.settle(self.rng.random() < p_collect)
                    self.check_clauses()
            self.guarded("finish", self.finish)
        finally:
            if was:
                gc.enable()
        return self.result()

    # ---- fixed histories, run in every check: operations issued from inside destructor / free callbacks
    def last(self):
        return (len(self.slots) - 1,) + self.slots[-1]

    def scenario(self, n):
        if n == 0:      # the destructor releases / with-exits its own wrapper while ffi.release() runs it
            self.op_new_plain(); p = self.last()
            self.op_new_py("dtor", script=["release_self", "with_self", "twice_self"]); d = self.last()
            self.op_gc(p, d); g = self.last()
            self.op_release("release", g)
            self.op_release("twice", g)
        elif n == 1:    # the free callback does `with arr:` on the allocation being released
            self.op_new_py("dtor", script=["with_self", "release_self"]); f = self.last()
            self.op_alloc(False, free=f); a = self.last()
            self.op_release("with", a)
            self.op_release("release", a)
        elif n == 2:    # allocator("struct s *"): the free callback releases the pointer and p[0] again
            self.op_new_py("dtor", script=["release_self", "with_self"]); f = self.last()
            self.op_alloc(True, free=f); a = self.last()
            self.op_alias()
            self.op_release("release", a)
            self.op_release("with", self.last())
        elif n == 3:    # cycle wrapper -> destructor -> wrapper: the collector's finaliser releases the wrapper
            self.op_new_plain(); p = self.last()
            self.op_new_py("dtor", script=["release_self", "with_self", "collect"]); d = self.last()
            self.op_gc(p, d); g = self.last()
            self.do_store(d, (g[1], g[2]))
            for _ in range(3):
                self.op_drop(len(self.slots) - 1)
            self.do_collect()
        elif n == 4:    # destructor called at deallocation: collects, releases another wrapper, whose destructor
            #             releases itself and drops things
            self.op_new_plain(); p = self.last()
            self.op_new_py("dtor", script=["twice_self", "drop_self"]); d2 = self.last()
            self.op_gc(p, d2); g2 = self.last()
            self.op_new_py("dtor", script=["collect", "release_other", "drop_other", "random"]); d1 = self.last()
            self.op_gc(p, d1)
            self.op_drop(len(self.slots) - 1)      # the wrapper g1 dies: its destructor runs
        elif n == 5:    # two threads, ffi.gc wrapper
            self.thread_done = False
            self.op_thread_release(alloc=False, how="release")
        elif n == 6:    # two threads, allocation, second thread leaves a `with` block
            self.thread_done = False
            self.op_thread_release(alloc=True, how="with")
        else:
            raise AssertionError(n)

    def result(self):
        return {"hseed": self.hseed, "flavor": self.flavor, "lines": [l for l, _, _ in self.lines],
                "expect": [e for _, e, _ in self.lines], "fails": self.fails, "counts": self.counts,
                "ops": self.opnames,
                "nontrivial": self.cyclic_collected and self.dtor_at_dealloc and self.nested_ops > 0,
                "broken": self.broken}


def run_history(hseed, flavor, sink=None):
    h = Hist(hseed, flavor)
    h.early_sink = sink
    return h.run()


# --------------------------------------------------------------------------
# isolation: histories run in a forked child

EARLY = []          # failures reported by the last child before the end of their history


def in_child(jobs, timeout=600):
    """Run [(hseed, flavor)] in a forked child; returns (results, crash) where crash is None or a
    description (the child died) -- results then holds what was finished before."""
    r, w = os.pipe()
    sys.stdout.flush()
    sys.stderr.flush()
    pid = os.fork()
    if pid == 0:
        code = 0
        try:
            os.close(r)
            with os.fdopen(w, "w") as out:
                def sink(obj):
                    out.write(json.dumps(obj) + "\n")
                    out.flush()
                for hseed, flavor in jobs:
                    res = run_history(hseed, flavor, sink)
                    out.write(json.dumps(res) + "\n")
                    out.flush()
        except BaseException:
            import traceback
            traceback.print_exc()
            code = 3
        finally:
            os._exit(code)
    os.close(w)
    results = []
    del EARLY[:]
    with os.fdopen(r) as inp:
        for line in inp:
            if line.endswith("\n"):
                obj = json.loads(line)
                if "early" in obj:
                    EARLY.append(obj)
                else:
                    results.append(obj)
    _, status = os.waitpid(pid, 0)
    if os.WIFSIGNALED(status):
        return results, "interpreter killed by signal %d" % os.WTERMSIG(status)
    if os.WEXITSTATUS(status) == 3:
        raise InfraError("history runner raised an exception (see stderr)")
    if os.WEXITSTATUS(status) != 0:
        return results, "interpreter exited with status %d" % os.WEXITSTATUS(status)
    return results, None


NSCENARIOS = 7


def jobs_for(ctx, n, tag):
    return [("C21/%d/%s/%d" % (ctx.seed, tag, i), "api" if i % 2 == 0 else "backend") for i in range(n)]


def scenario_jobs():
    return [("C21/scenario/%d/%s" % (k, fl), "scenario:%d:%s" % (k, fl))
            for k in range(NSCENARIOS) for fl in ("api", "backend")]


def case_of(res, extra=None):
    c = {"hseed": res["hseed"], "flavor": res["flavor"], "ops": res.get("ops", []), "trace": res.get("lines", [])}
    if extra:
        c.update(extra)
    return c


def run_all(ctx, jobs, model=True):
    results, crash = in_child(jobs)
    if crash is not None:
        # locate the history that kills the interpreter: the one after the last finished
        job = jobs[len(results)]
        _, crash1 = in_child([job])
        early = [e for e in EARLY if e["early"] == job[0]]
        if early:
            for e in early[:3]:
                ctx.fail({"hseed": job[0], "flavor": job[1], "at": e["at"], "trace": e["lines"], "crash": True},
                         "%s (afterwards: %s)" % (e["detail"], crash1 or crash))
        else:
            ctx.fail({"hseed": job[0], "flavor": job[1], "crash": True},
                     "%s while running this history (memory no longer valid / fatal error)" % (crash1 or crash))
        rest = jobs[len(results) + 1:]
        if rest:
            more, _ = in_child(rest)
            results += more
    lines, expect, owner = [], [], []
    for res in results:
        key = tuple(res["ops"]) if res["nontrivial"] else None
        ctx.case(key, sample={"hseed": res["hseed"], "flavor": res["flavor"], "ops": res["ops"][:12]})
        ctx.evaluations += len(res["lines"]) - 1
        for k, v in res["counts"].items():
            ctx.count(k, v)
        ctx.count("history:" + res["flavor"].split(":")[0] + ("" if ":" not in res["flavor"] else "-fixed"))
        for f in res["fails"]:
            ctx.fail(case_of(res, {"at": f["at"]}), f["detail"])
        if res.get("broken"):
            ctx.disagree(case_of(res), res["broken"], "accepted by the model", "the implementation raised")
            ctx.count("history:broken")
        for l, e in zip(res["lines"], res["expect"]):
            if l == "noop":
                continue
            lines.append(l)
            expect.append(e)
            owner.append(res)
    if not model:
        return results
    out = ctx.driver(lines)
    bad = set()
    for i, (o, e) in enumerate(zip(out, expect)):
        if o != e and id(owner[i]) not in bad:
            bad.add(id(owner[i]))
            ctx.disagree(case_of(owner[i]), e, o, "operation %r: implementation %r, model %r" % (lines[i], e, o))
    return results


# --------------------------------------------------------------------------
# entry points

def correspond(ctx):
    run_all(ctx, scenario_jobs() + jobs_for(ctx, ctx.n(200, 2500), "c"))


def search(ctx):
    run_all(ctx, scenario_jobs() + jobs_for(ctx, ctx.n(1500, 8000), "s"), model=False)


def replay(ctx, obj):
    case = obj["case"]
    results, crash = in_child([(case["hseed"], case["flavor"])])
    if crash:
        print("history %s: %s" % (case["hseed"], crash))
        return 1
    res = results[0]
    for l in res["lines"]:
        print(l)
    for f in res["fails"]:
        print("FAIL at line %d: %s" % (f["at"], f["detail"]))
    return 1 if res["fails"] else 0
