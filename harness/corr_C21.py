"""C21 -- ownership, destructors and handles behave correctly over any history.

Theorems (lean/CffiVerif/Props/C21.lean) over the transition system
Model/Ownership.lean: destructor_at_most_once,
destructor_exactly_once_when_dead_or_released, never_after_gc_none,
free_fn_exactly_once(_struct), release_idempotent, frombuf_export_until_release
(+ frombuf_resize_ok_iff_no_live_view, release_drops_export),
struct_memory_valid_while_either_alive, handles_distinct,
from_handle_returns_original, collect_only_unreachable.

Tie to the code: random histories (<= 60 operations) on the real
implementation.  Every object of a history is watched through a weakref, every
destructor / free function is a Python callable that counts, the collector is
run explicitly (automatic collection is off, so a history is a function of its
seed).  After every operation
  * the clauses of the property are evaluated directly from what was observed
    (call counters, BufferError on resize, identity of from_handle results,
    handle addresses, canaries written through struct pointers) -> ctx.fail;
  * the operation, the implementation's choices (which objects it deallocated,
    which address a handle got) and the observed destructor calls are written as
    lines of the model's protocol; the model must accept the whole trace and
    predict the same destructor calls, errors and resize outcomes -> ctx.disagree.
Histories run in forked children, so that a crash of the interpreter (use after
free, Py_FatalError) is reported as a failure of that history instead of killing
the check.
"""
import gc
import json
import os
import signal
import sys
import weakref
import random

import common
from common import InfraError

MANIFEST = {
    "text": "Kernel-checked invariants of a state machine of cffi's ownership machinery (ffi.gc wrappers with destructor "
            "and origobj slots, allocator allocations, struct pointers owning their struct object, from_buffer views, "
            "handles, Python containers forming cycles, a collector that may finalise any unreferenced set at any step): "
            "over every operation list a destructor / free function is called at most once per wrapper, exactly once "
            "once the wrapper is released or deallocated and never before, never after ffi.gc(x, None); ffi.release is "
            "idempotent; a live unreleased from_buffer view keeps its source alive and un-resizable and releasing "
            "unlocks; a live struct pointer (or a held p[0]) keeps the struct object from being finalised; live handles "
            "have distinct addresses and from_handle returns the object given to new_handle.  The model is tied to "
            "_cffi_backend by replaying random histories (cycles, explicit collections, both FFI front ends) whose "
            "observed deallocations and destructor calls the model must accept and predict.",
    "note": "Trusted: Lean kernel; CPython's reference counting / cycle collector / weakref semantics and bytearray's "
            "export counter are parameters of the model (the collector rule is 'any set nothing outside refers to'); "
            "the harness's bookkeeping of who references whom.  Not modelled: destructors that raise or resurrect "
            "objects, callbacks (closures) owned by CDataOwningGC objects, threads, interpreter shutdown.",
    "technique": "Lean 4 proof (invariant by induction over operation lists of a nondeterministic state machine) + "
                 "trace acceptance of random stateful histories on the real implementation + direct property oracles",
}

RULE = ("histories of 15..60 operations drawn by weight from: new Python container / destructor / bytearray-subclass, "
        "ffi.new (plain and struct *), allocator() (plain and struct *, free function present or None), ffi.gc(p, d), "
        "ffi.gc(g, None), ffi.release, with-statement, double release, p[0], store into a container (cycles through "
        "destructor objects, handle targets and buffer sources), clear a container, drop a reference, new_handle, "
        "from_handle (through the handle, a void* and a char* cast), from_buffer, bytearray resize, gc.collect(), plus "
        "the calls the implementation rejects (release of a handle / a struct, gc(non-wrapper, None), ...); a history "
        "is non-trivial when a destructor ran at a deallocation and a reference cycle was collected; distinct = "
        "distinct operation sequences")
ASSUMPTIONS = ["CPython 3.12 reference counting, cycle collector and weakref clearing order",
               "bytearray refuses to resize exactly while its export counter is non-zero",
               "destructors return normally and do not keep their argument"]
CLASSES = {}

MAXOPS = 60


# --------------------------------------------------------------------------
# Python-level objects of a history

class Box(object):
    __slots__ = ("fields", "__weakref__")

    def __init__(self):
        self.fields = []


class Dtor(object):
    __slots__ = ("fields", "hist", "wid", "__weakref__")

    def __init__(self, hist):
        self.fields = []
        # a strong reference: a weakref held by an object that is itself cyclic garbage is cleared by the
        # collector before the finalisers run, and the call would go unnoticed
        self.hist = hist
        self.wid = None          # wrapper this destructor belongs to; None = free function of an allocator

    def __call__(self, arg):
        self.hist.on_call(self, arg)


class Buf(bytearray):
    pass                         # instances have a __dict__: .fields


class Rec(object):
    """What the harness knows about one object of the history (never a strong reference)."""
    def __init__(self, mid, kind):
        self.mid = mid
        self.kind = kind          # box dtor buf plain struct structptr gcp frombuf handle raw
        self.wr = None
        self.dead = False
        # wrappers
        self.had_dtor = False
        self.is_alloc = False
        self.calls = 0
        self.released = False
        self.noned_first = False
        self.noned_at = None      # call count when gc(x, None) was applied
        self.orig_id = None
        # struct pointers / structs
        self.sid = None           # structptr -> struct record id
        self.default_struct = False
        self.canary = None
        # views
        self.src = None
        # handles
        self.addr = None
        self.target = None


class Failure(Exception):
    pass


class Hist(object):
    def __init__(self, hseed, flavor):
        import cffi
        import _cffi_backend
        self.rng = random.Random(hseed)
        self.hseed = hseed
        self.flavor = flavor
        self.ffi1 = cffi.FFI()
        self.ffi1.cdef("struct c21s { int x; int y; };")
        self.ffi = self.ffi1 if flavor == "api" else _cffi_backend.FFI()
        self.t_structp = self.ffi1.typeof("struct c21s *")
        self.t_intp = self.ffi1.typeof("int *")
        self.t_chararr = self.ffi1.typeof("char[]")
        self.t_intarr = self.ffi1.typeof("int[]")
        self.recs = {}
        self.next_id = 0
        self.slots = []            # (mid, strong reference)
        self.lines = []            # (line, expected answer or None, what)
        self.fails = []
        self.counts = {}
        self.deaths = []           # model ids deallocated during the current step
        self.fired = []            # wrapper ids whose destructor ran during the current step
        self.pending_raw = []
        self.raw_by_id = {}        # id(raw cdata) -> wrapper mid
        self.addr_index = {}
        self.opnames = []
        self.allocators = {}       # free-function mid (or None) -> allocator callable
        self.cyclic_collected = False
        self.dtor_at_dealloc = False
        self.broken = None
        self.role = {}             # destructor object id -> "gc" (used by one ffi.gc call) | "free" (of an allocator)

    # ---- bookkeeping
    def count(self, k, n=1):
        self.counts[k] = self.counts.get(k, 0) + n

    def fail(self, detail):
        self.fails.append({"at": len(self.lines), "detail": detail})

    def new_rec(self, kind, obj):
        mid = self.next_id
        self.next_id += 1
        r = Rec(mid, kind)
        self.recs[mid] = r

        def cb(_wr, self=self, mid=mid):
            self.recs[mid].dead = True
            self.deaths.append(mid)
        r.wr = weakref.ref(obj, cb)
        return r

    def hold(self, rec, obj):
        self.slots.append((rec.mid, obj))

    def emit(self, line, expect, what=None):
        self.lines.append((line, expect, what or line.split(" ")[0]))

    def on_call(self, dtor, arg):
        if dtor.wid is not None:
            wid = dtor.wid
        else:
            wid = self.raw_by_id.get(id(arg))
            if wid is None:
                self.fail("free function called with a cdata that is not the result of alloc()")
                return
        r = self.recs[wid]
        r.calls += 1
        self.fired.append(wid)
        if r.orig_id is not None and id(arg) != r.orig_id:
            self.fail("destructor of wrapper %d called with an object that is not the original cdata" % wid)

    # ---- choosing operands among the references the program holds
    def held(self, pred):
        return [(i, mid, obj) for i, (mid, obj) in enumerate(self.slots) if pred(self.recs[mid])]

    def pick(self, pred):
        c = self.held(pred)
        return self.rng.choice(c) if c else None

    # ---- the operations
    def op_new_py(self, tag=None):
        tag = tag or self.rng.choice(["box", "dtor", "buf", "box"])
        obj = Box() if tag == "box" else Dtor(self) if tag == "dtor" else Buf(b"0123456789abcdef")
        if tag == "buf":
            obj.fields = []
        r = self.new_rec(tag, obj)
        self.hold(r, obj)
        self.emit("new_py %s" % tag, "ok %d" % r.mid)

    def op_new_plain(self):
        obj = self.ffi.new(self.t_intp) if self.rng.random() < 0.5 else self.ffi.new(self.t_chararr, 24)
        r = self.new_rec("plain", obj)
        self.hold(r, obj)
        self.emit("new_plain", "ok %d" % r.mid)

    def op_new_struct(self):
        p = self.ffi.new(self.t_structp)
        s = p[0]
        rs = self.new_rec("struct", s)
        rp = self.new_rec("structptr", p)
        del s
        rp.sid = rs.mid
        rs.default_struct = True
        rs.canary = self.rng.randrange(1, 2 ** 31 - 1)
        p.x = rs.canary
        p.y = -rs.canary
        self.hold(rp, p)
        self.emit("new_struct", "ok %d %d" % (rp.mid, rs.mid))

    def get_allocator(self, free_mid, free_obj):
        key = free_mid
        if key not in self.allocators:
            ffi1 = self.ffi1
            pend = self.pending_raw

            def alloc(size, ffi1=ffi1, pend=pend):
                raw = ffi1.new("char[]", max(size, 1))
                pend.append(raw)
                return raw
            self.allocators[key] = self.ffi.new_allocator(alloc, free_obj)
        return self.allocators[key]

    def op_alloc(self, struct):
        c = self.pick(lambda r: r.kind == "dtor" and self.dtor_role(r) in (None, "free")) \
            if self.rng.random() < 0.8 else None
        free_mid, free_obj = (c[1], c[2]) if c else (None, None)
        if free_obj is not None:
            self.role[free_mid] = "free"
        al = self.get_allocator(free_mid, free_obj)
        del self.pending_raw[:]
        obj = al(self.t_structp) if struct else al(self.t_intarr, 4)
        raw = self.pending_raw.pop()
        rraw = self.new_rec("raw", raw)
        if struct:
            s = obj[0]
            rw = self.new_rec("gcp", s)
            del s
            rp = self.new_rec("structptr", obj)
            rp.sid = rw.mid
            held = rp
        else:
            rw = self.new_rec("gcp", obj)
            held = rw
        rw.is_alloc = True
        rw.had_dtor = free_obj is not None
        rw.orig_id = id(raw)
        self.raw_by_id[id(raw)] = rw.mid
        del raw
        self.hold(held, obj)
        f = "-" if free_mid is None else str(free_mid)
        if struct:
            self.emit("alloc_struct %s" % f, "ok %d %d %d" % (held.mid, rw.mid, rraw.mid))
        else:
            self.emit("alloc_plain %s" % f, "ok %d %d" % (rw.mid, rraw.mid))

    def dtor_role(self, r):
        return self.role.get(r.mid)

    def op_gc(self):
        p = self.pick(lambda r: r.kind in ("plain", "struct", "structptr", "gcp", "frombuf", "handle", "raw"))
        if p is None:
            return False
        d = self.pick(lambda r: r.kind == "dtor" and self.dtor_role(r) is None)
        if d is None:
            self.op_new_py("dtor")
            d = (len(self.slots) - 1,) + self.slots[-1]
        self.role[d[1]] = "gc"
        g = self.ffi.gc(p[2], d[2])
        r = self.new_rec("gcp", g)
        r.had_dtor = True
        r.orig_id = id(p[2])
        d[2].wid = r.mid
        self.hold(r, g)
        self.emit("gc %d %d" % (p[1], d[1]), "ok %d" % r.mid)
        return True

    def op_gc_none(self):
        g = self.pick(lambda r: r.kind == "gcp")
        if g is None:
            return False
        res = self.ffi.gc(g[2], None)
        if res is not None:
            self.fail("ffi.gc(x, None) returned %r" % (res,))
        r = self.recs[g[1]]
        if r.noned_at is None:
            r.noned_at = r.calls
            if r.calls == 0 and not r.released:
                r.noned_first = True
        self.emit("gc_none %d" % g[1], "ok")
        return True

    def release_target(self, r):
        """The wrapper whose destructor release(r) may call."""
        if r.kind == "gcp":
            return r
        if r.kind == "structptr" and self.recs[r.sid].kind == "gcp":
            return self.recs[r.sid]
        return None

    def op_release(self, how):
        x = self.pick(lambda r: r.kind in ("plain", "structptr", "gcp", "frombuf", "raw"))
        if x is None:
            return False
        r = self.recs[x[1]]
        before = len(self.fired)
        n = 2 if how == "twice" else 1
        for k in range(n):
            if how == "with":
                with x[2] as y:
                    if y is not x[2]:
                        self.fail("__enter__ did not return the cdata itself")
                    del y
            else:
                self.ffi.release(x[2])
            t = self.release_target(r)
            own = []
            if t is not None and t.mid in self.fired[before:]:
                self.fired.remove(t.mid)
                own = [t.mid]
            if t is not None:
                t.released = True
            if r.kind == "frombuf":
                r.released = True
            if k == 1 and own:
                self.fail("second ffi.release() called the destructor again")
            self.emit("%s %d" % ("with_exit" if how == "with" else "release", x[1]),
                      " ".join(["ok"] + [str(i) for i in own]))
        return True

    def op_drop(self):
        if not self.slots:
            return False
        i = self.rng.randrange(len(self.slots))
        mid, _ = self.slots.pop(i)
        self.emit("drop_ref %d" % mid, "ok")
        return True

    def op_store(self):
        c = self.pick(lambda r: r.kind in ("box", "dtor", "buf"))
        if c is None or not self.slots:
            return False
        # prefer targets that can close a cycle (wrappers, handles, views, struct pointers)
        cyc = [sl for sl in self.slots if self.recs[sl[0]].kind in ("gcp", "handle", "frombuf", "structptr")]
        x = self.rng.choice(cyc) if cyc and self.rng.random() < 0.6 else self.rng.choice(self.slots)
        c[2].fields.append(x[1])
        self.emit("store %d %d" % (c[1], x[0]), "ok")
        return True

    def op_clear(self):
        c = self.pick(lambda r: r.kind in ("box", "dtor", "buf"))
        if c is None:
            return False
        del c[2].fields[:]
        self.emit("clear %d" % c[1], "ok")
        return True

    def op_alias(self):
        p = self.pick(lambda r: r.kind == "structptr")
        if p is None:
            return False
        s = p[2][0]
        rs = self.recs[self.recs[p[1]].sid]
        if rs.wr() is not s:
            self.fail("p[0] is not the struct object owned by p")
        self.slots.append((rs.mid, s))
        self.emit("alias %d" % p[1], "ok %d" % rs.mid)
        return True

    def op_new_handle(self):
        if not self.slots:
            return False
        x = self.rng.choice(self.slots)
        h = self.ffi.new_handle(x[1])
        addr = int(self.ffi1.cast("intptr_t", h))
        for r in self.recs.values():
            if r.kind == "handle" and not r.dead and r.addr == addr:
                self.fail("two live handles have the same address")
        a = self.addr_index.setdefault(addr, len(self.addr_index) + 1)
        rh = self.new_rec("handle", h)
        rh.addr = addr
        rh.target = x[0]
        self.hold(rh, h)
        self.emit("new_handle %d %d" % (x[0], a), "ok %d" % rh.mid)
        return True

    def op_from_handle(self):
        h = self.pick(lambda r: r.kind == "handle")
        if h is None:
            return False
        rh = self.recs[h[1]]
        k = self.rng.randrange(3)
        arg = h[2] if k == 0 else self.ffi1.cast("void *", h[2]) if k == 1 else self.ffi1.cast("char *", h[2])
        got = self.ffi.from_handle(arg)
        want = self.recs[rh.target].wr()
        if got is not want or want is None:
            self.fail("from_handle did not return the object given to new_handle")
        del got, want, arg
        self.emit("from_handle %d" % self.addr_index[rh.addr], "ok %d" % rh.target)
        # the model counted the returned reference; give it back
        self.emit("drop_ref %d" % rh.target, "ok")
        return True

    def op_from_buffer(self):
        b = self.pick(lambda r: r.kind == "buf")
        if b is None:
            return False
        if self.rng.random() < 0.5:
            f = self.ffi.from_buffer(b[2])
        else:
            f = self.ffi.from_buffer(self.t_chararr, b[2])
        r = self.new_rec("frombuf", f)
        r.src = b[1]
        self.hold(r, f)
        self.emit("from_buffer %d" % b[1], "ok %d" % r.mid)
        return True

    def views_of(self, bmid):
        return [r for r in self.recs.values()
                if r.kind == "frombuf" and r.src == bmid and not r.dead and not r.released]

    def op_resize(self):
        b = self.pick(lambda r: r.kind == "buf")
        if b is None:
            return False
        locked = bool(self.views_of(b[1]))
        try:
            b[2].extend(b"xy")
            raised = False
        except BufferError:
            raised = True
        if raised:
            try:
                del b[2][-1:]
            except BufferError:
                pass
        if locked and not raised:
            self.fail("bytearray could be resized while a from_buffer() view on it is alive and not released")
        if not locked and raised:
            self.fail("bytearray still export-locked after every from_buffer() view was released or collected")
        self.emit("resize %d" % b[1], "err BufferError" if raised else "ok")
        self.count("resize:" + ("BufferError" if raised else "ok"))
        return True

    def op_reject(self):
        """Calls the implementation must refuse; they change nothing."""
        k = self.rng.randrange(5)
        if k == 0:
            x = self.pick(lambda r: r.kind == "handle")
            line, exc = "release", ValueError
        elif k == 1:
            x = self.pick(lambda r: r.kind == "struct")
            line, exc = "release", ValueError
        elif k == 2:
            x = self.pick(lambda r: r.kind in ("box", "dtor", "buf"))
            line, exc = "release", TypeError
        elif k == 3:
            x = self.pick(lambda r: r.kind in ("plain", "struct", "structptr", "frombuf", "handle", "raw", "box"))
            line, exc = "gc_none", TypeError
        else:
            x = self.pick(lambda r: r.kind in ("box", "dtor"))
            line, exc = "from_buffer", TypeError
        if x is None:
            return False
        try:
            if line == "release":
                if self.rng.random() < 0.5:
                    self.ffi.release(x[2])
                else:
                    with x[2]:
                        pass
                    line = "with_exit"
            elif line == "gc_none":
                self.ffi.gc(x[2], None)
            else:
                self.ffi.from_buffer(x[2])
            got = None
        except (ValueError, TypeError) as e:
            got = type(e)
        if got is not exc:
            self.fail("%s on a %s: expected %s, got %s" % (line, self.recs[x[1]].kind, exc.__name__,
                                                           got.__name__ if got else "no error"))
        self.emit("%s %d" % (line, x[1]), "err " + (got.__name__ if got else "none"), "reject:" + line)
        return True

    def op_touch(self):
        """Read the canary of a struct through whatever alias the program holds."""
        c = self.held(lambda r: (r.kind == "structptr" and self.recs[r.sid].default_struct) or
                      (r.kind == "struct" and r.default_struct))
        if not c:
            return False
        junk = [self.ffi1.new("struct c21s *", [7, 7]) for _ in range(6)]
        del junk
        for _, mid, obj in c:
            r = self.recs[mid]
            rs = self.recs[r.sid] if r.kind == "structptr" else r
            if obj.x != rs.canary or obj.y != -rs.canary:
                self.fail("struct memory changed while p or p[0] was alive")
        return None      # no model line

    # ---- one step
    def settle(self, collect):
        """Report what the implementation deallocated (its choice) and which destructors that ran."""
        if collect:
            n0 = len(self.deaths)
            gc.collect()
            if len(self.deaths) > n0:
                self.cyclic_collected = True
                self.count("event:cycle-collected")
        if self.deaths or self.fired:
            dead = sorted(set(self.deaths))
            if len(dead) != len(self.deaths):
                self.fail("an object was reported dead twice")
            fired = sorted(self.fired)
            if fired:
                self.dtor_at_dealloc = True
                self.count("event:destructor-at-dealloc", len(fired))
            self.emit("collect " + " ".join(str(i) for i in dead), " ".join(["ok"] + [str(i) for i in fired]),
                      "collect")
            del self.deaths[:]
            del self.fired[:]

    def check_clauses(self):
        for r in self.recs.values():
            if r.kind == "gcp":
                what = "free function" if r.is_alloc else "destructor"
                if r.calls > 1:
                    self.fail("%s of wrapper %d called %d times" % (what, r.mid, r.calls))
                if r.noned_at is not None and r.calls != r.noned_at:
                    self.fail("%s of wrapper %d called after ffi.gc(x, None)" % (what, r.mid))
                if not r.had_dtor:
                    continue
                done = r.dead or r.released
                if done and not r.noned_first and r.calls != 1:
                    self.fail("%s of wrapper %d called %d times although the wrapper is %s"
                              % (what, r.mid, r.calls, "dead" if r.dead else "released"))
                if not done and r.calls != 0:
                    self.fail("%s of wrapper %d called while the wrapper is alive and not released" % (what, r.mid))
            elif r.kind == "frombuf":
                if not r.dead and not r.released and self.recs[r.src].dead:
                    self.fail("source of a live from_buffer() view was deallocated")
            elif r.kind == "structptr":
                if not r.dead and self.recs[r.sid].dead:
                    self.fail("struct object deallocated while the pointer from ffi.new() is alive")
            elif r.kind == "handle":
                if not r.dead and self.recs[r.target].dead:
                    self.fail("object of a live handle was deallocated")

    WEIGHTS = [("new_py", 10), ("new_plain", 5), ("new_struct", 6), ("alloc_plain", 5), ("alloc_struct", 5),
               ("gc", 16), ("gc_none", 4), ("release", 6), ("with", 4), ("twice", 3), ("drop", 16), ("store", 12),
               ("clear", 3), ("alias", 5), ("new_handle", 6), ("from_handle", 5), ("from_buffer", 7),
               ("resize", 8), ("reject", 4), ("touch", 4)]

    def run(self):
        nops = self.rng.randint(15, MAXOPS)
        names = [n for n, _ in self.WEIGHTS]
        weights = [w for _, w in self.WEIGHTS]
        p_collect = self.rng.choice([0.15, 0.4, 1.0])
        was = gc.isenabled()
        gc.disable()
        try:
            gc.collect()
            self.emit("reset", "ok")
            done = 0
            tries = 0
            while done < nops and tries < 10 * nops:
                tries += 1
                name = self.rng.choices(names, weights)[0]
                fn = {"new_py": self.op_new_py, "new_plain": self.op_new_plain, "new_struct": self.op_new_struct,
                      "alloc_plain": lambda: self.op_alloc(False), "alloc_struct": lambda: self.op_alloc(True),
                      "gc": self.op_gc, "gc_none": self.op_gc_none, "release": lambda: self.op_release("release"),
                      "with": lambda: self.op_release("with"), "twice": lambda: self.op_release("twice"),
                      "drop": self.op_drop, "store": self.op_store, "clear": self.op_clear, "alias": self.op_alias,
                      "new_handle": self.op_new_handle, "from_handle": self.op_from_handle,
                      "from_buffer": self.op_from_buffer, "resize": self.op_resize, "reject": self.op_reject,
                      "touch": self.op_touch}[name]
                try:
                    ok = fn()
                except Exception as e:
                    # the implementation refused an operation it must accept: the history cannot be followed
                    # any further (not a clause of the property by itself; reported as a disagreement)
                    self.broken = "operation %s raised %s: %s" % (name, type(e).__name__, e)
                    self.emit("noop", "impl-raised " + type(e).__name__, "broken")
                    break
                if ok is False:
                    continue
                done += 1
                self.opnames.append(name)
                self.count("op:" + name)
                self.settle(self.rng.random() < p_collect)
                self.check_clauses()
            # end of the history: drop everything, collect, every armed wrapper must have fired exactly once
            while self.slots and not self.broken:
                mid, _ = self.slots.pop()
                self.emit("drop_ref %d" % mid, "ok")
                self.settle(False)
            del self.slots[:]
            self.allocators.clear()
            if not self.broken:
                self.settle(True)
                self.settle(True)
                self.check_clauses()
            for r in self.recs.values():
                if r.kind == "gcp" and not self.broken:
                    self.emit("calls %d" % r.mid, "ok %d" % r.calls, "calls")
                    if not r.dead:
                        # not a clause of the property: a cycle through a non-GC cdata type (the pointer returned
                        # by allocator("struct s *") is a CDataOwning object) is never found by the collector
                        self.count("event:wrapper-never-collected")
        finally:
            if was:
                gc.enable()
        return self.result()

    def result(self):
        return {"hseed": self.hseed, "flavor": self.flavor, "lines": [l for l, _, _ in self.lines],
                "expect": [e for _, e, _ in self.lines], "fails": self.fails, "counts": self.counts,
                "ops": self.opnames, "nontrivial": self.cyclic_collected and self.dtor_at_dealloc,
                "broken": self.broken}


def run_history(hseed, flavor):
    return Hist(hseed, flavor).run()


# --------------------------------------------------------------------------
# isolation: histories run in a forked child

def in_child(jobs, timeout=600):
    """Run [(hseed, flavor)] in a forked child; returns (results, crash) where crash is None or a
    description (the child died) -- results then holds what was finished before."""
    r, w = os.pipe()
    sys.stdout.flush()
    sys.stderr.flush()
    pid = os.fork()
    if pid == 0:
        code = 0
        try:
            os.close(r)
            with os.fdopen(w, "w") as out:
                for hseed, flavor in jobs:
                    res = run_history(hseed, flavor)
                    out.write(json.dumps(res) + "\n")
                    out.flush()
        except BaseException:
            import traceback
            traceback.print_exc()
            code = 3
        finally:
            os._exit(code)
    os.close(w)
    results = []
    with os.fdopen(r) as inp:
        for line in inp:
            if line.endswith("\n"):
                results.append(json.loads(line))
    _, status = os.waitpid(pid, 0)
    if os.WIFSIGNALED(status):
        return results, "interpreter killed by signal %d" % os.WTERMSIG(status)
    if os.WEXITSTATUS(status) == 3:
        raise InfraError("history runner raised an exception (see stderr)")
    if os.WEXITSTATUS(status) != 0:
        return results, "interpreter exited with status %d" % os.WEXITSTATUS(status)
    return results, None


def jobs_for(ctx, n, tag):
    return [("C21/%d/%s/%d" % (ctx.seed, tag, i), "api" if i % 2 == 0 else "backend") for i in range(n)]


def case_of(res, extra=None):
    c = {"hseed": res["hseed"], "flavor": res["flavor"], "ops": res.get("ops", []), "trace": res.get("lines", [])}
    if extra:
        c.update(extra)
    return c


def run_all(ctx, jobs, model=True):
    results, crash = in_child(jobs)
    if crash is not None:
        # locate the history that kills the interpreter: the one after the last finished
        job = jobs[len(results)]
        _, crash1 = in_child([job])
        ctx.fail({"hseed": job[0], "flavor": job[1], "crash": True},
                 "%s while running this history (memory no longer valid / fatal error)" % (crash1 or crash))
        rest = jobs[len(results) + 1:]
        if rest:
            more, _ = in_child(rest)
            results += more
    lines, expect, owner = [], [], []
    for res in results:
        key = tuple(res["ops"]) if res["nontrivial"] else None
        ctx.case(key, sample={"hseed": res["hseed"], "flavor": res["flavor"], "ops": res["ops"][:12]})
        ctx.evaluations += len(res["lines"]) - 1
        for k, v in res["counts"].items():
            ctx.count(k, v)
        ctx.count("history:" + res["flavor"])
        for f in res["fails"]:
            ctx.fail(case_of(res, {"at": f["at"]}), f["detail"])
        if res.get("broken"):
            ctx.disagree(case_of(res), res["broken"], "accepted by the model", "the implementation raised")
            ctx.count("history:broken")
        for l, e in zip(res["lines"], res["expect"]):
            if l == "noop":
                continue
            lines.append(l)
            expect.append(e)
            owner.append(res)
    if not model:
        return results
    out = ctx.driver(lines)
    bad = set()
    for i, (o, e) in enumerate(zip(out, expect)):
        if o != e and id(owner[i]) not in bad:
            bad.add(id(owner[i]))
            ctx.disagree(case_of(owner[i]), e, o, "operation %r: implementation %r, model %r" % (lines[i], e, o))
    return results


# --------------------------------------------------------------------------
# entry points

def correspond(ctx):
    run_all(ctx, jobs_for(ctx, ctx.n(200, 2500), "c"))


def search(ctx):
    run_all(ctx, jobs_for(ctx, ctx.n(1500, 8000), "s"), model=False)


def replay(ctx, obj):
    case = obj["case"]
    results, crash = in_child([(case["hseed"], case["flavor"])])
    if crash:
        print("history %s: %s" % (case["hseed"], crash))
        return 1
    res = results[0]
    for l in res["lines"]:
        print(l)
    for f in res["fails"]:
        print("FAIL at line %d: %s" % (f["at"], f["detail"]))
    return 1 if res["fails"] else 0
