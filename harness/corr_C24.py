"""C24 -- cffi-gen-src output is byte-identical to FFI.emit_c_code.

Theorems (lean/CffiVerif/Props/C24.lean): utf8_roundtrip, utf8Encode_injective,
readText_of_valid, cli_bytes_eq_api_bytes(_text), cli_exec_python_bytes_eq_api_bytes,
stdout_same_bytes,
file_output_independent_of_previous_content, invalid_utf8_is_an_error, cr_in_prelude_changes_output over the model of the
text-I/O layers of the command line (lean/CffiVerif/Model/GenSrcIO.lean); the
code generator is an uninterpreted parameter (the same function on both sides).

Tie to the code: the real command line, run in subprocesses through both
documented invocations, both subcommands (exec-python with the default
variable and with --ffi-var naming a callable) and both kinds of OUTPUT, on
random cdef / prelude / module-name inputs with non-ASCII text:
  * property oracle (no model involved): the bytes at the destination equal the
    bytes `FFI.emit_c_code(path)` writes in-process for the same texts, whatever
    was at the output path before the command (absent, identical, longer or
    shorter previous generations, unrelated content, empty, CRLF);
  * model: `readText` against Python's own text-mode read of the same files,
    `deliver` (newline translation, UTF-8 encoding) against the bytes the
    command line really wrote, the UTF-8 codec model against Python's codec on
    random (also malformed) byte strings and (also surrogate-carrying) strings.
"""
import io
import os
import subprocess
import sys
import warnings

import common
from common import InfraError

MANIFEST = {
    "text": "Kernel-checked theorems on a model of the command line's text I/O: for every generator function, module "
            "name and line separator, read-sources/exec-python writing to a file produce exactly the bytes "
            "emit_c_code(path) produces when the input files are valid UTF-8 without carriage returns (necessary: "
            "text-mode reading translates \\r, known finding); the strict UTF-8 decoder inverts the encoder on every "
            "surrogate-free string; with OUTPUT '-' stdout receives exactly the bytes a file receives (POSIX line "
            "separator), and the output file does not depend on what was at the output path before.  The model is "
            "tied to "
            "the code by running the real command line (both invocations, both subcommands, file and stdout) and "
            "comparing bytes with FFI.emit_c_code run in-process, and by running Python's text layer and codec "
            "against the model.",
    "note": "Trusted: Lean kernel; harness; the code generator itself is a parameter (same function on both sides); "
            "CPython's argparse/FileType, TextIOWrapper and compile() are validated by running only; locale encoding "
            "assumed UTF-8 (emit_c_code opens its file without an explicit encoding); POSIX line separator for the "
            "stdout theorem.",
    "technique": "Lean 4 proof (UTF-8 encoder/decoder inversion by case analysis + omega, equational reasoning over the "
                 "I/O pipeline with the generator universally quantified) + subprocess differential testing of the CLI "
                 "against the in-process API",
}

RULE = ("cdef = 1-4 declarations with //- and /* */-comments over ASCII + 2/3/4-byte UTF-8 characters; prelude = 0-4 "
        "lines (#include, comments, string literals with non-ASCII, functions), optionally without final newline; "
        "module names plain/dotted/underscored; ~20% of read-sources inputs carry \\r or \\r\\n (known-finding class); "
        "one round = 30 runs: each of the 6 cells {read-sources, exec-python, exec-python --ffi-var callable} x "
        "{console-script entry function via python -c, python -m cffi.gen_src} once with OUTPUT '-' and four times "
        "with a path whose state before the command runs through {absent, identical content, a previous generation "
        "for a longer input, one for a shorter input, unrelated text/binary longer and shorter than the output, "
        "empty, the output with CRLF line ends}: every cell meets a longer previous file, every state occurs three "
        "times per round; non-trivial = non-ASCII text, more than one declaration or an existing output file; "
        "distinct = distinct (cell, output, previous state, name, cdef, prelude); plus input files that are not UTF-8")
ASSUMPTIONS = ["locale encoding of the process is UTF-8 (CPython >= 3.7 in the C/POSIX locale, or any UTF-8 locale)",
               "os.linesep == '\\n' for the stdout statement",
               "the code generator is a function of (module name, cdef text, prelude text)"]

CLASSES = {
    # an input file read in text mode by the command line contains a carriage return
    "C24/carriage-return-in-input": lambda case: bool(case.get("cr")),
}

NONASCII = ["é", "ß", "€", "→", "\U0001d11e", "\U0001f600", " ", " ", "\x85", "\x0c", "\x1c"]
SUBS = ["read-sources", "exec-python", "exec-python-callable"]
INVS = ["script", "module"]
OUTS = ["file", "-"]
COMBOS = [(s, i, o) for s in SUBS for i in INVS for o in OUTS]
# state of the output path before the command; every window of four consecutive entries (cyclically) holds a
# state with content LONGER than the new output (indices 0, 3, 6)
PREV_STATES = ["longer-gen", "absent", "identical", "garbage-long", "shorter-gen", "empty", "crlf", "garbage-short"]


def _quiet(fn):
    so = os.dup(1)
    devnull = os.open(os.devnull, os.O_WRONLY)
    sys.stdout.flush()
    os.dup2(devnull, 1)
    try:
        return fn()
    finally:
        sys.stdout.flush()
        os.dup2(so, 1)
        os.close(devnull)
        os.close(so)


# ------------------------------------------------------------------ generators

def gen_comment(rng):
    n = rng.randint(0, 8)
    return "".join(rng.choice(NONASCII) if rng.random() < 0.3 else rng.choice("abc xyz_09") for _ in range(n))


def gen_cdef(rng, cr):
    decls = ["int sq%d(int n);", "typedef struct s%d { int a; double b; } s%d_t;", "extern int g%d;",
             "double f%d(double, ...);", "enum e%d { A%d, B%d = 7 };", "typedef unsigned char u%d;",
             "#define K%d 42"]
    out = []
    for i in range(rng.randint(1, 4)):
        d = rng.choice(decls).replace("%d", str(i))
        r = rng.random()
        if r < 0.4:
            d += " // " + gen_comment(rng)
        elif r < 0.6 and not d.startswith("#"):
            d += " /* " + gen_comment(rng) + " */"
        out.append(d)
    nl = "\n"
    text = nl.join(out) + (nl if rng.random() < 0.8 else "")
    if cr:
        k = rng.random()
        if k < 0.5:
            text = text.replace("\n", "\r\n")
        else:
            text = text.replace(" // ", " // \r", 1) if " // " in text else text + "// \r\n"
    return text


def gen_prelude(rng, cr):
    lines = ["#include <math.h>", "/* " + gen_comment(rng) + " */", "static int sq0(int n) { return n * n; }",
             'static const char *msg = "' + gen_comment(rng).replace(" ", "") + '";', "// " + gen_comment(rng),
             "#define LOCAL 1", ""]
    out = [rng.choice(lines) for _ in range(rng.randint(0, 4))]
    text = "\n".join(out) + ("\n" if out and rng.random() < 0.8 else "")
    if cr:
        k = rng.random()
        if k < 0.4:
            text = text.replace("\n", "\r\n") or "\r\n"
        elif k < 0.7:
            text = text + "/* a\rb */\n"
        else:
            text = "\r" + text
    return text


def gen_name(rng):
    return rng.choice(["m", "_sq", "pkg.mod", "a.b.c_d", "squared._squared", "M9", "mod_é" if rng.random() < 0.3 else "mm"])


def script_text(name, cdef, prelude, callable_, rng):
    head = "# -*- coding: utf-8 -*-\n# %s\nfrom cffi import FFI\n" % gen_comment(rng).replace(" ", " ").replace("\x85", " ").replace("\x0c", " ").replace("\x1c", " ")
    body = ("ffibuilder = FFI()\nffibuilder.cdef(%r)\nffibuilder.set_source(%r, %r)\n" % (cdef, name, prelude))
    tail = "if __name__ == '__main__':\n    raise SystemExit('the script must not be run as __main__')\n"
    if callable_:
        body = "def make_ffi():\n" + "".join("    " + l + "\n" for l in body.splitlines()) + "    return ffibuilder\n"
        body += "something_else = 5\n"
    return head + body + tail


def gen_case(rng, idx, combo):
    sub, inv, out = combo
    cr = sub == "read-sources" and rng.random() < 0.2
    cr_cdef = cr and rng.random() < 0.5
    case = {"sub": sub, "inv": inv, "out": out, "name": gen_name(rng),
            "cdef": gen_cdef(rng, cr_cdef), "prelude": gen_prelude(rng, cr and not cr_cdef)}
    if sub != "read-sources":
        case["script"] = script_text(case["name"], case["cdef"], case["prelude"], sub.endswith("callable"), rng)
        if rng.random() < 0.25:
            case["script"] = case["script"].replace("\n", "\r\n")      # a CRLF script file: Python reads it the same
    files = [case["cdef"], case["prelude"]] if sub == "read-sources" else [case["script"]]
    case["cr"] = any("\r" in f for f in files)
    return case


# ------------------------------------------------------------------ running

def cli_argv(inv):
    if inv == "script":
        return [common.PYTHON, "-c",
                "import sys; from cffi._cffi_gen_src import run; sys.argv[0] = 'cffi-gen-src'; sys.exit(run())"]
    return [common.PYTHON, "-m", "cffi.gen_src"]


def child_env(ctx):
    env = dict(os.environ)
    env["PYTHONPATH"] = os.pathsep.join([ctx.scratch, os.path.join(common.REPO, "src")])
    env.pop("PYTHONIOENCODING", None)
    return env


def run_cli(ctx, case, d, files, previous=None):
    """files: {basename: bytes}; previous: bytes at the output path before the command (None = no such file).
    Returns (returncode, stdout bytes, stderr text, file bytes or None)."""
    outp = "-" if case["out"] == "-" else os.path.join(d, "out.c")
    try:
        os.makedirs(d, exist_ok=True)
        for fn, data in files.items():
            with open(os.path.join(d, fn), "wb") as f:
                f.write(data)
        if outp != "-":
            if os.path.exists(outp):
                os.unlink(outp)
            if previous is not None:
                with open(outp, "wb") as f:
                    f.write(previous)
    except OSError as e:
        raise InfraError("cannot prepare the input files / the previous output file: %s" % e)
    if case["sub"] == "read-sources":
        args = ["read-sources", case["name"], os.path.join(d, "in.cdef"), os.path.join(d, "in.c"), outp]
    elif case["sub"] == "exec-python":
        args = ["exec-python", os.path.join(d, "build_it.py"), outp]
    else:
        args = ["exec-python", "--ffi-var", "make_ffi", os.path.join(d, "build_it.py"), outp]
    try:
        r = subprocess.run(cli_argv(case["inv"]) + args, env=child_env(ctx), cwd=d, timeout=300,
                           stdin=subprocess.DEVNULL, stdout=subprocess.PIPE, stderr=subprocess.PIPE)
    except subprocess.TimeoutExpired:
        raise InfraError("cffi-gen-src timed out")
    fb = None
    if outp != "-" and os.path.exists(outp):
        with open(outp, "rb") as f:
            fb = f.read()
    return r.returncode, r.stdout, r.stderr.decode("utf-8", "replace"), fb


def _stale(n, binary=False):
    line = b"/* stale line of a previous run \xc3\xa9 */\n" if not binary else b"\xff\xfe stale \x00 bytes\n"
    return (line * (n // len(line) + 1))[:n]


def previous_content(case, ref):
    """The bytes at the output path before the command for case['prev'] (None = absent); a function of the case
    and of `ref` (the bytes emit_c_code produces for the case, i.e. the expected new content)."""
    st, n = case.get("prev", "absent"), case.get("prev_n", 1)
    if st == "absent":
        return None
    if st == "identical":
        return ref
    if st == "empty":
        return b""
    if st == "crlf":                       # the same source with CRLF line ends: longer, ends in "\r\n"
        return ref.replace(b"\n", b"\r\n") if ref.endswith(b"\n") else ref + b"\r\n"
    if st == "garbage-long":
        return _stale(len(ref) + 1 + n, binary=(n % 4 == 0))
    if st == "garbage-short":
        return _stale(max(1, min(len(ref) - 1, n)), binary=(n % 2 == 0))
    try:
        if st == "longer-gen":             # a previous generation for more declarations and a longer prelude
            text = gen_text((case["name"], case["cdef"] + "\nint zz_extra1(int);\ndouble zz_extra2(double);\n",
                             case["prelude"] + "\n/* " + "removed since " * 40 + "*/\nstatic int zz_gone;\n"))
        else:                              # "shorter-gen": a previous generation for an empty cdef and prelude
            text = gen_text((case["name"], "", ""))
        return text.encode("utf-8")
    except Exception:
        return ref + _stale(500 + n) if st == "longer-gen" else ref[:max(1, len(ref) // 2)]


def api_bytes(ctx, case, d):
    """('ok', bytes) | ('exc', type name): FFI.emit_c_code(path) in-process on the same texts."""
    import cffi
    path = os.path.join(d, "api_out.c")
    try:
        if case["sub"] == "read-sources":
            ffi = cffi.FFI()
            ffi.cdef(case["cdef"])
            ffi.set_source(case["name"], case["prelude"])
        else:
            globs = {"__name__": "c24_api_side", "__file__": os.path.join(d, "build_it.py")}
            exec(compile(case["script"], globs["__file__"], "exec"), globs, globs)
            ffi = globs["make_ffi" if case["sub"].endswith("callable") else "ffibuilder"]
            if not isinstance(ffi, cffi.FFI):
                ffi = ffi()
        _quiet(lambda: ffi.emit_c_code(path))
    except Exception as e:
        return ("exc", type(e).__name__)
    with open(path, "rb") as f:
        return ("ok", f.read())


def gen_text(case_texts):
    """The generator as a function of the texts (StringIO target): what both sides call."""
    import cffi
    name, cdef, prelude = case_texts
    ffi = cffi.FFI()
    ffi.cdef(cdef)
    ffi.set_source(name, prelude)
    buf = io.StringIO()
    _quiet(lambda: ffi.emit_c_code(buf))
    return buf.getvalue()


def text_mode_read(path):
    try:
        with open(path, "r", encoding="utf-8") as f:
            return ("ok", f.read())
    except UnicodeDecodeError:
        return ("err", "UnicodeDecodeError")


def cps(s):
    return ",".join(str(ord(c)) for c in s) or "-"


def hx(b):
    return b.hex() or "-"


def last_exc(stderr):
    lines = [l for l in stderr.strip().splitlines() if l.strip()]
    if not lines:
        return ""
    return lines[-1].split(":")[0].strip().split(".")[-1]


def evaluate(ctx, case, d, lines, expect, model=True):
    if case["sub"] == "read-sources":
        files = {"in.cdef": case["cdef"].encode("utf-8"), "in.c": case["prelude"].encode("utf-8")}
    else:
        files = {"build_it.py": case["script"].encode("utf-8")}
    os.makedirs(d, exist_ok=True)
    api = api_bytes(ctx, case, d)
    previous = None
    if case["out"] == "file":
        previous = previous_content(case, api[1] if api[0] == "ok" else _stale(24000))
        ctx.count("previous-output:" + case.get("prev", "absent"))
    rc, out, err, fb = run_cli(ctx, case, d, files, previous)
    nontriv = (any(ord(c) > 127 for c in case["cdef"] + case["prelude"]) or case["cdef"].count(";") > 1
               or case.get("prev", "absent") != "absent")
    key = (case["sub"], case["inv"], case["out"], case.get("prev"), case["name"], case["cdef"], case["prelude"])
    ctx.case(key if nontriv else None,
             sample={k: case.get(k) for k in ("sub", "inv", "out", "prev", "name", "cdef", "prelude")})
    ctx.count("%s/%s/%s" % (case["sub"], case["inv"], "stdout" if case["out"] == "-" else "file"))
    if case["cr"]:
        ctx.count("input-with-CR")
    dest = out if case["out"] == "-" else fb
    # ---- the property itself: destination bytes == emit_c_code bytes, exit status 0
    if api[0] == "ok":
        if rc != 0:
            ctx.fail(case, "emit_c_code succeeds in-process but the command line exits %d: %s" % (rc, err[-300:]))
        elif dest is None:
            ctx.fail(case, "exit status 0 but no output file")
        elif dest != api[1]:
            pos = next((i for i, (a, b) in enumerate(zip(dest, api[1])) if a != b), min(len(dest), len(api[1])))
            ctx.fail(case, "after the command %s holds %d bytes, emit_c_code writes %d bytes; first difference at "
                           "offset %d (%r vs %r); output path before the command: %s"
                     % ("stdout" if case["out"] == "-" else "the output file", len(dest), len(api[1]), pos,
                        dest[pos:pos + 30], api[1][pos:pos + 30],
                        "n/a" if case["out"] == "-" else "%s (%s bytes)" % (case.get("prev", "absent"),
                                                                          "no" if previous is None else len(previous))))
        if case["out"] == "file" and rc == 0 and out:
            ctx.count("file-mode-stdout-not-empty")      # not part of the property, only recorded
    else:
        exc = last_exc(err)
        if rc == 0 or exc != api[1]:
            ctx.fail(case, "in-process API raises %s, the command line %s"
                     % (api[1], "exits 0" if rc == 0 else "fails with " + exc))
    if not model:
        return
    # ---- the model: text-mode reads, then deliver(generator(texts))
    texts = {}
    for fn in files:
        got = text_mode_read(os.path.join(d, fn))
        lines.append("readtext " + hx(files[fn]))
        expect.append((dict(case, file=fn), "ok " + cps(got[1]) if got[0] == "ok" else "err UnicodeDecodeError", "text-mode read"))
        texts[fn] = got
    if rc == 0 and dest is not None and all(t[0] == "ok" for t in texts.values()):
        try:
            if case["sub"] == "read-sources":
                text = gen_text((case["name"], texts["in.cdef"][1], texts["in.c"][1]))
            else:       # the script passes its literals to cdef()/set_source() unchanged
                text = gen_text((case["name"], case["cdef"], case["prelude"]))
        except Exception as e:
            ctx.disagree(case, "exit 0", "generator raises %s on the texts the model says were read" % type(e).__name__,
                         "read-sources pipeline")
            return
        if sum(1 for l in lines if l.startswith("deliver")) < ctx.n(30, 72):    # ~100 kB per line
            if case["out"] == "-":
                lines.append("deliver stdout 10 %s" % cps(text))
            else:
                lines.append("deliveronto %s 10 %s" % ("absent" if previous is None else hx(previous), cps(text)))
            expect.append((case, "ok " + hx(dest), "bytes at the destination"))


def invalid_utf8_cases(ctx, n, lines, expect):
    rng = ctx.rng
    bads = [b"\xff", b"int a; // \xc3\n", b"/* \xed\xa0\x80 */\n", b"// \xc0\xaf\n", b"\xf4\x90\x80\x80", b"// \xe2\x82\n"]
    for i in range(n):
        bad = rng.choice(bads)
        which = rng.choice(["in.cdef", "in.c"])
        case = {"sub": "read-sources", "inv": rng.choice(INVS), "out": rng.choice(OUTS), "name": "m",
                "cdef": "int a;\n", "prelude": "", "cr": False, "invalid": which, "bytes": bad.hex()}
        files = {"in.cdef": b"int a;\n", "in.c": b""}
        files[which] = bad
        d = os.path.join(ctx.scratch, "c24_bad_%d" % i)
        rc, out, err, fb = run_cli(ctx, case, d, files)
        ctx.case(("invalid", which, bad))
        ctx.count("invalid-utf8-input")
        impl = "err UnicodeDecodeError" if (rc != 0 and last_exc(err) == "UnicodeDecodeError") else "exit %d %s" % (rc, last_exc(err))
        lines.append("cli %s 109 %s %s" % ("stdout" if case["out"] == "-" else "file", hx(files["in.cdef"]), hx(files["in.c"])))
        expect.append((case, impl, "invalid UTF-8 input"))
        if rc == 0:
            ctx.fail(case, "an input file that is not UTF-8 was accepted (exit 0)")


def codec_lines(ctx, n, lines, expect):
    """The UTF-8 model against Python's codec."""
    rng = ctx.rng
    for _ in range(n):
        if rng.random() < 0.5:
            s = "".join(chr(rng.choice([rng.randint(0, 0x7f), rng.randint(0x80, 0x7ff), rng.randint(0x800, 0xffff),
                                        rng.randint(0x10000, 0x10ffff), 0xd7ff, 0xd800, 0xdfff, 0xe000, 0xffff, 0x10000,
                                        0x7f, 0x80, 0x7ff, 0x800, 0x10ffff])) for _ in range(rng.randint(0, 5)))
            try:
                want = "ok " + hx(s.encode("utf-8"))
            except UnicodeEncodeError:
                want = "err UnicodeEncodeError"
            lines.append("encode " + cps(s))
            expect.append(({"codec": "encode", "s": [ord(c) for c in s]}, want, "utf-8 encode"))
            ctx.count("codec:encode")
        else:
            base = "".join(rng.choice(["a", "é", "€", "\U0001d11e", "퟿", "", "\U0010ffff", "\x7f", "\x80"])
                           for _ in range(rng.randint(0, 4))).encode("utf-8")
            b = bytearray(base)
            for _ in range(rng.choice([0, 1, 1, 2])):
                k = rng.random()
                if b and k < 0.4:
                    b[rng.randrange(len(b))] = rng.choice([0x80, 0xbf, 0xc0, 0xc1, 0xc2, 0xe0, 0xed, 0xf0, 0xf4, 0xf5, 0xff, 0x7f, 0xa0, 0x9f, 0x90, 0x8f])
                elif b and k < 0.7:
                    del b[rng.randrange(len(b))]
                else:
                    b.insert(rng.randint(0, len(b)), rng.randint(0, 255))
            b = bytes(b)
            try:
                want = "ok " + cps(b.decode("utf-8"))
            except UnicodeDecodeError:
                want = "err UnicodeDecodeError"
            lines.append("decode " + hx(b))
            expect.append(({"codec": "decode", "b": b.hex()}, want, "utf-8 decode"))
            ctx.count("codec:decode")
        ctx.case(None)


def run_cases(ctx, rounds, model=True):
    """One round = 30 command-line runs: each of the 6 (subcommand, invocation) cells four times with a path as
    OUTPUT, the path being in four consecutive states of PREV_STATES (so every cell meets a longer previous file
    and every state occurs three times), and once with OUTPUT '-'."""
    rng = ctx.rng
    lines, expect = [], []
    for _ in range(rounds):
        cells = [(s_, i_) for s_ in SUBS for i_ in INVS]
        rng.shuffle(cells)
        offset = rng.randrange(len(PREV_STATES))
        plan = []
        for c, (sub, inv) in enumerate(cells):
            for j in range(4):
                plan.append((sub, inv, "file", PREV_STATES[(offset + 4 * c + j) % len(PREV_STATES)]))
            plan.append((sub, inv, "-", None))
        for i, (sub, inv, out, prev) in enumerate(plan):
            case = gen_case(rng, i, (sub, inv, out))
            if prev is not None:
                case["prev"] = prev
                case["prev_n"] = rng.randint(1, 4000)
            d = os.path.join(ctx.scratch, "c24_%d" % len(os.listdir(ctx.scratch)))
            evaluate(ctx, case, d, lines, expect, model=model)
    return lines, expect


def correspond(ctx):
    import time
    warnings.simplefilter("ignore")      # cdef() warns about globals without 'extern'; irrelevant here
    t0 = time.time()
    lines, expect = run_cases(ctx, ctx.n(1, 8))
    invalid_utf8_cases(ctx, ctx.n(2, 12), lines, expect)
    codec_lines(ctx, ctx.n(400, 20000), lines, expect)
    t1 = time.time()
    out = ctx.driver(lines)
    common.log("C24: command-line runs %.1fs, model driver %.1fs (%d lines, %d bytes)"
               % (t1 - t0, time.time() - t1, len(lines), sum(len(l) for l in lines)))
    for o, (case, want, what) in zip(out, expect):
        if o != want:
            ctx.disagree(case, want[:200], o[:200], what)


def search(ctx):
    run_cases(ctx, ctx.n(2, 8), model=False)


def _witness_case(w):
    case = {"sub": w.get("sub", "read-sources"), "inv": w.get("inv", "module"), "out": w.get("out", "file"),
            "name": w.get("name", "m"), "cdef": w.get("cdef", "int a;\n"), "prelude": w.get("prelude", "")}
    case["cr"] = "\r" in case["cdef"] + case["prelude"]
    return case


def check_witness(ctx, finding):
    warnings.simplefilter("ignore")
    case = _witness_case(finding["witness"])
    d = os.path.join(ctx.scratch, "c24_witness_%d" % len(os.listdir(ctx.scratch)))
    files = {"in.cdef": case["cdef"].encode("utf-8"), "in.c": case["prelude"].encode("utf-8")}
    os.makedirs(d, exist_ok=True)
    api = api_bytes(ctx, case, d)
    rc, out, err, fb = run_cli(ctx, case, d, files)
    dest = out if case["out"] == "-" else fb
    return not (api[0] == "ok" and rc == 0 and dest == api[1])


def replay(ctx, obj):
    case = obj["case"]
    if "codec" in case or "invalid" in case:
        print("model-only case:", case)
        return 1
    d = os.path.join(ctx.scratch, "c24_replay")
    if case["sub"] == "read-sources":
        files = {"in.cdef": case["cdef"].encode("utf-8"), "in.c": case["prelude"].encode("utf-8")}
    else:
        files = {"build_it.py": case["script"].encode("utf-8")}
    os.makedirs(d, exist_ok=True)
    api = api_bytes(ctx, case, d)
    previous = None
    if case["out"] == "file":
        previous = previous_content(case, api[1] if api[0] == "ok" else _stale(24000))
    rc, out, err, fb = run_cli(ctx, case, d, files, previous)
    dest = out if case["out"] == "-" else fb
    same = api[0] == "ok" and rc == 0 and dest == api[1]
    print("output path before the command: %s (%s bytes)"
          % (case.get("prev", "absent"), "no" if previous is None else len(previous)))
    print("command line: exit %d, %s bytes; emit_c_code: %s; identical: %s"
          % (rc, None if dest is None else len(dest), api[0] if api[0] == "exc" else len(api[1]), same))
    return 0 if same else 1
