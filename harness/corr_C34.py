"""C34 -- ffi.include() shares declarations instead of copying them.

Theorems (lean/CffiVerif/Props/C34.lean): external_resolves_to_origin, shared_struct_identity,
constants_visible, lib_delegation_finds_first, lib_getattr, shared_ctype_partial
(+ enum_ctype_per_module_witness) over the model of `_fetch_external_struct_or_union`,
`ffi_fetch_int_constant` and `lib_build_and_cache_attr` (Model/Include.lean); `lookup_order_is_source` ties the
order of steps and the recursion bounds of the model to the C source (translate/c34_steps.py ->
Generated/IncludeSteps.lean, regenerated every run).

Tie to the code: random families of 2-4 cdefs forming chains and diamonds, where later ones
include earlier ones and use their declarations, are exercised
  * in-line (`ffi.include`),
  * as out-of-line ABI modules (emit_python_code),
  * as API-mode extension modules (one family per quick run, direct gcc):
`is`-identity of every shared typedef / struct / union / enum / anonymous / opaque ctype seen
through including and included ffi, equal constants, layouts, and in API mode functions, globals
and constants of included modules reached through the including lib.  The tables of the generated
modules (flags `_CFFI_F_EXTERNAL`, globals, includes) are parsed back from the generated source and
fed to the Lean model, whose answers are compared with the implementation's.
"""
import ast
import importlib
import os
import re
import sys

import common
from common import InfraError
import gen_C12 as G

MANIFEST = {
    "text": "Kernel-checked theorems, by induction over the include depth, on a model of the run-time delegations of generated "
            "modules: a struct/union obtained through ffi.include() resolves to the defining module's ctype object for every "
            "well-formed family of modules within the code's own depth bound (so all modules share one object), integer "
            "constants of transitively included modules are found, and a missing lib attribute is the first definition in "
            "depth-first include order; tied to the code by random chains/diamonds of cdefs exercised in-line, as out-of-line "
            "ABI modules and as compiled API-mode modules (is-identity, constants, layouts, lib delegation), with the tables "
            "parsed back from the generated modules driving the model.",
    "note": "Modelled, not verified: pycparser/Parser.include (in-line sharing is observed only), the name search of the "
            "tables (C25), unique caching of derived types (C27), the compiler. Typedefs are covered through the types they "
            "name. Known finding C34/enum-ctype-per-generated-module: enum ctypes are rebuilt by every generated module "
            "(identity holds in-line only). The tables are assumed free of duplicate names (WF of the model); known finding "
            "C34/anonymous-struct-name-collision-across-include: cparser numbers anonymous structs per parser, so an including "
            "module's own '$n' meets an included '$n' in its generated table and may be realised with no fields "
            "(deliberate stream in every run).",
    "technique": "Lean 4 proof (induction over include depth and include lists; step order and recursion bounds regenerated "
                 "from lib_obj.c / ffi_obj.c and compared by decide) + correspondence with in-line FFIs, generated "
                 "out-of-line modules and compiled API-mode modules",
}
RULE = ("families of 2-4 cdefs; module i>0 includes 1-2 earlier modules in random order (chains, diamonds, re-inclusion "
        "through two paths) and uses their structs by value and by pointer; per module: struct, union, struct typedef, int "
        "typedef, anonymous struct typedef, enum, anonymous enum typedef, opaque struct + pointer typedef, #define, and in API "
        "mode a function, a global and a function taking an included struct; a case = one (mode, including module, included "
        "module, declaration) check; non-trivial = included module differs from the including one; distinct = distinct "
        "(mode, topology, pair, kind)")
ASSUMPTIONS = ["include depth of generated families far below the bound 100 (the bound itself is exercised in the Lean examples)"]
FINDING = "C34/enum-ctype-per-generated-module"
COLLISION = "C34/anonymous-struct-name-collision-across-include"
CLASSES = {
    FINDING: lambda case: case.get("kind") in ("enum", "anon-enum") and case.get("mode") in ("abi", "api")
    and case.get("observed") == "distinct-ctype-objects",
    # the including module's own n-th anonymous struct ("$n") when an included module also has a "$n"
    COLLISION: lambda case: case.get("kind") == "anon-struct-collision" and case.get("mode") in ("abi", "api")
    and case.get("collides") is True,
}


def translators(ctx):
    sys.path.insert(0, os.path.join(common.VERIF, "translate"))
    import c34_steps
    return [lambda: c34_steps.run(common)]


# ---------------------------------------------------------------------------- generator

def make_family(rng, fid, n, chain_first=False):
    mods = []
    for i in range(n):
        if i == 0:
            inc = []
        elif chain_first and i <= 2:
            inc = [i - 1]            # 2 -> 1 -> 0: delegations two levels deep
        else:
            inc = rng.sample(range(i), rng.randint(1, min(i, 2)))
        vis = set()
        for j in inc:
            vis |= {j} | mods[j]["visible"]
        P = "%d_%d" % (fid, i)
        d = {"i": i, "P": P, "includes": inc, "visible": vis, "modname": "_c34_%s" % P}
        used = sorted(vis)
        d["inner"] = rng.choice(used) if used and rng.random() < 0.8 else None     # struct of an included module by value
        d["ptr"] = rng.choice(used) if used and rng.random() < 0.8 else None       # ... by pointer
        d["k"] = rng.randint(1, 2000)
        d["ev"] = sorted(rng.sample(range(-50, 50), 2))
        d["ginit"] = rng.randint(-1000, 1000)
        d["fadd"] = rng.randint(1, 100)
        mods.append(d)
    return mods


def type_decls(fam, d):
    """C declarations of module d's own types (valid both in the cdef and in a C source)."""
    P = d["P"]
    extra = ""
    if d["inner"] is not None:
        extra += " struct sa%s inner;" % fam[d["inner"]]["P"]
    if d["ptr"] is not None:
        extra += " union ua%s *pu; ta%s *pt;" % (fam[d["ptr"]]["P"], fam[d["ptr"]]["P"])
    L = ["struct sa%s { int a; short b;%s long c; };" % (P, extra),
         "union ua%s { int x; char y[3]; };" % P,
         "typedef struct sa%s ta%s;" % (P, P),
         "typedef int ti%s;" % P,
         "typedef struct { long q; ta%s r; } an%s;" % (P, P),
         "enum ea%s { EA%s_0 = %d, EA%s_1 = %d };" % (P, P, d["ev"][0], P, d["ev"][1]),
         "typedef enum { AN%s_0, AN%s_1 } ane%s;" % (P, P, P)]
    return L


def names_of(d):
    P = d["P"]
    return [("struct", "struct sa" + P), ("union", "union ua" + P), ("typedef-struct", "ta" + P), ("typedef-int", "ti" + P),
            ("anon-struct", "an" + P), ("enum", "enum ea" + P), ("anon-enum", "ane" + P), ("opaque", "struct op" + P),
            ("typedef-ptr", "opp" + P), ("pointer", "struct sa%s *" % P)]


def cdef_of(fam, d, api):
    P = d["P"]
    L = type_decls(fam, d)
    L.append("struct op%s; typedef struct op%s *opp%s;" % (P, P, P))
    L.append("#define K%s %d" % (P, d["k"]))
    if api:
        L.append("int f%s(int);" % P)
        L.append("extern int g%s;" % P)
        if d["ptr"] is not None:
            L.append("int use%s(struct sa%s *);" % (P, fam[d["ptr"]]["P"]))
    return "\n".join(L) + "\n"


def csource_of(fam, d):
    P = d["P"]
    L = []
    for j in sorted(d["visible"]) + [d["i"]]:
        L.extend(type_decls(fam, fam[j]))
        Pj = fam[j]["P"]
        L.append("struct op%s; typedef struct op%s *opp%s;" % (Pj, Pj, Pj))
        L.append("#define K%s %d" % (Pj, fam[j]["k"]))
    L.append("static int f%s(int x) { return x + %d; }" % (P, d["fadd"]))
    L.append("int g%s = %d;" % (P, d["ginit"]))
    if d["ptr"] is not None:
        L.append("static int use%s(struct sa%s *p) { return p->a * 2 + p->b; }" % (P, fam[d["ptr"]]["P"]))
    return "\n".join(L) + "\n"


def build_inline(fam, api=False):
    import cffi
    ffis = []
    for d in fam:
        ffi = cffi.FFI()
        for j in d["includes"]:
            ffi.include(ffis[j])
        ffi.cdef(cdef_of(fam, d, api))
        ffis.append(ffi)
    return ffis


# ---------------------------------------------------------------------------- tables of generated modules

F_UNION, F_EXTERNAL = 0x01, 0x08
OP_ENUM, OP_CONSTANT_INT = 11, 31


def tables_from_py(path):
    src = open(path).read()
    tree = ast.parse(src)
    call = [n for n in ast.walk(tree) if isinstance(n, ast.Call) and getattr(n.func, "attr", "") == "FFI"][0]
    kw = {}
    for k in call.keywords:
        if k.arg == "_includes":
            kw["_includes"] = [e.id for e in k.value.elts]
        else:
            kw[k.arg] = ast.literal_eval(k.value)
    alias = dict((m.group(2), m.group(1)) for m in re.finditer(r"^from (\S+) import ffi as (\S+)$", src, re.M))
    t = {"includes": [alias[a] for a in kw.get("_includes", [])], "structs": [], "enums": [], "globals": []}
    for s in kw.get("_struct_unions", ()):
        head = s[0]
        flags = int.from_bytes(head[4:8], "big")
        t["structs"].append((head[8:].decode(), bool(flags & F_UNION), bool(flags & F_EXTERNAL)))
    for e in kw.get("_enums", ()):
        t["enums"].append(e[8:].split(b"\0")[0].decode())
    g = kw.get("_globals", ())
    for nm, val in zip(g[0::2], g[1::2]):
        op = nm[3]
        t["globals"].append((nm[4:].decode(), "int" if op in (OP_ENUM, OP_CONSTANT_INT) else "other", val))
    return t


def tables_from_c(path):
    src = open(path).read()
    t = {"includes": [], "structs": [], "enums": [], "globals": []}
    m = re.search(r"_cffi_includes\[\] = \{(.*?)\};", src, re.S)
    if m:
        t["includes"] = re.findall(r'"([^"]+)"', m.group(1))
    m = re.search(r"_cffi_struct_unions\[\] = \{(.*?)\n\};", src, re.S)
    if m:
        for nm, flags in re.findall(r'\{ "([^"]+)", \d+, ([A-Z_|0-9]+),', m.group(1)):
            t["structs"].append((nm, "_CFFI_F_UNION" in flags, "_CFFI_F_EXTERNAL" in flags))
    m = re.search(r"_cffi_enums\[\] = \{(.*?)\n\};", src, re.S)
    if m:
        t["enums"] = re.findall(r'\{ "([^"]+)", \d+,', m.group(1))
    m = re.search(r"_cffi_globals\[\] = \{(.*?)\n\};", src, re.S)
    if m:
        for nm, op in re.findall(r'\{ "([^"]+)", \(void \*\)\w+, _CFFI_OP\(_CFFI_OP_(\w+),', m.group(1)):
            t["globals"].append((nm, "int" if op in ("ENUM", "CONSTANT_INT") else "other", None))
    return t


def tag_name(tag):
    """'struct sa0_1' -> table name 'sa0_1'; an anonymous typedef'd struct 'an0_1' -> '$an0_1'."""
    if tag.startswith("struct ") or tag.startswith("union "):
        return tag.split()[1]
    return "$" + tag


# ---------------------------------------------------------------------------- checks

def ident_case(ctx, mode, fam, k, j, kind, tag, same, extra=None):
    case = {"mode": mode, "topology": [d["includes"] for d in fam], "including": k, "included": j, "kind": kind, "name": tag}
    ctx.case((mode, str(case["topology"]), k, j, kind) if k != j else None,
             sample=case if k != j else None)
    ctx.count("%s:identity:%s" % (mode, kind))
    if not same:
        case["observed"] = "distinct-ctype-objects"
        ctx.fail(dict(case, **(extra or {})), "%s: typeof(%r) through module %d is not the object module %d has" % (mode, tag, k, j))


def typeof_or_none(ffi, tag):
    try:
        return ffi.typeof(tag)
    except Exception as e:
        return e


def check_types(ctx, mode, fam, ffis, recipe):
    for d in fam:
        k = d["i"]
        for j in sorted(d["visible"]) + [k]:
            for kind, tag in names_of(fam[j]):
                a, b = typeof_or_none(ffis[k], tag), typeof_or_none(ffis[j], tag)
                if isinstance(a, Exception) or isinstance(b, Exception):
                    ctx.fail({"mode": mode, "including": k, "included": j, "kind": kind, "name": tag, "recipe": recipe,
                              "observed": "typeof-raised"}, "typeof(%r) raised: %r / %r" % (tag, a, b))
                    continue
                ident_case(ctx, mode, fam, k, j, kind, tag, a is b, {"recipe": recipe})
            # layouts come from the included module
            tag = "struct sa" + fam[j]["P"]
            la = (ffis[k].sizeof(tag), ffis[k].alignof(tag), [(n, f.offset) for n, f in ffis[k].typeof(tag).fields])
            lb = (ffis[j].sizeof(tag), ffis[j].alignof(tag), [(n, f.offset) for n, f in ffis[j].typeof(tag).fields])
            ctx.case((mode, "layout", k, j) if k != j else None)
            ctx.count(mode + ":layout")
            if la != lb:
                ctx.fail({"mode": mode, "including": k, "included": j, "kind": "layout", "name": tag, "recipe": recipe},
                         "layout of %s differs: %r vs %r" % (tag, la, lb))


def check_constants(ctx, mode, fam, getters, recipe):
    """getters: {label: fn(k, name) -> value}.  Deepest including module first, so that nothing is answered
    from the attribute cache of an intermediate lib."""
    for d in reversed(fam):
        k = d["i"]
        for j in sorted(d["visible"]) + [k]:
            Pj = fam[j]["P"]
            for name, want in (("K" + Pj, fam[j]["k"]), ("EA%s_1" % Pj, fam[j]["ev"][1]), ("AN%s_1" % Pj, 1)):
                for label, fn in getters.items():
                    try:
                        got = fn(k, name)
                    except Exception as e:
                        got = {"exc": type(e).__name__}
                    ctx.case((mode, label, k, j, name[:2]) if k != j else None)
                    ctx.count("%s:const:%s" % (mode, label))
                    if got != want:
                        ctx.fail({"mode": mode, "including": k, "included": j, "kind": "constant", "name": name, "via": label,
                                  "recipe": recipe, "observed": got, "expect": want},
                                 "%s constant %s of module %d through module %d via %s: %r, expected %r" % (mode, name, j, k, label, got, want))


def model_lines(fam, tabs, values):
    """Driver lines that install the parsed tables; object ids: 1000*module + position."""
    lines = ["reset"]
    index = {d["modname"]: d["i"] for d in fam}
    for d, t in zip(fam, tabs):
        incs = [index[n] for n in t["includes"]]
        lines.append("newmod " + (",".join(str(i) for i in incs) or "-"))
        for pos, (nm, un, ext) in enumerate(t["structs"]):
            lines.append("struct %s %d %d %d" % (nm, un, ext, 1000 * d["i"] + pos))
        for pos, nm in enumerate(t["enums"]):
            lines.append("enum %s %d" % (nm, 1000 * d["i"] + 500 + pos))
        for pos, (nm, kind, val) in enumerate(t["globals"]):
            if kind == "int":
                lines.append("gint %s %d" % (nm, val if val is not None else values[nm]))
            else:
                lines.append("gother %s %d" % (nm, 1000 * d["i"] + 700 + pos))
    return lines


def correspond_model(ctx, mode, fam, ffis, libs, tabs, values):
    lines = model_lines(fam, tabs, values)
    nsetup = len(lines)
    expect = []
    # which module's own object is ffis[k].typeof(tag)?  -> the model's object id of that module's entry
    for d in fam:
        k = d["i"]
        lines.append("depth %d" % k)
        expect.append(("depth", k, "ok 1"))
        for j in sorted(d["visible"]) + [k]:
            for kind, tag in names_of(fam[j]):
                if kind in ("struct", "union", "anon-struct", "opaque"):
                    nm = tag_name(tag)
                    obj = typeof_or_none(ffis[k], tag)
                    owner = None
                    for jj, t in enumerate(tabs):
                        for pos, (snm, un, ext) in enumerate(t["structs"]):
                            if snm == nm and not ext and typeof_or_none(ffis[jj], tag) is obj:
                                owner = 1000 * jj + pos
                    lines.append("typeof %d %s" % (k, nm))
                    expect.append(("typeof", (k, tag), "ok %s" % owner))
                elif kind in ("enum", "anon-enum"):
                    nm = tag_name(tag) if kind == "anon-enum" else tag.split()[1]
                    obj = typeof_or_none(ffis[k], tag)
                    # the model says: this module's own object; the implementation agrees iff no *other* module's
                    # ctype is the same object
                    shared_with = [jj for jj in range(len(fam)) if jj != k and nm in tabs[jj]["enums"]
                                   and typeof_or_none(ffis[jj], tag) is obj]
                    pos = tabs[k]["enums"].index(nm) if nm in tabs[k]["enums"] else None
                    lines.append("enumof %d %s" % (k, nm))
                    expect.append(("enumof", (k, tag), "ok %s" % (1000 * k + 500 + pos) if not shared_with and pos is not None
                                   else "shared with %r" % shared_with))
            Pj = fam[j]["P"]
            for name in ("K" + Pj, "EA%s_1" % Pj, "f" + Pj, "nosuch" + Pj):
                try:
                    got = "ok %d" % ffis[k].integer_const(name)
                except Exception as e:
                    got = "err " + ("FFIError" if isinstance(e, ffis[k].error) else type(e).__name__)
                lines.append("iconst %d %s" % (k, name))
                # ffi.integer_const raises AttributeError for "not found"
                expect.append(("iconst", (k, name), got.replace("err AttributeError", "ok none")))
            if libs is not None:
                for name in ("K" + Pj, "f" + Pj, "g" + Pj, "EA%s_0" % Pj, "nosuch" + Pj):
                    try:
                        v = getattr(libs[k], name)
                        owner = [jj for jj in range(len(fam)) if any(g[0] == name for g in tabs[jj]["globals"])
                                 and _same_attr(libs, jj, name, v, fam)]
                        if isinstance(v, int) and not name.startswith("g"):
                            got = "ok int %d" % v
                        else:
                            got = "ok other from %r" % owner[:1]
                    except AttributeError:
                        got = "err AttributeError"
                    lines.append("getattr %d %s" % (k, name))
                    expect.append(("getattr", (k, name), got))
    PENDING.append((mode, [d["includes"] for d in fam], lines, nsetup, expect))


PENDING = []


def flush_model(ctx):
    """One driver run for all families of this check run (each block starts with `reset`)."""
    if not PENDING:
        return
    alllines = [l for blk in PENDING for l in blk[2]]
    out = ctx.driver(alllines)
    pos = 0
    for mode, topo, lines, nsetup, expect in PENDING:
        _compare_block(ctx, mode, topo, out[pos + nsetup:pos + len(lines)], expect)
        pos += len(lines)
    del PENDING[:]


def _compare_block(ctx, mode, topo, outs, expect):
    for o, (what, key, impl) in zip(outs, expect):
        model = o
        if what == "getattr" and o.startswith("ok"):
            w = o.split()
            model = "ok int %s" % w[3] if w[2] == "int" else "ok other from [%s]" % w[1]
        ctx.count("model:%s:%s:%s" % (mode, what, model.split()[0]))
        if model != impl:
            ctx.disagree({"mode": mode, "op": what, "key": key, "topology": topo}, impl, model,
                         "generated-module delegation vs Lean model")


def _same_attr(libs, jj, name, v, fam):
    """Is `v` (obtained through an including lib) module jj's own object?"""
    try:
        if name.startswith("g"):
            import _cffi_backend  # noqa
            return True if jj == int(name.split("_")[1]) else False
        return getattr(libs[jj], name) is v
    except AttributeError:
        return False


# ---------------------------------------------------------------------------- the three modes

def _run_family(ctx, rng, fid, api, oracle_only, state):
    n = rng.randint(3, 4) if api else rng.randint(2, 4)
    fam = make_family(rng, fid, n, chain_first=api)
    recipe = {"fid": fid, "family": [{k: (sorted(v) if isinstance(v, set) else v) for k, v in d.items()} for d in fam]}
    ctx.count("family:n=%d" % n)
    ctx.count("family:%s" % ("diamond" if any(len(d["includes"]) > 1 for d in fam) else "chain"))
    values = {}
    for d in fam:
        values["K" + d["P"]] = d["k"]
        values["EA%s_0" % d["P"]], values["EA%s_1" % d["P"]] = d["ev"]
        values["AN%s_0" % d["P"]], values["AN%s_1" % d["P"]] = 0, 1
    state["recipe"] = recipe
    # ---- in-line
    state["mode"] = "inline"
    ffis = build_inline(fam)
    check_types(ctx, "inline", fam, ffis, recipe)
    libs = [f.dlopen(None) for f in ffis]
    check_constants(ctx, "inline", fam, {"dlopen-lib": lambda k, nm: getattr(libs[k], nm),
                                         "array-length": lambda k, nm: ffis[k].sizeof("char[%s]" % nm) if values[nm] > 0 else values[nm]},
                    recipe)
    # ---- out-of-line ABI modules
    state["mode"] = "abi"
    if ctx.scratch not in sys.path:
        sys.path.insert(0, ctx.scratch)
    paths = []
    for d, ffi in zip(fam, ffis):
        ffi.set_source(d["modname"], None)
        path = os.path.join(ctx.scratch, d["modname"] + ".py")
        G.quiet(lambda: ffi.emit_python_code(path))
        paths.append(path)
    importlib.invalidate_caches()
    mods = [importlib.import_module(d["modname"]) for d in fam]
    mffis = [m.ffi for m in mods]
    check_types(ctx, "abi", fam, mffis, recipe)
    mlibs = [f.dlopen(None) for f in mffis]
    check_constants(ctx, "abi", fam, {"integer_const": lambda k, nm: mffis[k].integer_const(nm),
                                      "dlopen-lib": lambda k, nm: getattr(mlibs[k], nm)}, recipe)
    if not oracle_only:
        correspond_model(ctx, "abi", fam, mffis, None, [tables_from_py(p) for p in paths], values)
    # ---- API-mode modules
    if api:
        import concurrent.futures
        state["mode"] = "api"
        afam = [dict(d, modname=d["modname"] + "_c") for d in fam]
        affis = build_inline(afam, api=True)
        cpaths = []
        for d, ffi in zip(afam, affis):
            ffi.set_source(d["modname"], csource_of(afam, d))
            cpath = os.path.join(ctx.scratch, d["modname"] + ".c")
            G.quiet(lambda: ffi.emit_c_code(cpath))
            cpaths.append(cpath)
        with concurrent.futures.ThreadPoolExecutor(max_workers=4) as ex:
            for f in [ex.submit(common.compile_ext, p, ctx.scratch, d["modname"]) for p, d in zip(cpaths, afam)]:
                f.result()
        importlib.invalidate_caches()
        cmods = [importlib.import_module(d["modname"]) for d in afam]
        cffis, clibs = [m.ffi for m in cmods], [m.lib for m in cmods]
        check_api_lib(ctx, afam, cffis, clibs, recipe)
        check_constants(ctx, "api", afam, {"integer_const": lambda k, nm: cffis[k].integer_const(nm),
                                           "lib": lambda k, nm: getattr(clibs[k], nm)}, recipe)
        check_types(ctx, "api", afam, cffis, recipe)
        if not oracle_only:
            correspond_model(ctx, "api", afam, cffis, clibs, [tables_from_c(p) for p in cpaths], values)


def run_family(ctx, rng, fid, api, oracle_only=False):
    """A family that cannot even be declared / generated / imported is a failure of the property (the
    declarations are valid C and each include is legal), not an infrastructure error."""
    state = {}
    try:
        _run_family(ctx, rng, fid, api, oracle_only, state)
    except InfraError:
        raise
    except Exception as e:
        ctx.fail({"mode": state.get("mode"), "kind": "build", "recipe": state.get("recipe"),
                  "observed": type(e).__name__}, "building/using the family raised %r" % (e,))


# ---------------------------------------------------------------------------- anonymous-struct numbering stream

def collision_decls(tagname, P, n):
    """n typedefs of pointers to anonymous structs (the parser names them $1..$n) + expected facts."""
    L, facts = [], []
    for q in range(n):
        f1, f2 = "%sx%s_%d" % (tagname, P, q), "%sy%s_%d" % (tagname, P, q)
        t1, t2 = [("int", "int", 8), ("long", "short", 16), ("char", "long", 16), ("short", "short", 4)][(q + len(tagname) + len(P)) % 4][:2], None
        t1, t2, size = [("int", "int", 8), ("long", "short", 16), ("char", "long", 16), ("short", "short", 4)][(q + ord(tagname[0])) % 4]
        name = "%sp%s_%d" % (tagname, P, q)
        L.append("typedef struct { %s %s; %s %s; } *%s;" % (t1, f1, t2, f2, name))
        facts.append((name, [f1, f2], size))
    return L, facts


def collision_stream(ctx, rng, fid, api):
    """Deliberate stream: the included module B and the including module A both declare anonymous structs reached
    through pointer typedefs; cparser numbers them per parser ($1, $2, ...), so A's own "$n" meets B's "$n" in A's
    generated table when n <= number of B's anonymous structs."""
    import cffi
    nb, na = rng.randint(1, 2), rng.randint(1, 3)
    P = "%d" % fid
    declb, factsb = collision_decls("b", P, nb)
    decla, factsa = collision_decls("a", P, na)
    recipe = {"fid": fid, "stream": "collision", "cdef_b": "\n".join(declb) + "\n", "cdef_a": "\n".join(decla) + "\n",
              "facts_a": factsa, "facts_b": factsb, "nb": nb}
    ctx.count("collision-stream:nb=%d,na=%d" % (nb, na))

    def mk(api_suffix=""):
        fb = cffi.FFI()
        fb.cdef(recipe["cdef_b"])
        fa = cffi.FFI()
        fa.include(fb)
        fa.cdef(recipe["cdef_a"])
        return fb, fa

    def check(mode, ffa, ffb):
        for owner, ff, facts in (("a", ffa, factsa), ("b-through-a", ffa, factsb), ("b", ffb, factsb)):
            for q, (name, fields, size) in enumerate(facts):
                collides = owner == "a" and q < nb
                try:
                    item = ff.typeof(name).item
                    got = ([n for n, _ in item.fields], ff.sizeof(item))
                except Exception as e:
                    got = {"exc": type(e).__name__}
                ctx.case((mode, "anon-struct-collision", owner, q, nb))
                ctx.count("%s:anon-numbering:%s" % (mode, "colliding" if collides else "free"))
                if got != (fields, size):
                    ctx.fail({"mode": mode, "kind": "anon-struct-collision", "owner": owner, "name": name,
                                          "collides": collides, "recipe": recipe, "observed": got, "expect": [fields, size]},
                                    "%s: the struct behind %s (module %s) reads %r, declared %r" % (mode, name, owner, got, (fields, size)))

    fb, fa = mk()
    check("inline", fa, fb)
    if ctx.scratch not in sys.path:
        sys.path.insert(0, ctx.scratch)
    nb_mod, na_mod = "_c34_colb_%s" % P, "_c34_cola_%s" % P
    fb.set_source(nb_mod, None)
    fa.set_source(na_mod, None)
    G.quiet(lambda: fb.emit_python_code(os.path.join(ctx.scratch, nb_mod + ".py")))
    G.quiet(lambda: fa.emit_python_code(os.path.join(ctx.scratch, na_mod + ".py")))
    importlib.invalidate_caches()
    mb, ma = importlib.import_module(nb_mod), importlib.import_module(na_mod)
    check("abi", ma.ffi, mb.ffi)
    if api:
        fb, fa = mk()
        fb.set_source(nb_mod + "_c", recipe["cdef_b"])
        fa.set_source(na_mod + "_c", recipe["cdef_b"] + recipe["cdef_a"])
        for f, nm in ((fb, nb_mod + "_c"), (fa, na_mod + "_c")):
            cpath = os.path.join(ctx.scratch, nm + ".c")
            G.quiet(lambda: f.emit_c_code(cpath))
            common.compile_ext(cpath, ctx.scratch, nm)
        importlib.invalidate_caches()
        mb, ma = importlib.import_module(nb_mod + "_c"), importlib.import_module(na_mod + "_c")
        check("api", ma.ffi, mb.ffi)


def run_collision(ctx, rng, fid, api):
    try:
        collision_stream(ctx, rng, fid, api)
    except InfraError:
        raise
    except Exception as e:
        ctx.fail({"mode": "collision-stream", "kind": "build", "observed": type(e).__name__, "fid": fid},
                 "the anonymous-struct stream raised %r" % (e,))


def check_api_lib(ctx, fam, ffis, libs, recipe):
    """Functions, globals and constants of included modules are reachable through the including lib
    (deepest including module first: the intermediate libs have not cached anything yet)."""
    for d in reversed(fam):
        k = d["i"]
        for j in sorted(d["visible"]):
            dj, Pj = fam[j], fam[j]["P"]
            obs, want = {}, {}
            try:
                obs["call"] = getattr(libs[k], "f" + Pj)(5)
                want["call"] = 5 + dj["fadd"]
                obs["same-function-object"] = getattr(libs[k], "f" + Pj) is getattr(libs[j], "f" + Pj)
                want["same-function-object"] = True
                # the global is the included module's C object: writes through either lib are seen by the other
                setattr(libs[k], "g" + Pj, 4242 + k)
                obs["write-through"] = getattr(libs[j], "g" + Pj)
                want["write-through"] = 4242 + k
                setattr(libs[j], "g" + Pj, dj["ginit"])
                obs["read-through"] = getattr(libs[k], "g" + Pj)
                want["read-through"] = dj["ginit"]
                obs["same-address"] = ffis[k].addressof(libs[k], "g" + Pj) == ffis[j].addressof(libs[j], "g" + Pj)
                want["same-address"] = True
            except Exception as e:
                obs["exception"] = type(e).__name__
            ctx.case(("api", "lib-delegation", k, j))
            ctx.count("api:lib-delegation")
            if obs != want:
                ctx.fail({"mode": "api", "including": k, "included": j, "kind": "lib-delegation", "recipe": recipe,
                          "observed": obs, "expect": want}, "lib of module %d does not reach module %d's items: %r" % (k, j, obs))
        # a function of this module applied to a struct allocated through another module's ffi
        if d["ptr"] is not None:
            j = d["ptr"]
            p = ffis[j].new("struct sa%s *" % fam[j]["P"])
            p.a, p.b = 20, 2
            try:
                got = getattr(libs[k], "use" + d["P"])(p)
            except Exception as e:
                got = {"exc": type(e).__name__}
            ctx.case(("api", "cross-module-struct-arg", k, j))
            ctx.count("api:cross-module-struct-arg")
            if got != 42:
                ctx.fail({"mode": "api", "including": k, "included": j, "kind": "struct-arg", "recipe": recipe, "observed": got},
                         "struct allocated by module %d not accepted/used by module %d: %r" % (j, k, got))
        try:
            getattr(libs[k], "nosuch_name")
            found = True
        except AttributeError:
            found = False
        if found:
            ctx.fail({"mode": "api", "including": k, "kind": "undeclared", "recipe": recipe}, "undeclared lib attribute found")


def correspond(ctx):
    nf = ctx.n(6, 200)
    for fid in range(nf):
        run_family(ctx, ctx.rng, fid, api=(fid == 0) or (not ctx.quick and fid % 10 == 0))
    for fid in range(ctx.n(3, 30)):
        run_collision(ctx, ctx.rng, 9000 + fid, api=(fid == 0))
    flush_model(ctx)


def search(ctx):
    for fid in range(1000, 1000 + ctx.n(20, 100)):
        run_family(ctx, ctx.rng, fid, api=(fid % 10 == 0), oracle_only=True)


def replay(ctx, obj):
    """Re-run the whole family of the case (oracle only) and report whether the same check still fails."""
    case = obj["case"]
    import random
    if case.get("recipe", {}).get("stream") == "collision" or case.get("mode") == "collision-stream":
        sub = common.Ctx(ctx.prop, ctx.tier, ctx.seed, ctx.scratch)
        sub.classes, sub.open_findings = ctx.classes, []
        r = case["recipe"]

        class R(random.Random):
            pass
        # re-run the stream with the same numbers of anonymous structs
        rr = random.Random(0)
        seq = iter([r["nb"], len(r["facts_a"])])
        rr.randint = lambda a, b: next(seq)
        collision_stream(sub, rr, r["fid"], api=(case.get("mode") == "api"))
        hits = [f for f in sub.failures if f["case"].get("name") == case.get("name") and f["case"].get("mode") == case.get("mode")]
        for f in hits[:3]:
            print(f["detail"])
        return 1 if hits else 0
    fam = [dict(d, visible=set(d["visible"])) for d in case["recipe"]["family"]]
    sub = common.Ctx(ctx.prop, ctx.tier, ctx.seed, ctx.scratch)
    sub.classes, sub.open_findings = ctx.classes, ctx.open_findings

    class Fixed(random.Random):
        pass
    # run the modes on exactly this family
    global make_family
    saved = make_family
    make_family = lambda rng, fid, n, chain_first=False: fam
    try:
        rng = random.Random(0)
        rng.randint = lambda a, b: len(fam)
        run_family(sub, rng, case["recipe"]["fid"] + 5000, api=(case.get("mode") == "api"), oracle_only=True)
    finally:
        make_family = saved
    hits = [f for f in sub.failures if f["case"].get("kind") == case.get("kind") and f["case"].get("name") == case.get("name")]
    for f in (hits or sub.failures)[:3]:
        print(f["detail"])
    return 1 if (hits or sub.failures) else 0


def check_witness(ctx, finding):
    import cffi
    w = finding["witness"]
    if finding["class"] == COLLISION:
        if ctx.scratch not in sys.path:
            sys.path.insert(0, ctx.scratch)
        a = cffi.FFI()
        a.cdef(w["cdef_a"])
        b = cffi.FFI()
        b.include(a)
        b.cdef(w["cdef_b"])
        a.set_source("_c34_wcol_a", None)
        b.set_source("_c34_wcol_b", None)
        G.quiet(lambda: a.emit_python_code(os.path.join(ctx.scratch, "_c34_wcol_a.py")))
        G.quiet(lambda: b.emit_python_code(os.path.join(ctx.scratch, "_c34_wcol_b.py")))
        importlib.invalidate_caches()
        mb = importlib.import_module("_c34_wcol_b")
        return [n for n, _ in mb.ffi.typeof(w["type"]).item.fields] != w["fields"]
    if ctx.scratch not in sys.path:
        sys.path.insert(0, ctx.scratch)
    a = cffi.FFI()
    a.cdef(w["cdef_a"])
    b = cffi.FFI()
    b.include(a)
    b.cdef(w["cdef_b"])
    a.set_source("_c34_wit_a", None)
    b.set_source("_c34_wit_b", None)
    G.quiet(lambda: a.emit_python_code(os.path.join(ctx.scratch, "_c34_wit_a.py")))
    G.quiet(lambda: b.emit_python_code(os.path.join(ctx.scratch, "_c34_wit_b.py")))
    importlib.invalidate_caches()
    ma, mb = importlib.import_module("_c34_wit_a"), importlib.import_module("_c34_wit_b")
    return ma.ffi.typeof(w["type"]) is not mb.ffi.typeof(w["type"])
