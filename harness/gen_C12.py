"""Generator of (cdef, C source) pairs for C12 and C33, their `...` variants and single-point
mutations, and the probes that exercise every declared item of a built module.

A *unit* is a JSON-able description from which both the cdef and the C source are rendered.
The C source additionally defines helper functions whose results are computed by the C compiler
inside the same module (`verif_sizeof_s0`, `verif_offsetof_s0_f1`, `verif_get_g0`, ...); they are
declared in every cdef variant and never mutated.
"""
import copy
import os
import sys

# x86-64 SysV: name -> (size, signed)
INTS = {
    "signed char": (1, True), "unsigned char": (1, False), "short": (2, True), "unsigned short": (2, False),
    "int": (4, True), "unsigned int": (4, False), "long": (8, True), "unsigned long": (8, False),
    "long long": (8, True), "unsigned long long": (8, False),
    "int8_t": (1, True), "uint8_t": (1, False), "int16_t": (2, True), "uint16_t": (2, False),
    "int32_t": (4, True), "uint32_t": (4, False), "int64_t": (8, True), "uint64_t": (8, False),
}
OTHERS = {"double": (8, 8), "float": (4, 4), "void *": (8, 8), "char": (1, 1)}
INT_NAMES = sorted(INTS)

INTERESTING = [0, 1, -1, 2, 5, 100, -100, 127, 128, 255, 256, -128, -129, 32767, 32768, 65535, 65536,
               2 ** 31 - 1, 2 ** 31, -2 ** 31, -2 ** 31 - 1, 2 ** 32 - 1, 2 ** 32, 2 ** 40 + 3, -2 ** 40 - 3,
               2 ** 63 - 1, 2 ** 63, 2 ** 63 + 1, 2 ** 64 - 2, 2 ** 64 - 1, -2 ** 63 + 1, -2 ** 63]


def int_range(tp):
    if tp[0] == "bits":
        _, n, signed = tp
        return (-(1 << (n - 1)), (1 << (n - 1)) - 1) if signed else (0, (1 << n) - 1)
    size, signed = tp
    if signed:
        return -(1 << (8 * size - 1)), (1 << (8 * size - 1)) - 1
    return 0, (1 << (8 * size)) - 1


def wrap(v, tp):
    """C conversion of the integer v to the type / bit-field tp (gcc: modulo 2^w, signed: two's complement):
    unsigned: v mod 2^w;  signed: ((v + 2^(w-1)) mod 2^w) - 2^(w-1)."""
    if tp[0] == "bits":
        _, w, signed = tp
    else:
        w, signed = 8 * tp[0], tp[1]
    if signed:
        return ((v + (1 << (w - 1))) % (1 << w)) - (1 << (w - 1))
    return v % (1 << w)


def c_literal(v):
    """A C expression whose value is v (v in [-2^63, 2^64))."""
    if v == -2 ** 63:
        return "(-9223372036854775807LL-1)"
    if v < 0:
        return "(-%dLL)" % -v if v < -2 ** 31 else "(-%d)" % -v
    if v >= 2 ** 63:
        return "%dULL" % v
    if v >= 2 ** 31:
        return "%dLL" % v
    return "%d" % v


class Unit(dict):
    pass


def resolve_int(unit, tname):
    """(size, signed) of an integer type name or typedef of the unit; None if not an integer type."""
    if tname in INTS:
        return INTS[tname]
    for td in unit["typedefs"]:
        if td["name"] == tname:
            return INTS[td["base"]]
    return None


def gen_value(rng, tp):
    lo, hi = int_range(tp)
    r = rng.random()
    if r < 0.35:
        # boundary values, clamped: a 1-bit signed bit-field holds only -1 and 0
        return rng.choice([c for c in (lo, hi, lo + 1, hi - 1, 0, 1, -1) if lo <= c <= hi])
    if r < 0.6:
        return rng.randint(max(lo, -100), min(hi, 100))
    return rng.randint(lo, hi)


def make_unit(rng, uid, for_verify=False):
    u = Unit(uid=uid, typedefs=[], structs=[], defines=[], enums=[], sconsts=[], globals=[], funcs=[])
    for i in range(rng.randint(2, 3)):
        u["typedefs"].append({"name": "t%d_%d" % (uid, i), "base": rng.choice(INT_NAMES)})
    nstructs = rng.randint(3, 4)
    for i in range(nstructs):
        is_union = (i == 2 and rng.random() < 0.6)
        fields = []
        nf = rng.randint(3, 6) if i == 0 else rng.randint(2, 6)
        for j in range(nf):
            r = rng.random()
            if i == 0 and j == 0:
                tname, ln = rng.choice(INT_NAMES), None          # an integer scalar (for type mutations)
            elif i == 0 and j == 1:
                tname, ln = rng.choice(INT_NAMES), rng.randint(2, 5)   # an array (for length mutations)
            elif r < 0.55:
                tname, ln = rng.choice(INT_NAMES), None
            elif r < 0.65:
                tname, ln = rng.choice(u["typedefs"])["name"], None
            elif r < 0.8:
                tname, ln = rng.choice(INT_NAMES + ["double", "char"]), rng.randint(1, 7)
            elif r < 0.9 or i == 0 or is_union:
                tname, ln = rng.choice(sorted(OTHERS)), None
            else:
                tname, ln = struct_tag(u["structs"][rng.randrange(i)]), (None if rng.random() < 0.7 else rng.randint(1, 3))
            if i == 1 and j == 0:
                tname, ln = rng.choice(["long", "double", "void *", "uint64_t"]), None   # 8-aligned head ...
            elif i == 1 and j == nf - 1:                                              # ... and a small tail: padding follows
                tname = rng.choice(["signed char", "unsigned char", "short", "uint16_t", "int8_t"])
                ln = None if rng.random() < 0.4 else rng.randint(1, 3)
            fields.append({"name": "f%d" % j, "type": tname, "len": ln})
        u["structs"].append({"name": "s%d_%d" % (uid, i), "union": is_union, "fields": fields, "partial": False,
                             "packed": False})
    # a packed struct in every unit: misaligned fields of different sizes, declared with cdef(..., packed=True)
    # against __attribute__((packed)) in the C source
    i = nstructs
    pf = [{"name": "f0", "type": rng.choice(["char", "signed char", "uint8_t"]), "len": None},
          {"name": "f1", "type": rng.choice(["int", "long", "uint32_t", "int64_t", "double"]), "len": None},
          {"name": "f2", "type": rng.choice(["short", "uint16_t", "unsigned char"]), "len": rng.choice([None, 3])},
          {"name": "f3", "type": rng.choice(["long", "unsigned int", "void *", "float"]), "len": None}]
    for j in range(4, rng.randint(4, 7)):
        r = rng.random()
        if r < 0.6:
            pf.append({"name": "f%d" % j, "type": rng.choice(INT_NAMES), "len": None if rng.random() < 0.7 else rng.randint(1, 4)})
        elif r < 0.8:
            pf.append({"name": "f%d" % j, "type": struct_tag(u["structs"][rng.randrange(nstructs)]), "len": None})
        else:
            pf.append({"name": "f%d" % j, "type": rng.choice(sorted(OTHERS)), "len": None})
    u["structs"].append({"name": "s%d_%d" % (uid, i), "union": False, "fields": pf, "partial": False, "packed": True})
    if not for_verify:
        # bit-fields inside a checked struct (their positions are computed by cffi, the total size is checked)
        # b0: any width; b1: ALWAYS a signed 1-bit field (holds -1 and 0 only); b2: ALWAYS the full width of its type
        bt = [rng.choice(["int", "unsigned int", "unsigned char", "short", "long", "unsigned long long"]),
              rng.choice(["int", "long", "short", "signed char", "long long"]),
              rng.choice(["unsigned int", "int", "unsigned char", "short", "unsigned long long", "long"])]
        bw = [rng.randint(1, min(8 * INTS[bt[0]][0], 17)), 1, 8 * INTS[bt[2]][0]]
        pre, post = rng.choice(INT_NAMES), rng.choice(INT_NAMES)
        body = "%s a; %s b0:%d; %s b1:%d; %s m; %s b2:%d; %s z;" % (pre, bt[0], bw[0], bt[1], bw[1], rng.choice(["char", "short"]),
                                                                   bt[2], bw[2], post)
        mt = body.split(";")[3].split()[0]
        u["structs"].append({"name": "s%d_%d" % (uid, i + 1), "union": False, "partial": False, "packed": False,
                             "special": "bitfield", "body": body,
                             "fields": [{"name": "a", "type": pre, "len": None}, {"name": "m", "type": mt, "len": None},
                                        {"name": "z", "type": post, "len": None}],
                             "bits": [{"name": "b%d" % k, "type": bt[k], "len": None, "bits": bw[k]} for k in range(3)]})
        # an anonymous nested struct/union: never checked, the compiler's layout is adopted
        inner_kw = rng.choice(["struct", "union"])
        t1, t2, t3, t4 = (rng.choice(INT_NAMES) for _ in range(4))
        body = "%s a; %s { %s x; %s y; }; %s z;" % (t1, inner_kw, t2, t3, t4)
        u["structs"].append({"name": "s%d_%d" % (uid, i + 2), "union": False, "partial": False, "packed": False,
                             "special": "anon", "body": body,
                             "fields": [{"name": "a", "type": t1, "len": None}, {"name": "x", "type": t2, "len": None},
                                        {"name": "y", "type": t3, "len": None}, {"name": "z", "type": t4, "len": None}]})
    used = set()

    def fresh_value(pool=INTERESTING):
        for _ in range(50):
            v = rng.choice(pool) if rng.random() < 0.7 else rng.randint(-2 ** 63, 2 ** 64 - 1)
            if v not in used:
                used.add(v)
                return v
        return rng.randint(-2 ** 63, 2 ** 64 - 1)

    for i in range(rng.randint(4, 7)):
        if i == 0:       # always one constant with the top bit set, unsigned ...
            v = fresh_value([2 ** 64 - 1, 2 ** 63, 2 ** 64 - 2, 2 ** 63 + 1, 2 ** 64 - 1])
        elif i == 1:     # ... and one negative
            v = fresh_value([-1, -2 ** 63, -2 ** 63 + 1, -2, -1])
        else:
            v = fresh_value()
        u["defines"].append({"name": "K%d_%d" % (uid, i), "value": v, "dots": False})
    for i in range(2):
        cls = rng.choice(["small", "uint", "long", "ulong"]) if not for_verify else rng.choice(["small", "uint", "long"])
        items, seen = [], set()
        for j in range(rng.randint(2, 4)):
            while True:
                if cls == "small":
                    v = rng.randint(-100, 100)
                elif cls == "uint":
                    v = rng.choice([0, 1, 2 ** 31, 2 ** 32 - 1, rng.randint(0, 2 ** 32 - 1)])
                elif cls == "long":
                    v = rng.choice([-2 ** 40, 2 ** 40, -1, rng.randint(-2 ** 62, 2 ** 62)])
                else:
                    v = rng.choice([0, 2 ** 63, 2 ** 64 - 1, rng.randint(0, 2 ** 64 - 1)])
                if v not in seen:
                    seen.add(v)
                    break
            items.append({"name": "E%d_%d_%d" % (uid, i, j), "value": v, "dots": False, "explicit": True})
        u["enums"].append({"name": "e%d_%d" % (uid, i), "cls": cls, "items": items, "partial": False})
    for i in range(rng.randint(2, 3)):
        tname = rng.choice(INT_NAMES)
        u["sconsts"].append({"name": "C%d_%d" % (uid, i), "type": tname, "value": gen_value(rng, INTS[tname])})
    for i in range(rng.randint(3, 4)):
        tname = rng.choice(INT_NAMES) if i else rng.choice(u["typedefs"])["name"]
        u["globals"].append({"name": "g%d_%d" % (uid, i), "type": tname,
                             "init": gen_value(rng, resolve_int(u, tname))})
    for i in range(rng.randint(3, 4)):
        nargs = rng.randint(1, 3)
        u["funcs"].append({"name": "fn%d_%d" % (uid, i), "ret": rng.choice(INT_NAMES),
                           "args": [rng.choice(INT_NAMES) for _ in range(nargs)],
                           "coef": [rng.randint(1, 9) for _ in range(nargs)], "add": rng.randint(0, 99)})
    # a struct passed and returned BY VALUE, pointers into test-owned and static storage, a struct global:
    # exercised by the stateful sessions (make_session / run_session)
    A, B, C = rng.choice(INT_NAMES), rng.choice(INT_NAMES), rng.choice(INT_NAMES)
    clen = rng.randint(2, 3)
    name = "sv%d" % uid
    u["structs"].append({"name": name, "union": False, "partial": False, "packed": False, "special": "value",
                         "fields": [{"name": "a", "type": A, "len": None}, {"name": "b", "type": B, "len": None},
                                    {"name": "c", "type": C, "len": clen}, {"name": "d", "type": "double", "len": None}]})
    u["vstruct"] = {"name": name, "A": A, "B": B, "C": C, "clen": clen,
                    "ginit": [gen_value(rng, INTS[A]), gen_value(rng, INTS[B]), gen_value(rng, INTS[C])]}
    return u


# ------------------------------------------------------------------ rendering

def field_decl(f, dots_len=False):
    t = f["type"]
    sep = "" if t.endswith("*") else " "
    if f["len"] is None:
        return "%s%s%s;" % (t, sep, f["name"])
    return "%s%s%s[%s];" % (t, sep, f["name"], "..." if dots_len else f["len"])


def struct_tag(s):
    return ("union " if s["union"] else "struct ") + s["name"]


def all_scalar(s):
    """Named members reachable as p->name: the plain fields and the bit-fields."""
    return s["fields"] + s.get("bits", [])


def int_scalar_fields(unit, s):
    return [f for f in all_scalar(s) if f["len"] is None and resolve_int(unit, f["type"]) is not None]


def struct_body(s, dots=False):
    if "body" in s:
        return s["body"]
    return " ".join(field_decl(f, dots and f.get("dots_len", False)) for f in s["fields"])


def value_type(unit, f):
    """(size, signed) describing the values a field can hold (bit-fields: their width)."""
    size, signed = resolve_int(unit, f["type"])
    if "bits" in f:
        return ("bits", f["bits"], signed)
    return (size, signed)


def helper_decls(orig):
    """Declarations (valid both as C prototypes and in a cdef) of the compiler-side helpers."""
    d = []
    for td in orig["typedefs"]:
        d.append("size_t verif_sizeof_%s(void);" % td["name"])
        d.append("int verif_neg_%s(void);" % td["name"])
    for s in orig["structs"]:
        d.append("size_t verif_sizeof_%s(void);" % s["name"])
        d.append("size_t verif_alignof_%s(void);" % s["name"])
        for f in s["fields"]:
            d.append("size_t verif_offsetof_%s_%s(void);" % (s["name"], f["name"]))
            d.append("size_t verif_fsize_%s_%s(void);" % (s["name"], f["name"]))
    for g in orig["globals"]:
        d.append("%s verif_get_%s(void);" % (g["type"], g["name"]))
        d.append("void verif_set_%s(%s);" % (g["name"], g["type"]))
        d.append("void *verif_addr_%s(void);" % g["name"])
    for c in all_consts(orig):
        d.append("int verif_cpos_%s(void);" % c["name"])
        d.append("unsigned long long verif_cbits_%s(void);" % c["name"])
    v = orig.get("vstruct")
    if v:
        n = v["name"]
        d += ["struct %s mk_%s(%s, %s);" % (n, n, v["A"], v["B"]),
              "unsigned long long sum_%s(struct %s);" % (n, n),
              "struct %s *id_%s(struct %s *);" % (n, n, n),
              "%s *cof_%s(struct %s *);" % (v["C"], n, n),
              "struct %s *static_%s(void);" % (n, n),
              "void bump_%s(%s);" % (n, v["A"]),
              "extern struct %s g_%s;" % (n, n),
              "void gbump_%s(%s);" % (n, v["A"])]
    return d


def accessor_decls(unit, orig):
    """Getters/setters taking a struct pointer: they mention the struct type, so they are only
    declared for integer scalar fields that the (possibly mutated) cdef still has with the C type."""
    d = []
    for s, so in zip(unit["structs"], orig["structs"]):
        of = {f["name"]: f for f in all_scalar(so)}
        for f in int_scalar_fields(unit, s):
            if f["name"] in of and of[f["name"]]["type"] == f["type"] and of[f["name"]]["len"] is None:
                d.append("%s verif_getf_%s_%s(%s *);" % (f["type"], s["name"], f["name"], struct_tag(s)))
                d.append("void verif_setf_%s_%s(%s *, %s);" % (s["name"], f["name"], struct_tag(s), f["type"]))
    return d


def all_consts(unit):
    out = []
    for k in unit["defines"]:
        out.append({"name": k["name"], "value": k["value"], "kind": "define"})
    for e in unit["enums"]:
        for it in e["items"]:
            out.append({"name": it["name"], "value": it["value"], "kind": "enum", "enum": e["name"]})
    for c in unit["sconsts"]:
        out.append({"name": c["name"], "value": c["value"], "kind": "constant"})
    return out


def render_csource(orig):
    L = ["#include <stddef.h>", "#include <stdint.h>", "#include <string.h>"]
    for td in orig["typedefs"]:
        L.append("typedef %s %s;" % (td["base"], td["name"]))
    for s in orig["structs"]:
        kw, nm = struct_tag(s).split()
        L.append("%s %s%s { %s };" % (kw, "__attribute__((packed)) " if s.get("packed") else "", nm, struct_body(s)))
    for k in orig["defines"]:
        L.append("#define %s %s" % (k["name"], c_literal(k["value"])))
    for e in orig["enums"]:
        L.append("enum %s { %s };" % (e["name"], ", ".join("%s = %s" % (it["name"], c_literal(it["value"]))
                                                         for it in e["items"])))
    for c in orig["sconsts"]:
        L.append("static const %s %s = %s;" % (c["type"], c["name"], c_literal(c["value"])))
    for g in orig["globals"]:
        L.append("%s %s = %s;" % (g["type"], g["name"], c_literal(g["init"])))
    for fn in orig["funcs"]:
        args = ", ".join("%s a%d" % (t, i) for i, t in enumerate(fn["args"]))
        expr = " + ".join("(unsigned long long)a%d * %dULL" % (i, c) for i, c in enumerate(fn["coef"]))
        L.append("static %s %s(%s) { return (%s)(%s + %dULL); }" % (fn["ret"], fn["name"], args, fn["ret"], expr, fn["add"]))
    # helpers: facts computed by the compiler
    for td in orig["typedefs"]:
        L.append("size_t verif_sizeof_%s(void) { return sizeof(%s); }" % (td["name"], td["name"]))
        L.append("int verif_neg_%s(void) { return ((%s)-1) < 0; }" % (td["name"], td["name"]))
    for s in orig["structs"]:
        tag = struct_tag(s)
        L.append("size_t verif_sizeof_%s(void) { return sizeof(%s); }" % (s["name"], tag))
        L.append("size_t verif_alignof_%s(void) { return _Alignof(%s); }" % (s["name"], tag))
        for f in s["fields"]:
            L.append("size_t verif_offsetof_%s_%s(void) { return offsetof(%s, %s); }" % (s["name"], f["name"], tag, f["name"]))
            L.append("size_t verif_fsize_%s_%s(void) { return sizeof(((%s *)0)->%s); }" % (s["name"], f["name"], tag, f["name"]))
        for f in int_scalar_fields(orig, s):
            L.append("%s verif_getf_%s_%s(%s *p) { return p->%s; }" % (f["type"], s["name"], f["name"], tag, f["name"]))
            L.append("void verif_setf_%s_%s(%s *p, %s v) { p->%s = v; }" % (s["name"], f["name"], tag, f["type"], f["name"]))
    for g in orig["globals"]:
        L.append("%s verif_get_%s(void) { return %s; }" % (g["type"], g["name"], g["name"]))
        L.append("void verif_set_%s(%s v) { %s = v; }" % (g["name"], g["type"], g["name"]))
        L.append("void *verif_addr_%s(void) { return &%s; }" % (g["name"], g["name"]))
    v = orig.get("vstruct")
    if v:
        n, A, B, C = v["name"], v["A"], v["B"], v["C"]
        L += ["static struct %s mk_%s(%s a, %s b) { struct %s r; memset(&r, 0, sizeof r); r.a = a; r.b = b; "
              "r.c[0] = (%s)((unsigned long long)a * 3ULL + (unsigned long long)b); r.d = 0.5; return r; }" % (n, n, A, B, n, C),
              "static unsigned long long sum_%s(struct %s x) { return (unsigned long long)x.a + (unsigned long long)x.b * 3ULL "
              "+ (unsigned long long)x.c[0]; }" % (n, n),
              "static struct %s *id_%s(struct %s *p) { return p; }" % (n, n, n),
              "static %s *cof_%s(struct %s *p) { return p->c; }" % (C, n, n),
              "static struct %s verif_static_%s;" % (n, n),
              "static struct %s *static_%s(void) { return &verif_static_%s; }" % (n, n, n),
              "static void bump_%s(%s a) { verif_static_%s.a = a; verif_static_%s.b = (%s)((unsigned long long)verif_static_%s.b + 1ULL); }"
              % (n, A, n, n, B, n),
              "struct %s g_%s = { %s, %s, { %s }, 0.25 };" % (n, n, c_literal(v["ginit"][0]), c_literal(v["ginit"][1]),
                                                               c_literal(v["ginit"][2])),
              "static void gbump_%s(%s a) { g_%s.a = a; g_%s.c[0] = (%s)((unsigned long long)g_%s.c[0] + 1ULL); }" % (n, A, n, n, C, n)]
    for c in all_consts(orig):
        L.append("int verif_cpos_%s(void) { return (%s) > 0; }" % (c["name"], c["name"]))
        L.append("unsigned long long verif_cbits_%s(void) { return (unsigned long long)(%s); }" % (c["name"], c["name"]))
    return "\n".join(L) + "\n"


def render_cdef(unit, orig):
    """The cdef as a list of chunks [text, packed]: `ffi.cdef(text, packed=packed)` in this order."""
    chunks = []

    def add(text, packed=False):
        if chunks and chunks[-1][1] == packed:
            chunks[-1][0] += text + "\n"
        else:
            chunks.append([text + "\n", packed])

    for td in unit["typedefs"]:
        if td.get("dots"):
            add("typedef int... %s;" % td["name"])
        else:
            add("typedef %s %s;" % (td["base"], td["name"]))
    for s in unit["structs"]:
        body = struct_body(s, dots=True)
        if s["partial"]:
            body += " ...;"
        add("%s { %s };" % (struct_tag(s), body), bool(s.get("cdef_packed", s.get("packed"))))
    L = []
    for k in unit["defines"]:
        L.append("#define %s %s" % (k["name"], "..." if k["dots"] else k["value"]))
    for e in unit["enums"]:
        items = []
        for it in e["items"]:
            if it["dots"]:
                items.append("%s = ..." % it["name"])
            elif it["explicit"]:
                items.append("%s = %d" % (it["name"], it["value"]))
            else:
                items.append(it["name"])
        if e["partial"]:
            items.append("...")
        L.append("enum %s { %s };" % (e["name"], ", ".join(items)))
    for c in unit["sconsts"]:
        L.append("static const %s %s;" % (c["type"], c["name"]))
    for g in unit["globals"]:
        L.append("extern %s %s;" % (g["type"], g["name"]))
    for fn in unit["funcs"]:
        L.append("%s %s(%s);" % (fn["ret"], fn["name"], ", ".join(fn["args"])))
    L.extend(helper_decls(orig))
    L.extend(accessor_decls(unit, orig))
    add("\n".join(L))
    return chunks


def apply_cdef(ffi, cdef):
    """cdef is a str or a list of [text, packed] chunks."""
    if isinstance(cdef, str):
        ffi.cdef(cdef)
    else:
        for text, packed in cdef:
            ffi.cdef(text, packed=bool(packed))


# ------------------------------------------------------------------ variants

def dots_variant(rng, orig, enums_partial=True):
    u = copy.deepcopy(orig)
    u["variant"] = "dots"
    for td in u["typedefs"]:
        td["dots"] = True
    for s in u["structs"]:
        if s.get("special"):
            continue
        s["partial"] = True
        if s.get("packed"):
            s["cdef_packed"] = rng.random() < 0.5      # with "...;" the pack declaration is not needed
        keep = [f for f in s["fields"] if rng.random() < 0.7] or [rng.choice(s["fields"])]
        rng.shuffle(keep)
        for f in keep:
            if f["len"] is not None and rng.random() < 0.5:
                f["dots_len"] = True
        s["fields"] = keep
    for k in u["defines"]:
        k["dots"] = True
    for e in u["enums"]:
        e["partial"] = enums_partial
        for it in e["items"]:
            if rng.random() < 0.6:
                it["dots"] = True
            elif enums_partial and rng.random() < 0.5:
                it["explicit"] = False        # a guess the compiler has to correct
    return u


MUTATIONS = ["field-type", "swap-fields", "array-len", "define-value", "enum-value", "drop-field",
             "packed-swap-fields", "packed-drop-field"]


def mutate(rng, orig, kind):
    """Returns (mutated unit, description) -- description names the touched item."""
    u = copy.deepcopy(orig)
    u["variant"] = kind
    checked = [s for s in u["structs"] if not s.get("special") and not s.get("packed")]
    packed = [s for s in u["structs"] if s.get("packed")]
    if kind == "field-type":
        cands = [(s, f) for s in checked for f in s["fields"] if f["type"] in INTS]
        last = [(s, f) for s, f in cands if f is s["fields"][-1]]
        s, f = rng.choice(last if last and rng.random() < 0.5 else cands)
        new = rng.choice([t for t in INT_NAMES if INTS[t][0] != INTS[f["type"]][0]])
        d = {"struct": s["name"], "field": f["name"], "old": f["type"], "new": new}
        f["type"] = new
    elif kind == "swap-fields":
        cands = [s for s in checked if len(s["fields"]) >= 2]
        s = rng.choice([s for s in cands if not s["union"]] or cands)
        i, j = rng.sample(range(len(s["fields"])), 2)
        s["fields"][i], s["fields"][j] = s["fields"][j], s["fields"][i]
        d = {"struct": s["name"], "swapped": [s["fields"][i]["name"], s["fields"][j]["name"]]}
    elif kind == "array-len":
        cands = [(s, f) for s in checked for f in s["fields"] if f["len"] is not None]
        last = [(s, f) for s, f in cands if f is s["fields"][-1]]
        s, f = rng.choice(last if last and rng.random() < 0.5 else cands)
        new = f["len"] + rng.choice([1, -1]) if f["len"] > 1 else f["len"] + 1
        d = {"struct": s["name"], "field": f["name"], "old": f["len"], "new": new}
        f["len"] = new
    elif kind == "drop-field":
        s = rng.choice([s for s in checked if len(s["fields"]) >= 2])
        i = len(s["fields"]) - 1 if rng.random() < 0.6 else rng.randrange(len(s["fields"]))
        d = {"struct": s["name"], "dropped": s["fields"][i]["name"]}
        del s["fields"][i]
    elif kind == "packed-swap-fields":
        s = rng.choice(packed)
        sz = lambda f: (resolve_int(u, f["type"]) or OTHERS.get(f["type"]) or (0, 0))[0] * (f["len"] or 1)
        pairs = [(i, j) for i in range(len(s["fields"])) for j in range(i + 1, len(s["fields"]))
                 if sz(s["fields"][i]) != sz(s["fields"][j])]
        i, j = rng.choice(pairs)
        s["fields"][i], s["fields"][j] = s["fields"][j], s["fields"][i]
        d = {"struct": s["name"], "swapped": [s["fields"][i]["name"], s["fields"][j]["name"]]}
    elif kind == "packed-drop-field":
        # the C struct has one more member than the cdef: at the end (only the total size differs) or in
        # the middle (a "pad" the cdef does not know: later offsets differ)
        s = rng.choice(packed)
        i = len(s["fields"]) - 1 if rng.random() < 0.5 else rng.randrange(1, len(s["fields"]) - 1)
        d = {"struct": s["name"], "dropped": s["fields"][i]["name"]}
        del s["fields"][i]
    elif kind == "define-value":
        # two independent constants of this module get a wrong value in the cdef: one by a small change,
        # one (when a constant with the top bit set exists) by the subtle change that keeps the 64-bit
        # pattern and flips the sign (-1 vs 2^64-1)
        k = rng.choice(u["defines"])
        new = rng.choice([v for v in (k["value"] + 1, k["value"] - 1, -k["value"], k["value"] ^ (1 << 32))
                          if v != k["value"] and -2 ** 63 <= v < 2 ** 64])
        changed = [{"define": k["name"], "old": k["value"], "new": new}]
        k["value"] = new
        alias = [k2 for k2 in u["defines"] if k2 is not k and (k2["value"] < 0 or k2["value"] >= 2 ** 63)]
        if alias:
            k2 = rng.choice(alias)
            new2 = k2["value"] + 2 ** 64 if k2["value"] < 0 else k2["value"] - 2 ** 64
            changed.append({"define": k2["name"], "old": k2["value"], "new": new2})
            k2["value"] = new2
        d = {"consts": changed}
    elif kind == "enum-value":
        e = rng.choice(u["enums"])
        it = rng.choice(e["items"])
        taken = set(x["value"] for x in e["items"])
        new = it["value"] + 1
        while new in taken:
            new += 1
        d = {"enum": e["name"], "consts": [{"define": it["name"], "old": it["value"], "new": new}]}
        it["value"] = new
    else:
        raise ValueError(kind)
    d["mutation"] = kind
    return u, d


# ------------------------------------------------------------------ layout oracle (independent of cffi)

def natural_layout(unit, s, facts):
    """Offsets/size/alignment that the cdef's own declaration denotes on x86-64 SysV; nested
    struct fields take the compiler's size/alignment of the nested struct (facts)."""
    off, mx, al, offs, sizes = 0, 0, 1, {}, {}
    for f in s["fields"]:
        sz, a = field_size_align(unit, f, facts)
        if s.get("packed"):
            a = 1
        if s["union"]:
            off = 0
        off = (off + a - 1) // a * a
        offs[f["name"]] = off
        sizes[f["name"]] = sz
        off += sz
        mx = max(mx, off)
        al = max(al, a)
    total = (mx + al - 1) // al * al
    return offs, sizes, (total or 1), al


def field_size_align(unit, f, facts):
    t = f["type"]
    it = resolve_int(unit, t)
    if it is not None:
        sz, a = it[0], it[0]
    elif t in OTHERS:
        sz, a = OTHERS[t]
    else:
        name = t.split()[1]
        sz, a = facts["sizeof:" + name], facts["alignof:" + name]
    if f["len"] is not None:
        sz *= f["len"]
    return sz, a


def contains_by_value(unit, s, names):
    for f in s["fields"]:
        t = f["type"]
        if t.startswith("struct ") or t.startswith("union "):
            if t.split()[1] in names:
                return True
    return False


def tainted_structs(unit, roots):
    names = set(roots)
    changed = True
    while changed:
        changed = False
        for s in unit["structs"]:
            if s["name"] not in names and contains_by_value(unit, s, names):
                names.add(s["name"])
                changed = True
    return names


# ------------------------------------------------------------------ probing a built module

def classify_exc(ffi, e):
    import cffi
    if isinstance(e, (getattr(ffi, "error", cffi.FFIError), cffi.FFIError)):
        return "ffi.error"
    if isinstance(e, cffi.VerificationError):
        return "VerificationError"
    for t in (OverflowError, TypeError, AttributeError, NotImplementedError, ValueError, KeyError):
        if isinstance(e, t):
            return t.__name__
    return type(e).__name__


def probe(ffi, lib, p):
    """Run one probe; returns a canonical JSON-able observation."""
    k = p["k"]
    try:
        if k == "helper":
            return int(getattr(lib, p["name"])())
        if k == "sizeof":
            return ffi.sizeof(p["tag"])
        if k == "alignof":
            return ffi.alignof(p["tag"])
        if k == "offsetof":
            return ffi.offsetof(p["tag"], p["field"])
        if k == "fsize":
            return ffi.sizeof(dict(ffi.typeof(p["tag"]).fields)[p["field"]].type)
        if k == "layout":
            ct = ffi.typeof(p["tag"])
            size = ffi.sizeof(ct)
            return [size, ffi.alignof(ct)] + [ffi.offsetof(ct, f) for f in p["fields"]]
        if k == "const":
            return int(getattr(lib, p["name"]))
        if k == "iconst":
            return int(ffi.integer_const(p["name"]))
        if k == "enumtype":
            return sorted([str(n), int(v)] for n, v in ffi.typeof("enum " + p["name"]).relements.items())
        if k == "tdsize":
            return ffi.sizeof(p["name"])
        if k == "tdneg":
            return int(int(ffi.cast(p["name"], -1)) < 0)
        if k == "gread":
            return int(getattr(lib, p["name"]))
        if k == "gwrite":            # Python writes, C reads
            setattr(lib, p["name"], p["v"])
            return int(getattr(lib, "verif_get_" + p["name"])())
        if k == "cwrite":            # C writes, Python reads
            getattr(lib, "verif_set_" + p["name"])(p["v"])
            return int(getattr(lib, p["name"]))
        if k == "gaddr":
            a = int(ffi.cast("uintptr_t", ffi.addressof(lib, p["name"])))
            b = int(ffi.cast("uintptr_t", getattr(lib, "verif_addr_" + p["name"])()))
            return int(a == b)
        if k == "call":
            return int(getattr(lib, p["name"])(*p["args"]))
        if k == "fwrite":            # Python writes the field, C reads it
            x = ffi.new(p["tag"] + " *")
            setattr(x, p["field"], p["v"])
            return int(getattr(lib, "verif_getf_%s_%s" % (p["sname"], p["field"]))(x))
        if k == "fcwrite":           # C writes the field, Python reads it
            x = ffi.new(p["tag"] + " *")
            getattr(lib, "verif_setf_%s_%s" % (p["sname"], p["field"]))(x, p["v"])
            return int(getattr(x, p["field"]))
        raise ValueError("unknown probe " + k)
    except Exception as e:          # canonical: the exception family only
        if isinstance(e, ValueError) and "unknown probe" in str(e):
            raise
        return {"exc": classify_exc(ffi, e)}


def facts_of(ffi, lib, orig):
    """Everything the compiler computed, read through the helper functions."""
    F = {}
    for td in orig["typedefs"]:
        F["tdsize:" + td["name"]] = int(getattr(lib, "verif_sizeof_" + td["name"])())
        F["tdneg:" + td["name"]] = int(getattr(lib, "verif_neg_" + td["name"])())
    for s in orig["structs"]:
        F["sizeof:" + s["name"]] = int(getattr(lib, "verif_sizeof_" + s["name"])())
        F["alignof:" + s["name"]] = int(getattr(lib, "verif_alignof_" + s["name"])())
        for f in s["fields"]:
            F["offsetof:%s.%s" % (s["name"], f["name"])] = int(getattr(lib, "verif_offsetof_%s_%s" % (s["name"], f["name"]))())
            F["fsize:%s.%s" % (s["name"], f["name"])] = int(getattr(lib, "verif_fsize_%s_%s" % (s["name"], f["name"]))())
    for c in all_consts(orig):
        pos = int(getattr(lib, "verif_cpos_" + c["name"])())
        bits = int(getattr(lib, "verif_cbits_" + c["name"])())
        F["const:" + c["name"]] = bits if pos or bits == 0 else bits - 2 ** 64
    return F


def call_cases(rng, unit, fn, n):
    """[(args, expected)] with expected an int or {"exc": name}."""
    out = []
    tps = [INTS[t] for t in fn["args"]]
    for i in range(n):
        args = [gen_value(rng, tp) for tp in tps]
        if i == n - 2:                 # one argument out of range
            j = rng.randrange(len(args))
            lo, hi = int_range(tps[j])
            args[j] = hi + 1 + rng.choice([0, 1, 1000]) if rng.random() < 0.5 else lo - 1 - rng.choice([0, 1, 1000])
            out.append((args, {"exc": "OverflowError"}))
            continue
        if i == n - 1:                 # one argument of the wrong Python type
            j = rng.randrange(len(args))
            args[j] = rng.choice(["x", 1.5, None])
            out.append((args, {"exc": "TypeError"}))
            continue
        total = sum((a % 2 ** 64) * c for a, c in zip(args, fn["coef"])) + fn["add"]
        out.append((args, wrap(total, INTS[fn["ret"]])))
    return out


def probes_for(rng, unit, orig, facts, skip_structs=(), skip_consts=(), ncalls=6):
    """[(item key, probe, expected)] for every declared item of `unit` that is not skipped.
    `expected` comes from the compiler's facts / the generator's arithmetic, never from cffi."""
    P = []
    for td in unit["typedefs"]:
        P.append(("typedef:" + td["name"], {"k": "tdsize", "name": td["name"]}, facts["tdsize:" + td["name"]]))
        P.append(("typedef:" + td["name"], {"k": "tdneg", "name": td["name"]}, facts["tdneg:" + td["name"]]))
    for s in unit["structs"]:
        if s["name"] in skip_structs:
            continue
        tag, key = struct_tag(s), "struct:" + s["name"]
        P.append((key, {"k": "sizeof", "tag": tag}, facts["sizeof:" + s["name"]]))
        P.append((key, {"k": "alignof", "tag": tag}, facts["alignof:" + s["name"]]))
        for f in s["fields"]:
            P.append((key, {"k": "offsetof", "tag": tag, "field": f["name"]}, facts["offsetof:%s.%s" % (s["name"], f["name"])]))
            P.append((key, {"k": "fsize", "tag": tag, "field": f["name"]}, facts["fsize:%s.%s" % (s["name"], f["name"])]))
        of = {f["name"]: f for so in orig["structs"] if so["name"] == s["name"] for f in all_scalar(so)}
        for f in int_scalar_fields(unit, s):
            if f["name"] in of and of[f["name"]]["type"] == f["type"] and of[f["name"]]["len"] is None:
                tp = value_type(unit, f)
                # Python-side stores: only values the field can hold (cffi accepts them; what it does with values
                # outside the field is C02/C03's subject); C-side stores: the read-back is the C conversion wrap(v)
                pyvals = [gen_value(rng, tp)]
                cvals = [gen_value(rng, tp)]
                if "bits" in f:
                    lo, hi = int_range(tp)
                    pyvals += [lo, hi]
                    # the setter takes the declared type: values that fit the type but not the field are truncated by C
                    cvals += [lo, hi, hi + 1, lo - 1, gen_value(rng, resolve_int(unit, f["type"]))]
                    tlo, thi = int_range(resolve_int(unit, f["type"]))
                    cvals = [v for v in cvals if tlo <= v <= thi]
                for v in pyvals:
                    P.append((key, {"k": "fwrite", "tag": tag, "sname": s["name"], "field": f["name"], "v": v}, wrap(v, tp)))
                for v in cvals:
                    P.append((key, {"k": "fcwrite", "tag": tag, "sname": s["name"], "field": f["name"], "v": v}, wrap(v, tp)))
    for c in all_consts(unit):
        if c["name"] in skip_consts:
            continue
        P.append(("const:" + c["name"], {"k": "const", "name": c["name"]}, facts["const:" + c["name"]]))
        if c["kind"] != "constant":
            P.append(("const:" + c["name"], {"k": "iconst", "name": c["name"]}, facts["const:" + c["name"]]))
    for e in unit["enums"]:
        if any(it["name"] in skip_consts for it in e["items"]):
            continue
        want = sorted([it["name"], facts["const:" + it["name"]]] for it in e["items"])
        P.append(("enum:" + e["name"], {"k": "enumtype", "name": e["name"]}, want))
    for g in unit["globals"]:
        tp = resolve_int(unit, g["type"])
        key = "global:" + g["name"]
        P.append((key, {"k": "gaddr", "name": g["name"]}, 1))
        v = gen_value(rng, tp)
        P.append((key, {"k": "gwrite", "name": g["name"], "v": v}, v))
        v = gen_value(rng, tp)
        P.append((key, {"k": "cwrite", "name": g["name"], "v": v}, v))
        lo, hi = int_range(tp)
        P.append((key, {"k": "gwrite", "name": g["name"], "v": hi + 1}, {"exc": "OverflowError"}))
    for fn in unit["funcs"]:
        for args, want in call_cases(rng, unit, fn, ncalls):
            P.append(("func:" + fn["name"], {"k": "call", "name": fn["name"], "args": args}, want))
    return P


# ------------------------------------------------------------------ stateful sessions

def make_session(rng, unit, nsteps=40):
    """A script of interleaved calls; every result is KEPT and re-read after the whole script has run."""
    v = unit["vstruct"]
    A, B, C = INTS[v["A"]], INTS[v["B"]], INTS[v["C"]]
    steps, kinds = [], []          # kinds[i]: kind of the object kept by step i (None: nothing kept)

    def kept(kind):
        return [i for i, k in enumerate(kinds) if k == kind]

    for n in range(nsteps):
        r = rng.random()
        if n < 2 or r < 0.30:
            st = {"op": "mk", "a": gen_value(rng, A), "b": gen_value(rng, B)}
            k = "struct"
        elif r < 0.38 and kept("struct"):
            st = {"op": "sum", "of": rng.choice(kept("struct"))}
            k = "prim"
        elif r < 0.46:
            st = {"op": "new", "a": gen_value(rng, A), "b": gen_value(rng, B), "c": gen_value(rng, C)}
            k = "owned"
        elif r < 0.54 and kept("owned"):
            st = {"op": "id", "of": rng.choice(kept("owned"))}
            k = "ptr"
        elif r < 0.60 and kept("owned"):
            st = {"op": "cof", "of": rng.choice(kept("owned"))}
            k = "cptr"
        elif r < 0.66:
            st = {"op": "static"}
            k = "ptr"
        elif r < 0.72:
            st = {"op": "bump", "a": gen_value(rng, A)}
            k = None
        elif r < 0.78:
            st = {"op": "gread"}
            k = "ptr"
        elif r < 0.83:
            st = {"op": "gbump", "a": gen_value(rng, A)}
            k = None
        elif r < 0.91 and kept("struct"):
            st = {"op": "write", "of": rng.choice(kept("struct")), "a": gen_value(rng, A)}
            k = None
        elif r < 0.95 and kept("ptr"):
            st = {"op": "pwrite", "of": rng.choice(kept("ptr")), "b": gen_value(rng, B)}
            k = None
        elif unit["funcs"]:
            fn = rng.choice(unit["funcs"])
            st = {"op": "call", "name": fn["name"], "args": [gen_value(rng, INTS[t]) for t in fn["args"]]}
            k = "prim"
        else:
            st = {"op": "mk", "a": gen_value(rng, A), "b": gen_value(rng, B)}
            k = "struct"
        steps.append(st)
        kinds.append(k)
    return steps


def run_session(ffi, lib, unit, steps):
    """Runs the script on a built library; returns {"immediate": [...], "final": [...], "alias": [...]}:
    what each step returned at once, what every kept object reads as after ALL steps, and which kept
    objects share an address."""
    v = unit["vstruct"]
    n = v["name"]
    kept, imm = [], []

    def read(o):
        return [int(o.a), int(o.b), int(o.c[0])]

    for st in steps:
        obj, out = None, None
        try:
            op = st["op"]
            if op == "mk":
                obj = getattr(lib, "mk_" + n)(st["a"], st["b"])
                out = read(obj)
            elif op == "sum":
                out = int(getattr(lib, "sum_" + n)(kept[st["of"]]))
                obj = out
            elif op == "new":
                obj = ffi.new("struct %s *" % n)
                obj.a, obj.b, obj.c[0] = st["a"], st["b"], st["c"]
                out = read(obj)
            elif op == "id":
                obj = getattr(lib, "id_" + n)(kept[st["of"]])
                out = read(obj)
            elif op == "cof":
                obj = getattr(lib, "cof_" + n)(kept[st["of"]])
                out = int(obj[0])
            elif op == "static":
                obj = getattr(lib, "static_" + n)()
                out = read(obj)
            elif op == "bump":
                getattr(lib, "bump_" + n)(st["a"])
            elif op == "gread":
                obj = getattr(lib, "g_" + n)
                out = read(obj)
            elif op == "gbump":
                getattr(lib, "gbump_" + n)(st["a"])
            elif op == "write":
                kept[st["of"]].a = st["a"]
            elif op == "pwrite":
                kept[st["of"]].b = st["b"]
            elif op == "call":
                out = int(getattr(lib, st["name"])(*st["args"]))
                obj = out
        except Exception as e:
            out = {"exc": classify_exc(ffi, e)}
            obj = None
        kept.append(obj)
        imm.append(out)
    final, addrs = [], []
    for st, o in zip(steps, kept):
        try:
            if o is None:
                final.append(None)
                addrs.append(None)
            elif isinstance(o, int):
                final.append(o)
                addrs.append(None)
            elif st["op"] == "cof":
                final.append(int(o[0]))
                addrs.append(int(ffi.cast("uintptr_t", o)))
            elif st["op"] in ("mk", "gread"):
                final.append(read(o))
                addrs.append(int(ffi.cast("uintptr_t", ffi.addressof(o))))
            else:
                final.append(read(o))
                addrs.append(int(ffi.cast("uintptr_t", o)))
        except Exception as e:
            final.append({"exc": classify_exc(ffi, e)})
            addrs.append(None)
    # canonical aliasing: index of the first kept object with the same address
    first, alias = {}, []
    for i, a in enumerate(addrs):
        if a is None:
            alias.append(None)
        else:
            alias.append(first.setdefault(a, i))
    return {"immediate": imm, "final": final, "alias": alias}


def expected_session(unit, steps):
    """The same observations computed from C semantics alone (by-value results are fresh objects)."""
    v = unit["vstruct"]
    A, B, C = INTS[v["A"]], INTS[v["B"]], INTS[v["C"]]
    STATIC = {"a": 0, "b": 0, "c": 0, "id": "static"}
    G0 = {"a": v["ginit"][0], "b": v["ginit"][1], "c": v["ginit"][2], "id": "global"}
    kept, imm = [], []
    fns = {f["name"]: f for f in unit["funcs"]}

    def read(m):
        return [m["a"], m["b"], m["c"]]

    for i, st in enumerate(steps):
        op = st["op"]
        obj, out = None, None
        if op == "mk":
            obj = {"a": st["a"], "b": st["b"], "c": wrap((st["a"] % 2 ** 64) * 3 + (st["b"] % 2 ** 64), C), "id": i}
            out = read(obj)
        elif op == "sum":
            m = kept[st["of"]]
            out = obj = (m["a"] % 2 ** 64 + (m["b"] % 2 ** 64) * 3 + m["c"] % 2 ** 64) % 2 ** 64
        elif op == "new":
            obj = {"a": st["a"], "b": st["b"], "c": st["c"], "id": i}
            out = read(obj)
        elif op == "id":
            obj = kept[st["of"]]
            out = read(obj)
        elif op == "cof":
            obj = ("cof", kept[st["of"]])
            out = kept[st["of"]]["c"]
        elif op == "static":
            obj = STATIC
            out = read(obj)
        elif op == "bump":
            STATIC["a"] = st["a"]
            STATIC["b"] = wrap(STATIC["b"] + 1, B)
        elif op == "gread":
            obj = G0
            out = read(obj)
        elif op == "gbump":
            G0["a"] = st["a"]
            G0["c"] = wrap(G0["c"] + 1, C)
        elif op == "write":
            kept[st["of"]]["a"] = st["a"]
        elif op == "pwrite":
            kept[st["of"]]["b"] = st["b"]
        elif op == "call":
            fn = fns[st["name"]]
            out = obj = wrap(sum((a % 2 ** 64) * c for a, c in zip(st["args"], fn["coef"])) + fn["add"], INTS[fn["ret"]])
        kept.append(obj)
        imm.append(out)
    final, ids = [], []
    for st, o in zip(steps, kept):
        if o is None:
            final.append(None)
            ids.append(None)
        elif isinstance(o, int):
            final.append(o)
            ids.append(None)
        elif isinstance(o, tuple):
            final.append(o[1]["c"])
            ids.append(("c", o[1]["id"]))
        else:
            final.append(read(o))
            ids.append(("s", o["id"]))
    first, alias = {}, []
    for i, a in enumerate(ids):
        alias.append(None if a is None else first.setdefault(a, i))
    return {"immediate": imm, "final": final, "alias": alias}


def unjson(x):
    """Inverse of common.jsonable for replay files: big ints were written as decimal strings."""
    import re
    if isinstance(x, str) and re.match(r"^-?\d{15,}$", x):
        return int(x)
    if isinstance(x, dict):
        return {k: unjson(v) for k, v in x.items()}
    if isinstance(x, list):
        return [unjson(v) for v in x]
    return x


# ------------------------------------------------------------------ building

def quiet(fn, stderr=False):
    """Run fn with fd 1 (and optionally fd 2: compiler warnings of setuptools builds) sent to /dev/null."""
    fds = [1, 2] if stderr else [1]
    saved = [os.dup(fd) for fd in fds]
    devnull = os.open(os.devnull, os.O_WRONLY)
    sys.stdout.flush()
    sys.stderr.flush()
    for fd in fds:
        os.dup2(devnull, fd)
    try:
        return fn()
    finally:
        sys.stdout.flush()
        sys.stderr.flush()
        for fd, sv in zip(fds, saved):
            os.dup2(sv, fd)
            os.close(sv)
        os.close(devnull)


def emit_api(cdef, csource, modname, outdir, includes=()):
    """cdef + set_source + emit_c_code; returns the path of the .c file."""
    import cffi
    ffi = cffi.FFI()
    for inc in includes:
        ffi.include(inc)
    apply_cdef(ffi, cdef)
    ffi.set_source(modname, csource)
    cpath = os.path.join(outdir, modname + ".c")
    quiet(lambda: ffi.emit_c_code(cpath))
    return cpath, ffi
