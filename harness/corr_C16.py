"""C16 -- array and pointer indexing, slicing and arithmetic follow the C model.

Theorems (lean/CffiVerif/Props/C16.lean) over the model in Model/Index.lean
(`_cdata_get_indexed_ptr`, `_cdata_getslicearg`, `cdata_slice`, `cdata_ass_slice`,
`_cdata_add_or_sub`, `cdata_sub`, `direct_typeoffsetof`, `ffi.addressof(x, i)`).

Tie to the code: random operation sequences (<= 40 operations) over one allocation
(`ffi.new("T[n]")` or `ffi.new("T *")`) and the cdata objects derived from it (slice
views, views of views, pointers, casts), executed three times:
  * on the real implementation (in-process), observing the outcome (canonical value or
    exception type) and, after every step, all bytes of the allocation via ffi.buffer;
  * on a plain-Python oracle written from the property's statement (a bytearray, integer
    offsets, struct/int.to_bytes for values) -- a difference is a failing input;
  * on the Lean model through Drivers/C16.lean -- a difference is a disagreement.
"""
import math
import os
import struct
import subprocess
import sys

import common
from common import InfraError

MANIFEST = {
    "text": "Kernel-checked theorems over a model of cffi's indexing code: for every Python int i, j of any magnitude an "
            "array of length n accepts x[i] iff 0 <= i < n and x[i:j] iff 0 <= i <= j <= n, every rejected index/slice "
            "leaves memory untouched, a slice is an array view whose item k is item i+k of the base for reads and "
            "writes, slice assignment succeeds iff it gets exactly j-i convertible values (and what a failing "
            "assignment has already written is characterised), (p+i)-p == i whenever i*size fits, (p+i)[j] is "
            "p[i+j], p[i] is i*size bytes past p, addressof(x,i) == x+i, offsetof('T[]',i) == i*size with the exact "
            "overflow condition, an owning pointer accepts only index 0; the model is tied to the code by random "
            "operation sequences over arrays of 13 element kinds compared byte for byte with the real cdata memory "
            "and with an independent Python oracle after every step.",
    "note": "Trusted: Lean kernel; the harness and the Python oracle; element value conversion is taken from the oracle "
            "(struct / int.to_bytes), not modelled here (C03/C04). 64-bit wrap-around of pointer arithmetic is modelled as "
            "gcc/x86-64 behaves. Not modelled: item types of unknown size, struct-field arguments and several indexes "
            "in one addressof/offsetof call. Plain pointers are only dereferenced inside the allocation they came from.",
    "technique": "Lean 4 proof (case analysis + linear integer arithmetic over an executable model; induction over the item "
                 "loop of slice assignment) + differential correspondence of random operation sequences against the "
                 "compiled backend and a Python byte-array oracle",
}

RULE = ("every run starts with a scripted part that does not depend on chance: for each of the 13 element kinds every "
        "operation (index read / write / `x[i] += v`, slice, slice assignment, + and -, pointer - pointer, addressof, len) "
        "is applied to every category of cdata (owning array, slice view, plain pointer, owning pointer from "
        "ffi.new('T *') at indexes -1, 1, 2 and random non-zero ones with convertible values, null / void / retyped "
        "pointer, non-indexable cdata) -- at least 10 cases per (operation, category) pair, counted in the "
        "distribution as scripted:<op>:<category>; then random sequences: a sequence = one allocation of 1..10 items (+ margins) of one of 13 element kinds and <= 40 operations drawn from "
        "index read/write, slice read/write (right count, wrong count, failing item in the middle, bytes, cdata array "
        "sources incl. overlapping ones), + / - with ints, pointer - pointer, addressof(x, i), offsetof, len, casts to "
        "misaligned / differently typed pointers, applied to the array, to nested slice views and to derived pointers; "
        "offsetof / addressof also on types with zero-sized items (int[][0]); "
        "indexes are in range, at the boundaries (-1, n, n+1), negative, huge (beyond 2^63, 2^64) or not ints; "
        "a case (= one operation) is non-trivial when it is rejected, touches a boundary, works through a derived view "
        "or writes; distinct = distinct (element kind, operation, arguments, outcome)")
ASSUMPTIONS = ["pointer arithmetic wraps modulo 2^64 (x86-64, gcc -O1)",
               "element values are converted by the oracle (struct.pack / int.to_bytes), see C03/C04"]

CLASSES = {
    # x[i:j] with a bound beyond Py_ssize_t raises OverflowError where the property says IndexError
    "C16/slice-bound-overflowerror": lambda case: bool(case.get("slice_bound_overflow")),
}

M64 = 1 << 64
SS_MIN, SS_MAX = -(1 << 63), (1 << 63) - 1
MODEL_BASE = 0x7f3a5c001000
MODEL_ZBASE = 0x7f3a5d000000      # model address of the zero-sized-item array (provenance "z")
ERRS = ("IndexError", "TypeError", "OverflowError", "ValueError", "RuntimeError")

CDEF = "struct c16s { short a; char b[3]; }; struct c16e { int x[0]; }; void *malloc(size_t); void free(void *);"

# name, C type, size, struct code / None, signed, flavour
EKINDS = {
    "int8_t": ("int8_t", 1, True, "int"), "uint8_t": ("uint8_t", 1, False, "int"),
    "int16_t": ("int16_t", 2, True, "int"), "uint16_t": ("uint16_t", 2, False, "int"),
    "int32_t": ("int32_t", 4, True, "int"), "uint32_t": ("uint32_t", 4, False, "int"),
    "int64_t": ("int64_t", 8, True, "int"), "uint64_t": ("uint64_t", 8, False, "int"),
    "char": ("char", 1, False, "char"),
    "ptr": ("int *", 8, False, "ptr"),
    "struct": ("struct c16s", 6, False, "struct"),
    "double": ("double", 8, False, "float"),
    "float": ("float", 4, False, "float"),
}
EK_ORDER = list(EKINDS)

_ffi = None


def get_ffi():
    global _ffi
    if _ffi is None:
        import cffi
        _ffi = cffi.FFI()
        _ffi.cdef(CDEF)
    return _ffi


_allocator = None


def get_allocator():
    """ffi.new_allocator(malloc, free): its arrays are cdata objects of the gc-wrapper kind."""
    global _allocator
    if _allocator is None:
        ffi = get_ffi()
        libc = ffi.dlopen(None)
        _allocator = (ffi.new_allocator(libc.malloc, libc.free, should_clear_after_alloc=True), libc)
    return _allocator[0]


def _destructor(x):
    pass


def arr_type(ekname, n=None):
    ct = EKINDS[ekname][0]
    dim = "[]" if n is None else "[%d]" % n
    if ct.endswith("*"):
        return ct + dim
    return ct + dim


def ptr_type(ekname):
    ct = EKINDS[ekname][0]
    return ct + "*" if ct.endswith("*") else ct + " *"


# ------------------------------------------------------------------ values

def conv(ekname, spec):
    """What convert_from_object does with the value `spec`: bytes to store, or '!Kind'."""
    ct, size, signed, flav = EKINDS[ekname]
    t = spec[0]
    if flav == "int":
        if t == "i":
            v = spec[1]
            lo, hi = (-(1 << (8 * size - 1)), (1 << (8 * size - 1)) - 1) if signed else (0, (1 << (8 * size)) - 1)
            if lo <= v <= hi:
                return v.to_bytes(size, "little", signed=signed)
            return "!OverflowError"
        return "!TypeError"
    if flav == "char":
        if t == "b" and len(bytes.fromhex(spec[1])) == 1:
            return bytes.fromhex(spec[1])
        return "!TypeError"
    if flav == "ptr":
        if t == "p":
            return spec[1].to_bytes(8, "little")
        return "!TypeError"
    if flav == "struct":
        if t == "raw":
            return bytes.fromhex(spec[1])
        return "!TypeError"
    if flav == "float":
        if t == "f" or (t == "i" and abs(spec[1]) < (1 << 24)):
            return struct.pack("<d" if size == 8 else "<f", float(spec[1]))
        return "!TypeError"
    raise AssertionError(flav)


def mkval(ffi, ekname, spec):
    """The Python object for a value spec."""
    t = spec[0]
    if t == "i":
        return spec[1]
    if t == "s":
        return spec[1]
    if t == "n":
        return None
    if t == "b":
        return bytes.fromhex(spec[1])
    if t == "f":
        return float(spec[1])
    if t == "p":
        return ffi.cast("int *", spec[1])
    if t == "raw":
        p = ffi.new("struct c16s *")
        ffi.buffer(p)[:] = bytes.fromhex(spec[1])
        return p[0]
    raise AssertionError(spec)


def canon_value(ffi, ekname, v, membytes):
    """Bytes denoted by a value read from the real implementation."""
    ct, size, signed, flav = EKINDS[ekname]
    if flav == "int":
        return int(v).to_bytes(size, "little", signed=signed)
    if flav == "char":
        return bytes(v)
    if flav == "ptr":
        return int(ffi.cast("uintptr_t", v)).to_bytes(8, "little")
    if flav == "struct":
        return bytes(ffi.buffer(ffi.addressof(v)))
    code = "<d" if size == 8 else "<f"
    if membytes is not None and len(membytes) == size:
        m = struct.unpack(code, membytes)[0]
        if math.isnan(m) and math.isnan(v):
            return bytes(membytes)          # NaN payloads are not compared
    try:
        return struct.pack(code, v)
    except OverflowError:
        return b"?"


def mkarg(spec):
    """Python object for an index / bound / addend spec."""
    if spec[0] == "i":
        return spec[1]
    if spec[0] == "n":
        return None
    return 1.5 if spec[1] == "float" else "1"


def arg_line(spec):
    return str(spec[1]) if spec[0] == "i" else ("none" if spec[0] == "n" else "other")


def item_line(it):
    return it if isinstance(it, str) else (it.hex() or "-")


# ------------------------------------------------------------------ one sequence

class Obj:
    __slots__ = ("cd", "k", "off", "n", "tid", "isize", "prov", "voidp", "tag")

    def __init__(self, cd, k, off, n, tid, isize, prov="alloc", voidp=False, tag=None):
        self.cd, self.k, self.off, self.n, self.tid, self.isize, self.prov, self.voidp = cd, k, off, n, tid, isize, prov, voidp
        self.tag = tag          # "array-gc": obtained from ffi.gc(x, destructor) / ffi.new_allocator


class Seq:
    """Executes operations on the real implementation and on the Python oracle."""

    def __init__(self, seq):
        ffi = self.ffi = get_ffi()
        self.seq = seq
        self.ek = seq["ek"]
        self.ct, self.size, self.signed, self.flav = EKINDS[self.ek]
        init = bytes.fromhex(seq["init"])
        self.total = len(init)
        tag = None
        if seq["alloc"] == "arr":               # fixed-length type T[n]
            self.root = ffi.new(arr_type(self.ek, self.total // self.size))
            k, n = "arr", self.total // self.size
        elif seq["alloc"] == "arrv":            # T[] whose length lives in the cdata object
            self.root = ffi.new(arr_type(self.ek), self.total // self.size)
            k, n = "arr", self.total // self.size
        elif seq["alloc"] == "frombuf":         # T[] over a bytearray
            self.keep = bytearray(self.total)
            self.root = ffi.from_buffer(arr_type(self.ek), self.keep)
            k, n = "arr", self.total // self.size
        elif seq["alloc"] == "allocator":       # T[] from ffi.new_allocator(malloc, free)
            self.root = get_allocator()(arr_type(self.ek), self.total // self.size)
            k, n, tag = "arr", self.total // self.size, "array-gc"
        else:
            self.root = ffi.new(ptr_type(self.ek))
            k, n = "own", None
        self.buf = ffi.buffer(self.root)
        assert len(self.buf) == self.total
        self.buf[:] = init
        self.base = int(ffi.cast("uintptr_t", self.root))
        self.mem = bytearray(init)             # oracle memory
        self.objs = [Obj(self.root, k, 0, n, 1, self.size, tag=tag)]
        self.lines = ["new %d %s" % (MODEL_BASE, init.hex() or "-"),
                      "obj %s %d %d 1 %d 0" % ("arr:%d" % n if k == "arr" else "own", MODEL_BASE, self.size,
                                               1 if self.flav == "char" else 0)]
        self.expect = [("ok", None), ("ok 0", None)]

    # -- helpers
    def maddr(self, o_or_off, prov="alloc"):
        if isinstance(o_or_off, Obj):
            prov, off = o_or_off.prov, o_or_off.off
        else:
            off = o_or_off
        if prov == "z":
            return (MODEL_ZBASE + off) % M64
        return off % M64 if prov == "abs" else (MODEL_BASE + off) % M64

    def rel(self, cd, prov):
        a = int(self.ffi.cast("uintptr_t", cd))
        if prov == "z":
            return (a - self.zbase) % M64
        return a if prov == "abs" else (a - self.base) % M64

    def inside(self, off, nbytes):
        off %= M64
        return off + nbytes <= self.total

    def safe(self, o, off, nbytes):
        """The bytes [off, off+nbytes) reached through object o belong to the allocation."""
        return o.prov == "alloc" and self.inside(off, nbytes)

    def realmem(self):
        return bytes(self.buf)

    def obj_line(self, o):
        kind = {"arr": "arr:%d" % (o.n or 0), "ptr": "ptr", "own": "own", "other": "other"}[o.k]
        return "obj %s %d %d %d %d %d" % (kind, self.maddr(o), o.isize, o.tid,
                                          1 if (self.flav == "char" and o.tid == 1) else 0, 1 if o.voidp else 0)

    # -- oracle pieces (the property's statement)
    def o_index(self, o, key):
        if key[0] != "i":
            return ("err", "TypeError")
        i = key[1]
        if not SS_MIN <= i <= SS_MAX:
            return ("err", "IndexError")
        if o.k == "own":
            if i != 0:
                return ("err", "IndexError")
        elif o.k == "ptr":
            if o.prov == "abs" and o.off == 0:
                return ("err", "RuntimeError")
        elif o.k == "arr":
            if not 0 <= i < o.n:
                return ("err", "IndexError")
        else:
            return ("err", "TypeError")
        return ("ok", (o.off + i * o.isize) % M64)

    def o_slicearg(self, o, a, b, c):
        for x in (a, b):
            if x[0] == "n":
                return ("err", "IndexError")
            if x[0] == "o":
                return ("err", "TypeError")
            if not SS_MIN <= x[1] <= SS_MAX:
                return ("err", "OverflowError")
        if c[0] != "n":
            return ("err", "IndexError")
        i, j = a[1], b[1]
        if i > j:
            return ("err", "IndexError")
        if o.k == "arr":
            if i < 0 or j > o.n:
                return ("err", "IndexError")
        elif o.k == "other":
            return ("err", "TypeError")
        return ("ok", (i, j - i))

    # -- the operations: each returns (real, oracle, leanline, expected lean answer builder)
    def run(self, op):
        f = getattr(self, "op_" + op["op"])
        return f(op)

    def _exc(self, fn):
        try:
            return ("ok", fn())
        except Exception as e:            # noqa: broad on purpose, the type is the observation
            return ("err", type(e).__name__)

    def op_get(self, op):
        o = self.objs[op["o"]]
        key = op["k"]
        orc = self.o_index(o, key)
        if orc[0] == "ok":
            off = orc[1]
            if not self.safe(o, off, o.isize):
                raise InfraError("generator produced an unsafe read: %r" % (op,))
            orc = ("ok", bytes(self.mem[off:off + o.isize]))
        r = self._exc(lambda: o.cd[mkarg(key)])
        if r[0] == "ok":
            r = ("ok", canon_value(self.ffi, self.ek, r[1], orc[1] if orc[0] == "ok" else None))
        line = "get %d %s" % (op["o"], arg_line(key))
        want = "ok " + (r[1].hex() or "-") if r[0] == "ok" else "err " + r[1]
        return r, orc, line, want, False

    def op_set(self, op):
        o = self.objs[op["o"]]
        key, vs = op["k"], op["v"]
        it = conv(self.ek, vs)
        orc = self.o_index(o, key)
        if orc[0] == "ok":
            off = orc[1]
            if not self.safe(o, off, o.isize):
                raise InfraError("generator produced an unsafe write: %r" % (op,))
            if isinstance(it, str):
                orc = ("err", it[1:])
            else:
                self.mem[off:off + o.isize] = it
                orc = ("ok", None)
        val = mkval(self.ffi, self.ek, vs)
        snap = self._snapshot(o, key) if orc[0] == "err" else None
        r = self._exc(lambda: o.cd.__setitem__(mkarg(key), val))
        if snap is not None and r[0] == "ok":
            self._undo(snap)
        line = "set %d %s %s" % (op["o"], arg_line(key), item_line(it))
        return r, orc, line, None, True

    # -- a store the property forbids must not damage the process when a broken implementation performs it
    def _snapshot(self, o, key):
        """The bytes a wrongly accepted x[key] = v would overwrite, when they lie inside the Python object that
        holds the allocation (the 8 bytes in front of the data: padding / the length field; the unused tail of
        the 16-byte-rounded malloc block behind a single owned item).  Read only inside that object."""
        if o is not self.objs[0] or key[0] != "i" or not SS_MIN <= key[1] <= SS_MAX:
            return None
        boff, size = key[1] * o.isize, o.isize
        before = -8 <= boff and boff + size <= 0
        slack = (-(48 + size)) % 16
        after = o.k == "own" and size <= boff and boff + size <= size + slack
        if not (before or after):
            return None
        p = self.ffi.cast("char *", o.cd) + boff
        return p, bytes(self.ffi.buffer(p, size))

    def _undo(self, snap):
        self.ffi.buffer(snap[0], len(snap[1]))[:] = snap[1]

    def _rmw_value(self, old, d):
        """Bytes of `old + d` for the element kind, or '!Kind' when Python refuses the addition / the store."""
        if self.flav == "int":
            return conv(self.ek, ["i", int.from_bytes(old, "little", signed=self.signed) + d])
        if self.flav == "float":
            code = "<d" if self.size == 8 else "<f"
            x = struct.unpack(code, old)[0]
            if not (math.isfinite(x) and abs(x) < 1e30):
                raise InfraError("generator produced a read-modify-write on a non-finite float")
            return struct.pack(code, x + d)
        if self.flav == "ptr":
            return ((int.from_bytes(old, "little") + 4 * d) % M64).to_bytes(8, "little")   # int * arithmetic
        return "!TypeError"            # bytes + int, struct + int

    def rmw_ok(self, o, key):
        """Can `x[key] += d` be predicted exactly (floats: finite, not huge)?"""
        if self.flav != "float":
            return True
        orc = self.o_index(o, key)
        if orc[0] != "ok" or not self.safe(o, orc[1], o.isize):
            return True
        x = struct.unpack("<d" if self.size == 8 else "<f", bytes(self.mem[orc[1]:orc[1] + o.isize]))[0]
        return math.isfinite(x) and abs(x) < 1e30

    def op_rmw(self, op):
        """x[key] += d : a read, an addition in Python, a write."""
        o = self.objs[op["o"]]
        key, d = op["k"], op["d"]
        orc = self.o_index(o, key)
        mutating = False
        if orc[0] == "ok":
            off = orc[1]
            if not self.safe(o, off, o.isize):
                raise InfraError("generator produced an unsafe read-modify-write: %r" % (op,))
            old = bytes(self.mem[off:off + o.isize])
            new = self._rmw_value(old, d)
            if isinstance(new, str):
                orc = ("err", new[1:])
                line, want = "get %d %s" % (op["o"], arg_line(key)), "ok " + (old.hex() or "-")
            else:
                self.mem[off:off + o.isize] = new
                orc = ("ok", None)
                line, want, mutating = "set %d %s %s" % (op["o"], arg_line(key), new.hex()), None, True
        else:
            line, want = "get %d %s" % (op["o"], arg_line(key)), None
        cd, k = o.cd, mkarg(key)
        snap = self._snapshot(o, key) if orc[0] == "err" and orc[1] == "IndexError" else None

        def f():
            cd[k] += d
        r = self._exc(f)
        if snap is not None and r[0] == "ok":
            self._undo(snap)
        if want is None and not mutating:
            want = "err " + r[1] if r[0] == "err" else "ok ?"
        return r, orc, line, want, mutating

    def op_slice(self, op):
        o = self.objs[op["o"]]
        a, b, c = op["a"], op["b"], op["c"]
        orc = self.o_slicearg(o, a, b, c)
        new = None
        if orc[0] == "ok":
            i, l = orc[1]
            orc = ("ok", ((o.off + i * o.isize) % M64, l))
        r = self._exc(lambda: o.cd[slice(mkarg(a), mkarg(b), mkarg(c))])
        want = None
        if r[0] == "ok":
            cd = r[1]
            ok_type = self.ffi.typeof(cd).kind == "array" and self.ffi.typeof(cd).item is self.ffi.typeof(o.cd).item
            r = ("ok", (self.rel(cd, o.prov), len(cd))) if ok_type else ("ok", ("wrong-type", str(self.ffi.typeof(cd))))
            new = Obj(cd, "arr", self.rel(cd, o.prov), len(cd), o.tid, o.isize, o.prov)
            want = "ok %d %d %d" % (len(self.objs), self.maddr(new), new.n)
            self.objs.append(new)
        else:
            want = "err " + r[1]
        line = "slice %d %s %s %s" % (op["o"], arg_line(a), arg_line(b), arg_line(c))
        return r, orc, line, want, False

    def op_sset(self, op):
        o = self.objs[op["o"]]
        a, b, c, rhs = op["a"], op["b"], op["c"], op["rhs"]
        sa = self.o_slicearg(o, a, b, c)
        t = rhs["t"]
        # the Python object and the model's description of it
        if t == "list" or t == "tuple" or t == "gen":
            items = [conv(self.ek, v) for v in rhs["vs"]]
            vals = [mkval(self.ffi, self.ek, v) for v in rhs["vs"]]
            pyobj = vals if t == "list" else (tuple(vals) if t == "tuple" else iter(vals))
            rline = "items:" + (",".join(item_line(x) for x in items) or "-")
        elif t == "bytes":
            raw = bytes.fromhex(rhs["h"])
            pyobj = bytearray(raw) if rhs.get("ba") else raw
            items = [conv(self.ek, ["i", x]) for x in raw]
            rline = "bytes:%s:%s" % (raw.hex() or "-", ",".join(item_line(x) for x in items) or "-")
        elif t == "carr":
            src = self.objs[rhs["o"]]
            pyobj = src.cd
            items = None
            rline = "carr:%d" % rhs["o"]
        elif t == "noiter":
            pyobj, items, rline = 5, None, "noiter"
        else:
            pyobj, items, rline = None, None, "del"
        # oracle
        if sa[0] == "err":
            orc = sa
        else:
            i, l = sa[1]
            dst = (o.off + i * o.isize) % M64
            if not self.safe(o, dst, l * o.isize):
                raise InfraError("generator produced an unsafe slice write: %r" % (op,))
            orc = ("ok", None)
            sz = o.isize
            if t == "del" or t == "noiter":
                orc = ("err", "TypeError")
            elif t == "carr":
                s0 = src.off % M64
                if src.n == l:
                    self.mem[dst:dst + l * sz] = bytes(self.mem[s0:s0 + l * sz])
                else:
                    for k in range(l):
                        if k >= src.n:
                            orc = ("err", "ValueError")
                            break
                        self.mem[dst + k * sz:dst + (k + 1) * sz] = bytes(self.mem[s0 + k * sz:s0 + (k + 1) * sz])
                    else:
                        if src.n > l:
                            orc = ("err", "ValueError")
            elif t == "bytes" and self.flav == "char":
                if len(raw) != l:
                    orc = ("err", "ValueError")
                else:
                    self.mem[dst:dst + l] = raw
            else:
                for k in range(l):
                    if k >= len(items):
                        orc = ("err", "ValueError")
                        break
                    if isinstance(items[k], str):
                        orc = ("err", items[k][1:])
                        break
                    self.mem[dst + k * sz:dst + (k + 1) * sz] = items[k]
                else:
                    if len(items) > l:
                        orc = ("err", "ValueError")
        key = slice(mkarg(a), mkarg(b), mkarg(c))
        if t == "del":
            r = self._exc(lambda: o.cd.__delitem__(key))
        else:
            r = self._exc(lambda: o.cd.__setitem__(key, pyobj))
        line = "sset %d %s %s %s %s" % (op["o"], arg_line(a), arg_line(b), arg_line(c), rline)
        return r, orc, line, None, True

    def op_add(self, op):
        o = self.objs[op["o"]]
        w, sign = op["w"], op["sign"]
        if w[0] != "i":
            orc = ("err", "TypeError")
        elif not SS_MIN <= w[1] <= SS_MAX:
            orc = ("err", "OverflowError")
        elif o.k == "other":
            orc = ("err", "TypeError")
        else:
            orc = ("ok", (o.off + w[1] * sign * (1 if o.voidp else o.isize)) % M64)
        x = mkarg(w)
        if sign == 1:
            r = self._exc((lambda: x + o.cd) if op.get("rev") else (lambda: o.cd + x))
        else:
            r = self._exc(lambda: o.cd - x)
        if r[0] == "ok":
            cd = r[1]
            new = Obj(cd, "ptr", self.rel(cd, o.prov), None, o.tid, o.isize, o.prov, o.voidp)
            tk = self.ffi.typeof(cd)
            good = tk.kind == "pointer" and (o.voidp or tk.item is self.ffi.typeof(o.cd).item)
            r = ("ok", new.off if good else ("wrong-type", str(tk)))
            want = "ok %d %d" % (len(self.objs), self.maddr(new))
            self.objs.append(new)
        else:
            want = "err " + r[1]
        line = "add %d %s %d" % (op["o"], arg_line(w), sign)
        return r, orc, line, want, False

    def op_sub(self, op):
        v, w = self.objs[op["a"]], self.objs[op["b"]]
        if not (v.k in ("ptr", "own") and w.k in ("ptr", "own", "arr") and v.tid == w.tid):
            orc = ("err", "TypeError")
        elif v.isize <= 0 and not v.voidp:
            orc = ("err", "TypeError")
        else:
            d = (v.off - w.off) % M64
            if d >= 1 << 63:
                d -= M64
            sz = 1 if v.voidp else v.isize
            if sz > 1:
                q = abs(d) // sz * (1 if d >= 0 else -1)
                orc = ("err", "ValueError") if d - q * sz != 0 else ("ok", q)
            else:
                orc = ("ok", d)
        r = self._exc(lambda: v.cd - w.cd)
        if r[0] == "ok" and not isinstance(r[1], int):
            r = ("ok", "not-an-int")
        line = "sub %d %d" % (op["a"], op["b"])
        want = "ok %d" % r[1] if r[0] == "ok" and isinstance(r[1], int) else "err %s" % (r[1],)
        return r, orc, line, want, False

    def op_addrof(self, op):
        o = self.objs[op["o"]]
        idx = op["i"]
        if idx[0] != "i" or not SS_MIN <= idx[1] <= SS_MAX:
            orc = ("err", "TypeError")
        elif o.k == "other" or o.isize < 0:
            orc = ("err", "TypeError")
        elif not SS_MIN <= idx[1] * o.isize <= SS_MAX:
            orc = ("err", "OverflowError")
        else:
            orc = ("ok", (o.off + idx[1] * o.isize) % M64)
        x = mkarg(idx)
        r = self._exc(lambda: self.ffi.addressof(o.cd, x))
        if r[0] == "ok":
            cd = r[1]
            new = Obj(cd, "ptr", self.rel(cd, o.prov), None, o.tid, o.isize, o.prov)
            # the property: ffi.addressof(x, i) == x + i  (checked on the real objects too)
            try:
                same = (cd == o.cd + x) and self.ffi.typeof(cd) is self.ffi.typeof(o.cd + x)
            except Exception:
                same = False
            r = ("ok", new.off if same else "addressof(x,i) != x+i")
            want = "ok %d %d" % (len(self.objs), self.maddr(new))
            self.objs.append(new)
        else:
            want = "err " + r[1]
        line = "addrof %d %s" % (op["o"], arg_line(idx))
        return r, orc, line, want, False

    def op_offsetof(self, op):
        form, idx = op["form"], op["i"]
        ct = {"[]": arr_type(self.ek), "[5]": arr_type(self.ek, 5), "*": ptr_type(self.ek), "": self.ct}[form]
        if idx[0] != "i" or not SS_MIN <= idx[1] <= SS_MAX:
            orc = ("err", "TypeError")
        elif form == "":
            orc = ("err", "TypeError")
        elif not SS_MIN <= idx[1] * self.size <= SS_MAX:
            orc = ("err", "OverflowError")
        else:
            orc = ("ok", idx[1] * self.size)       # i * ffi.sizeof(T)
        x = mkarg(idx)
        r = self._exc(lambda: self.ffi.offsetof(ct, x))
        line = "offsetof %d %s %d" % (self.size, arg_line(idx), 0 if form == "" else 1)
        want = "ok %d" % r[1] if r[0] == "ok" else "err " + r[1]
        return r, orc, line, want, False

    def op_len(self, op):
        o = self.objs[op["o"]]
        orc = ("ok", o.n) if o.k == "arr" else ("err", "TypeError")
        r = self._exc(lambda: len(o.cd))
        line = "len %d" % op["o"]
        want = "ok %d" % r[1] if r[0] == "ok" else "err " + r[1]
        return r, orc, line, want, False

    # -- object definitions (told to the model, nothing to compare but the address bookkeeping)
    def _define(self, new):
        self.objs.append(new)
        return ("ok", None), ("ok", None), self.obj_line(new), "ok %d" % (len(self.objs) - 1), False

    def op_castoff(self, op):
        o = self.objs[op["o"]]
        cd = self.ffi.cast(ptr_type(self.ek), self.ffi.cast("char *", o.cd) + op["k"])
        return self._define(Obj(cd, "ptr", (o.off + op["k"]) % M64, None, 1, self.size, o.prov))

    def op_retype(self, op):
        o = self.objs[op["o"]]
        other = "short *" if self.size != 2 else "int *"
        cd = self.ffi.cast(other, o.cd)
        return self._define(Obj(cd, "ptr", o.off, None, 2, 4 if self.size == 2 else 2, o.prov))

    def op_voidp(self, op):
        o = self.objs[op["o"]]
        cd = self.ffi.cast("void *", o.cd)
        return self._define(Obj(cd, "ptr", o.off, None, 3, -1, o.prov, True))

    def op_null(self, op):
        cd = self.ffi.cast(ptr_type(self.ek), 0)
        return self._define(Obj(cd, "ptr", 0, None, 1, self.size, "abs"))

    def op_gcwrap(self, op):
        """ffi.gc(x, destructor), `times` times: an array cdata of the same type, address and length."""
        o = self.objs[op["o"]]
        cd = o.cd
        for _ in range(op.get("times", 1)):
            cd = self.ffi.gc(cd, _destructor)
        if self.rel(cd, o.prov) != o.off % M64 or self.ffi.typeof(cd) is not self.ffi.typeof(o.cd):
            raise InfraError("ffi.gc changed the address or the type")
        return self._define(Obj(cd, o.k, o.off, o.n, o.tid, o.isize, o.prov, o.voidp,
                                tag="array-gc" if o.k == "arr" else None))

    def op_sizeof(self, op):
        """ffi.sizeof(x) of an array cdata: length * sizeof(T)."""
        o = self.objs[op["o"]]
        orc = ("ok", o.n * o.isize) if o.k == "arr" else ("ok", 8 if o.k in ("ptr", "own") else 4)
        r = self._exc(lambda: self.ffi.sizeof(o.cd))
        if o.k == "arr":
            good = r[0] == "ok" and o.isize > 0 and r[1] % o.isize == 0
            want = "ok %d" % (r[1] // o.isize) if good else "err sizeof=%r" % (r[1],)
        else:
            want = "err TypeError"
        return r, orc, "len %d" % op["o"], want, False

    def op_zdefine(self, op):
        """An array whose items have size 0 (`int[4][0]`): only addressof is applied to it."""
        cd = self.ffi.new("int[4][0]")
        self.zbase = int(self.ffi.cast("uintptr_t", cd))
        return self._define(Obj(cd, "arr", 0, 4, 7, 0, "z"))

    def op_zoffsetof(self, op):
        """ffi.offsetof on array / pointer types with zero-sized items: i * 0 == 0, never an overflow."""
        idx = op["i"]
        ct = {"[]": "int[][0]", "[3]": "int[3][0]", "*": "int(*)[0]"}[op["form"]]
        if idx[0] != "i" or not SS_MIN <= idx[1] <= SS_MAX:
            orc = ("err", "TypeError")
        else:
            orc = ("ok", 0)
        x = mkarg(idx)
        r = self._exc(lambda: self.ffi.offsetof(ct, x))
        want = "ok %d" % r[1] if r[0] == "ok" and isinstance(r[1], int) else "err %s" % (r[1],)
        return r, orc, "offsetof 0 %s 1" % arg_line(idx), want, False

    def op_other(self, op):
        cd = self.ffi.cast("int", 3)
        return self._define(Obj(cd, "other", 0, None, 9, 4, "abs"))


# ------------------------------------------------------------------ categories of cdata objects

def category(s, o):
    if o.prov == "z":
        return "zero-size-item"
    if o.k == "other":
        return "non-indexable"
    if o.k == "own":
        return "owning-pointer"
    if o.k == "arr":
        if o.tag:
            return o.tag
        return "array-owning" if o is s.objs[0] else "array-view"
    if o.voidp:
        return "pointer-void"
    if o.tid != 1:
        return "pointer-retyped"
    if o.prov == "abs":
        return "pointer-null" if o.off == 0 else "pointer-null+k"
    if not s.inside(o.off, 0):
        return "pointer-wild"
    return "pointer" if (o.off % M64) % s.size == 0 else "pointer-misaligned"


OPS_ON_OBJECTS = ("get", "set", "rmw", "slice", "sset", "add", "sub", "addrof", "len", "sizeof")
MIN_CASES = 10
# (operation, category) pairs the scripted part of every run guarantees at least MIN_CASES times
REQUIRED = ([(op, c) for op in ("get", "set", "rmw", "slice", "sset", "add", "sub", "addrof", "len")
             for c in ("array-owning", "array-view", "pointer", "owning-pointer")]
            + [(op, c) for op in ("get", "set", "slice", "add", "sub", "addrof", "len")
               for c in ("pointer-null", "non-indexable")]
            + [(op, c) for op in ("add", "sub", "addrof", "len") for c in ("pointer-void",)]
            + [(op, c) for op in ("add", "sub", "len") for c in ("pointer-retyped",)]
            + [(op, "array-gc") for op in ("len", "sizeof", "get", "set", "rmw", "slice", "sset", "add", "sub", "addrof")])


# ------------------------------------------------------------------ generation

def rnd_bytes(rng, n):
    return bytes(rng.getrandbits(8) for _ in range(n))


def gen_value(rng, ek, bad_ok=True):
    ct, size, signed, flav = EKINDS[ek]
    r = rng.random()
    if bad_ok and r < 0.12:
        if flav == "int":
            lo, hi = (-(1 << (8 * size - 1)), (1 << (8 * size - 1)) - 1) if signed else (0, (1 << (8 * size)) - 1)
            return rng.choice([["i", hi + 1], ["i", lo - 1], ["i", 1 << 70], ["s", "x"], ["n"], ["b", "61"], ["f", 2.5]])
        if flav == "char":
            return rng.choice([["i", 65], ["b", "6162"], ["b", ""], ["s", "x"], ["n"]])
        if flav == "ptr":
            return rng.choice([["i", 5], ["n"], ["s", "x"], ["b", "61"]])
        if flav == "struct":
            return rng.choice([["i", 5], ["n"], ["s", "x"], ["b", "61"], ["f", 1.0]])
        return rng.choice([["s", "x"], ["n"], ["b", "61"]])
    if flav == "int":
        lo, hi = (-(1 << (8 * size - 1)), (1 << (8 * size - 1)) - 1) if signed else (0, (1 << (8 * size)) - 1)
        return ["i", rng.choice([lo, hi, 0, 1, rng.randint(lo, hi), rng.randint(lo, hi)])]
    if flav == "char":
        return ["b", rnd_bytes(rng, 1).hex()]
    if flav == "ptr":
        return ["p", rng.choice([0, rng.getrandbits(64), rng.getrandbits(47)])]
    if flav == "struct":
        return ["raw", rnd_bytes(rng, 6).hex()]
    return rng.choice([["f", rng.randint(-4000, 4000) / 8.0], ["i", rng.randint(-1000, 1000)]])


def gen_key_array(rng, n):
    """An index for an array of length n: in range, boundary, negative, huge, not an int."""
    r = rng.random()
    if r < 0.45 and n > 0:
        return ["i", rng.randrange(n)]
    if r < 0.75:
        return ["i", rng.choice([-1, n, n + 1, -n, -n - 1, n - 1, 0, -2])]
    if r < 0.90:
        return ["i", rng.choice([1 << 63, -(1 << 63) - 1, 1 << 64, (1 << 64) + 1, -(1 << 64), 10 ** 30, -10 ** 30,
                                 (1 << 63) - 1 + rng.randint(1, 5)])]
    return rng.choice([["n"], ["o", "float"], ["o", "str"]])


HUGE_REJECT = [1 << 63, -(1 << 63) - 1, 1 << 64, 10 ** 30, -10 ** 30]


def gen_op(rng, s):
    """Draw the next operation for the sequence state `s` (only operations that stay inside the allocation
    when the implementation is correct -- and inside the margins when a bound check is off by a little)."""
    objs = s.objs
    size = s.size
    nobj = len(objs)
    zs = [i for i, x in enumerate(objs) if x.prov == "z"]
    if rng.random() < 0.04 and ZERO_OK:
        # zero-sized items: ffi.offsetof / ffi.addressof with every kind of index
        i = rng.choice([["i", rng.randint(-5, 12)], ["i", rng.randint(-5, 12)], ["i", 1], ["i", 1 << 62], ["i", -(1 << 63)],
                        ["i", (1 << 63) - 1], ["i", 1 << 63], ["i", -(1 << 63) - 1], ["i", 1 << 64], ["n"], ["o", "float"]])
        if rng.random() < 0.5:
            return {"op": "zoffsetof", "form": rng.choice(["[]", "[3]", "*"]), "i": i}
        if not zs:
            return {"op": "zdefine"}
        return {"op": "addrof", "o": rng.choice(zs), "i": i}
    # prefer recently created objects (nested views); objects with zero-sized items only serve addressof
    gen = [i for i, x in enumerate(objs) if x.prov != "z"]
    oi = rng.choice(gen) if rng.random() < 0.5 else gen[max(0, len(gen) - 1 - int(rng.expovariate(0.7)))]
    o = objs[oi]
    r = rng.random()

    def items_before(o):     # whole items between the allocation start and the object
        return (o.off % M64) // o.isize if o.isize > 0 and s.inside(o.off, 0) else 0

    def items_after(o):      # whole items between the object's start and the allocation end
        return (s.total - (o.off % M64)) // o.isize if o.isize > 0 and s.inside(o.off, 0) else 0

    def safe_index(o):
        """An int index that the implementation either rejects or that lands inside the allocation."""
        if o.k == "arr":
            key = gen_key_array(rng, o.n)
            if key[0] == "i" and SS_MIN <= key[1] <= SS_MAX:
                # out of range by a little: must land in the allocation if wrongly accepted
                if not 0 <= key[1] < o.n and o.prov == "alloc" and o.tid == 1:
                    lo, hi = -items_before(o), items_after(o)
                    if not lo <= key[1] < hi:
                        key = ["i", rng.choice(HUGE_REJECT)]
            return key
        if o.k == "own":
            return rng.choice([["i", 0], ["i", 0], ["i", 1], ["i", -1], ["i", 1 << 64], ["n"], ["o", "float"], ["i", 2]])
        if o.k == "ptr":
            if o.prov == "abs":
                if o.off != 0:        # null + k: never dereferenced
                    return rng.choice([["n"], ["o", "float"], ["i", 1 << 63]])
                return rng.choice([["i", 0], ["i", 1], ["i", -3], ["i", 1 << 63], ["n"]])
            if o.tid != 1 or o.voidp or not s.inside(o.off, 0) or (o.off % M64) % size:
                return rng.choice([["n"], ["o", "float"], ["i", 1 << 63], ["i", -(1 << 64)]])
            lo, hi = -items_before(o), items_after(o)
            if hi > lo and rng.random() < 0.8:
                return ["i", rng.randrange(lo, hi)]
            return rng.choice([["n"], ["o", "str"], ["i", 1 << 63], ["i", -(1 << 70)]])
        return rng.choice([["i", 0], ["i", 1], ["n"]])

    def safe_bounds(o):
        """(start, stop, step) for a slice."""
        r2 = rng.random()
        if o.k == "arr":
            n = o.n
            if r2 < 0.45:
                i = rng.randint(0, n)
                j = rng.randint(i, n)
                a, b = ["i", i], ["i", j]
            elif r2 < 0.75:
                lo, hi = (-items_before(o), items_after(o)) if (o.prov == "alloc" and o.tid == 1) else (0, n)
                cand = [(-1, n), (0, n + 1), (n, n + 1), (n + 1, n + 1), (-1, 0), (2, 1), (n, 0), (-2, -1), (1, n + 2), (n, n),
                        (0, 0)]
                i, j = rng.choice(cand)
                if not (lo <= i and j <= hi):
                    i, j = rng.choice([(2, 1), (n, 0), (0, n)]) if n > 0 else (1, 0)
                a, b = ["i", i], ["i", j]
            elif r2 < 0.9:
                a = rng.choice([["i", 0], ["i", 1 << 63], ["i", -(1 << 70)], ["n"], ["o", "float"], ["i", rng.randint(0, n)]])
                b = rng.choice([["i", n], ["i", 1 << 63], ["i", 1 << 64], ["n"], ["o", "str"], ["i", rng.randint(0, n)]])
                # if both are plain ints keep them inside
                if a[0] == "i" and b[0] == "i" and all(SS_MIN <= x[1] <= SS_MAX for x in (a, b)):
                    if not (0 <= a[1] <= b[1] <= n):
                        b = ["n"]
            else:
                a, b = ["i", 0], ["i", n]
            c = ["n"] if rng.random() < 0.9 else rng.choice([["i", 1], ["i", 2], ["i", -1], ["o", "float"], ["i", 0]])
            return a, b, c
        if o.k == "own":
            a, b = rng.choice([(0, 1), (0, 0), (1, 1), (1, 0), (0, 1)])
            if rng.random() < 0.2:
                return rng.choice([(["n"], ["i", 1], ["n"]), (["i", 0], ["n"], ["n"]), (["i", 0], ["i", 1], ["i", 1]),
                                   (["i", 1 << 63], ["i", 1], ["n"]), (["o", "float"], ["i", 1], ["n"])])
            return ["i", a], ["i", b], ["n"]
        if o.k == "ptr" and o.prov == "alloc" and o.tid == 1 and s.inside(o.off, 0) and (o.off % M64) % size == 0:
            lo, hi = -items_before(o), items_after(o)
            if r2 < 0.75:
                i = rng.randint(lo, hi)
                j = rng.randint(i, hi)
                return ["i", i], ["i", j], ["n"]
            return rng.choice([(["i", 1], ["i", 0], ["n"]), (["n"], ["i", 0], ["n"]), (["i", 0], ["i", 0], ["i", 1]),
                               (["i", 0], ["i", 1 << 63], ["n"]), (["i", 0], ["o", "float"], ["n"])])
        # wild / misaligned / foreign pointers: only slices that are rejected (no wild views in the table)
        return rng.choice([(["i", 1], ["i", 0], ["n"]), (["n"], ["i", 0], ["n"]), (["i", 0], ["i", 0], ["i", 1]),
                           (["o", "str"], ["i", 0], ["n"]), (["i", 0], ["i", 1 << 63], ["n"])])

    if r < 0.17:
        return {"op": "get", "o": oi, "k": safe_index(o)}
    if r < 0.34:
        if o.tid != 1:
            return {"op": "get", "o": oi, "k": safe_index(o)}
        key = safe_index(o)
        if rng.random() < 0.25 and s.rmw_ok(o, key):
            return {"op": "rmw", "o": oi, "k": key, "d": rng.randint(-3, 3)}
        return {"op": "set", "o": oi, "k": key, "v": gen_value(rng, s.ek)}
    if r < 0.48:
        a, b, c = safe_bounds(o)
        if o.k == "other" or (o.k == "ptr" and (o.tid != 1 or o.prov == "abs")):
            # views of foreign-typed / null pointers are never dereferenced later: keep them out of the table
            a, b = ["i", 1], ["i", 0]
        return {"op": "slice", "o": oi, "a": a, "b": b, "c": c}
    if r < 0.66:
        if o.tid != 1 or o.k == "other" or o.prov == "abs":
            return {"op": "len", "o": oi}
        a, b, c = safe_bounds(o)
        l = (b[1] - a[1]) if (a[0] == "i" and b[0] == "i") else 2
        l = max(0, min(l, 12))
        r3 = rng.random()
        if r3 < 0.45:
            k = rng.choice([l, l, l, l - 1, l + 1, 0, l + 3])
            k = max(0, k)
            vs = [gen_value(rng, s.ek, bad_ok=(rng.random() < 0.25)) for _ in range(k)]
            rhs = {"t": rng.choice(["list", "list", "tuple", "gen"]), "vs": vs}
        elif r3 < 0.60 and s.flav in ("char", "int"):
            k = max(0, rng.choice([l, l, l - 1, l + 1]))
            rhs = {"t": "bytes", "h": rnd_bytes(rng, k).hex(), "ba": rng.random() < 0.4}
        elif r3 < 0.85 and s.flav != "float":
            cands = [i for i, x in enumerate(objs) if x.k == "arr" and x.tid == 1 and x.prov == "alloc"
                     and s.inside(x.off, x.n * size)]
            if cands:
                same = [i for i in cands if objs[i].n == l]
                rhs = {"t": "carr", "o": rng.choice(same) if (same and rng.random() < 0.6) else rng.choice(cands)}
            else:
                rhs = {"t": "noiter"}
        elif r3 < 0.93:
            rhs = {"t": "noiter"}
        else:
            rhs = {"t": "del"}
        return {"op": "sset", "o": oi, "a": a, "b": b, "c": c, "rhs": rhs}
    if r < 0.78:
        w = rng.choice([["i", rng.randint(-6, 6)], ["i", rng.randint(-6, 6)], ["i", rng.randint(-6, 6)],
                        ["i", rng.choice([1 << 62, -(1 << 62), (1 << 61) + 3, (1 << 63) - 1, 1 << 63, -(1 << 63) - 1,
                                          1 << 64, 10 ** 25])],
                        ["n"], ["o", "float"], ["o", "str"]])
        sign = rng.choice([1, 1, -1])
        if w[0] == "i" and w[1] == -(1 << 63):
            sign = 1
        if o.k == "other":
            w = ["i", 1]
        return {"op": "add", "o": oi, "w": w, "sign": sign, "rev": sign == 1 and rng.random() < 0.3}
    if r < 0.86:
        bi = rng.choice(gen)
        if objs[bi].prov != o.prov and objs[bi].tid == o.tid:
            bi = oi               # the distance between two allocations is not part of the model
        return {"op": "sub", "a": oi, "b": bi}
    if r < 0.92:
        if o.voidp:
            return {"op": "len", "o": oi}
        i = rng.choice([["i", rng.randint(-5, 12)], ["i", rng.randint(-5, 12)],
                        ["i", rng.choice([SS_MAX // size, SS_MAX // size + 1, SS_MIN // size, -((-SS_MIN) // size) - 1,
                                          1 << 62, 1 << 63, -(1 << 63), 1 << 64])],
                        ["n"], ["o", "float"]])
        return {"op": "addrof", "o": oi, "i": i}
    if r < 0.95:
        i = rng.choice([["i", rng.randint(-9, 99)], ["i", rng.choice([SS_MAX // size, SS_MAX // size + 1,
                                                                       -((-SS_MIN) // size), -((-SS_MIN) // size) - 1,
                                                                       1 << 63, -(1 << 63) - 1, 1 << 66])],
                        ["n"], ["o", "float"]])
        forms = ["[]", "[]", "[5]", "*", ""] if s.flav != "ptr" else ["[]", "[]", "[5]", "*"]
        return {"op": "offsetof", "form": rng.choice(forms), "i": i}
    if r < 0.965:
        return {"op": "len", "o": oi}
    if r < 0.972 and o.prov == "alloc" and o.k == "arr" and o.tid == 1:
        return rng.choice([{"op": "gcwrap", "o": oi, "times": rng.choice([1, 1, 2])}, {"op": "sizeof", "o": oi}])
    if r < 0.975 and o.prov == "alloc" and o.k != "other" and not o.voidp and o.tid == 1:
        return {"op": "castoff", "o": oi, "k": rng.choice([1, -1, 3, size + 1, size])}
    if r < 0.983 and o.prov == "alloc" and o.k != "other" and o.tid == 1:
        return {"op": "retype", "o": oi}
    if r < 0.989 and o.prov == "alloc" and o.k != "other" and o.tid == 1:
        return {"op": "voidp", "o": oi}
    if r < 0.995:
        return {"op": "null"}
    return {"op": "other"}


def new_sequence(rng):
    ek = rng.choice(EK_ORDER)
    size = EKINDS[ek][1]
    if rng.random() < 0.12:
        return {"ek": ek, "alloc": "own", "init": rnd_bytes(rng, size).hex(), "ops": []}
    n = rng.randint(1, 10)
    margin = rng.randint(2, 4)
    total = n + 2 * margin
    seq = {"ek": ek, "alloc": rng.choice(["arr", "arr", "arr", "arrv", "frombuf", "allocator"]),
           "init": rnd_bytes(rng, total * size).hex(), "ops": []}
    # first operation: the tested array is a view with margins on both sides
    seq["ops"].append({"op": "slice", "o": 0, "a": ["i", margin], "b": ["i", margin + n], "c": ["n"]})
    return seq


# ------------------------------------------------------------------ the scripted part of every run

def _I(n):
    return ["i", n]


NONE, FLOAT, STR = ["n"], ["o", "float"], ["o", "str"]
HUGE = [1 << 63, -(1 << 63) - 1, 1 << 64]


def scripted_sequences(rng):
    """Sequences that do not depend on chance: for every element kind, every operation is applied to every
    category of cdata object (owning array, slice view, plain pointer, owning pointer from ffi.new('T *'), null /
    void / retyped pointer, non-indexable cdata) with in-range, boundary, negative, huge and non-int arguments.
    Writes come with a convertible value, so that only the index can be the reason for a rejection.  The order
    inside a sequence goes from stores that stay inside the Python object holding the allocation to farther
    ones: a broken implementation is caught (and the sequence stopped) at the harmless ones."""
    seqs = []
    for ek in EK_ORDER:
        size, flav = EKINDS[ek][1], EKINDS[ek][3]

        def val():
            return gen_value(rng, ek, bad_ok=False)

        def d():
            return rng.choice([1, 2, -1, 3])
        numeric = flav in ("int", "float", "ptr")

        # ---- A. the owning pointer p = ffi.new("T *")
        near = [-1, 1, 2]
        rnd = [rng.choice([-1, 1]) * rng.randint(3, 9), rng.choice([-1, 1]) * rng.randint(10, 100000)]
        ops = []
        for i in near + rnd:
            ops.append({"op": "get", "o": 0, "k": _I(i)})
        ops.append({"op": "get", "o": 0, "k": _I(0)})
        ops.append({"op": "set", "o": 0, "k": _I(0), "v": val()})
        for i in near + rnd:
            ops.append({"op": "set", "o": 0, "k": _I(i), "v": val()})
        ops.append({"op": "rmw", "o": 0, "k": _I(0), "d": d()})
        for i in near + rnd:
            ops.append({"op": "rmw", "o": 0, "k": _I(i), "d": d()})
        for k in [_I(h) for h in HUGE] + [NONE, FLOAT, STR]:
            ops.append({"op": "get", "o": 0, "k": k})
            ops.append({"op": "set", "o": 0, "k": k, "v": val()})
        ops.append({"op": "rmw", "o": 0, "k": _I(1 << 63), "d": 1})
        ops.append({"op": "rmw", "o": 0, "k": NONE, "d": 1})
        seqs.append({"ek": ek, "alloc": "own", "init": rnd_bytes(rng, size).hex(), "ops": ops})

        ops = []
        for a, b, c in [(_I(0), _I(1), NONE), (_I(0), _I(0), NONE), (_I(1), _I(1), NONE), (_I(1), _I(0), NONE),
                        (NONE, _I(1), NONE), (_I(0), NONE, NONE), (_I(0), _I(1), _I(1)), (_I(1 << 63), _I(1), NONE),
                        (FLOAT, _I(1), NONE), (_I(-1), _I(-1), _I(2))]:
            ops.append({"op": "slice", "o": 0, "a": a, "b": b, "c": c})
        for a, b, rhs in [(0, 1, {"t": "list", "vs": [val()]}), (0, 1, {"t": "list", "vs": []}),
                          (0, 1, {"t": "tuple", "vs": [val(), val()]}), (0, 0, {"t": "list", "vs": []}),
                          (1, 0, {"t": "noiter"}), (0, 1, {"t": "noiter"}), (0, 1, {"t": "del"}),
                          (0, 1, {"t": "gen", "vs": [val()]})]:
            ops.append({"op": "sset", "o": 0, "a": _I(a), "b": _I(b), "c": NONE, "rhs": rhs})
        ops.append({"op": "sset", "o": 0, "a": NONE, "b": _I(1), "c": NONE, "rhs": {"t": "list", "vs": [val()]}})
        ops.append({"op": "sset", "o": 0, "a": _I(0), "b": _I(1 << 64), "c": NONE, "rhs": {"t": "list", "vs": [val()]}})
        for w, sign, rev in [(_I(0), 1, False), (_I(1), 1, False), (_I(1), -1, False), (_I(2), 1, True),
                             (_I(1 << 62), 1, False), (_I(1 << 63), 1, False), (NONE, 1, False), (FLOAT, -1, False),
                             (_I(-3), 1, False), (STR, 1, True)]:
            ops.append({"op": "add", "o": 0, "w": w, "sign": sign, "rev": rev})
        first_new = 1 + 4       # objects created so far: 4 accepted slices, then the accepted additions
        for a, b in [(first_new, 0), (first_new + 1, 0), (0, 0), (first_new + 1, first_new + 2), (0, first_new)] * 2:
            ops.append({"op": "sub", "a": a, "b": b})
        for i in [_I(0), _I(1), _I(-1), _I(7), _I(SS_MAX // size + 1), _I(1 << 63), NONE, FLOAT, _I(SS_MAX // size),
                  _I(-(1 << 64))]:
            ops.append({"op": "addrof", "o": 0, "i": i})
        ops += [{"op": "len", "o": 0}] * 10
        seqs.append({"ek": ek, "alloc": "own", "init": rnd_bytes(rng, size).hex(), "ops": ops})

        # ---- G. arrays that are gc-wrapper objects: ffi.gc(x, destructor) for x = ffi.new('T[]', n), a slice view,
        #         ffi.from_buffer('T[]', bytearray), a twice wrapped array, a fixed-size T[n] (control), and arrays
        #         from ffi.new_allocator(malloc, free): an array cdata of length n whatever produced it
        for alloc, pre, n_, lo in [("arrv", [{"op": "gcwrap", "o": 0, "times": 1}], 6, 0),
                                   ("arr", [{"op": "slice", "o": 0, "a": _I(2), "b": _I(6), "c": NONE},
                                            {"op": "gcwrap", "o": 1, "times": 1}], 4, 2),
                                   ("frombuf", [{"op": "gcwrap", "o": 0, "times": 1}], 6, 0),
                                   ("arrv", [{"op": "gcwrap", "o": 0, "times": 2}], 6, 0),
                                   ("arr", [{"op": "gcwrap", "o": 0, "times": 1}], 6, 0),
                                   ("allocator", [], 6, 0)]:
            total = 6 if lo == 0 else 8
            g = len(pre)                       # id of the gc-wrapper array (the allocator's array is object 0)
            if alloc == "allocator":
                g = 0
            ops = list(pre)
            ops += [{"op": "len", "o": g}, {"op": "sizeof", "o": g}]
            for i in [0, n_ - 1, n_, -1]:
                ops.append({"op": "get", "o": g, "k": _I(i)})
            for i in [0, n_ - 1]:
                ops.append({"op": "set", "o": g, "k": _I(i), "v": val()})
                ops.append({"op": "rmw", "o": g, "k": _I(i), "d": d()})
            if lo:                             # margins on both sides: a wrongly accepted store stays inside
                for i in [n_, -1]:
                    ops.append({"op": "set", "o": g, "k": _I(i), "v": val()})
                    ops.append({"op": "rmw", "o": g, "k": _I(i), "d": d()})
            ops.append({"op": "set", "o": g, "k": _I(1 << 63), "v": val()})
            ops.append({"op": "rmw", "o": g, "k": NONE, "d": 1})
            for a, b in [(0, n_), (1, n_ - 1), (n_, n_), (0, n_ + 1), (-1, 2), (2, 1)]:
                ops.append({"op": "slice", "o": g, "a": _I(a), "b": _I(b), "c": NONE})
            ops += [{"op": "sset", "o": g, "a": _I(1), "b": _I(3), "c": NONE, "rhs": {"t": "list", "vs": [val(), val()]}},
                    {"op": "sset", "o": g, "a": _I(0), "b": _I(n_), "c": NONE, "rhs": {"t": "list", "vs": [val()]}},
                    {"op": "sset", "o": g, "a": _I(0), "b": _I(n_ + 1), "c": NONE,
                     "rhs": {"t": "list", "vs": [val() for _ in range(n_ + 1)]}} if lo else
                    {"op": "sset", "o": g, "a": _I(2), "b": _I(1), "c": NONE, "rhs": {"t": "list", "vs": []}}]
            if flav != "float":                # the wrapper as the source of a slice assignment (same length / not)
                ops += [{"op": "sset", "o": 0, "a": _I(lo), "b": _I(lo + n_), "c": NONE, "rhs": {"t": "carr", "o": g}},
                        {"op": "sset", "o": 0, "a": _I(0), "b": _I(n_ - 1), "c": NONE, "rhs": {"t": "carr", "o": g}}]
            ops += [{"op": "add", "o": g, "w": _I(1), "sign": 1, "rev": False},
                    {"op": "add", "o": g, "w": _I(n_), "sign": 1, "rev": True},
                    {"op": "addrof", "o": g, "i": _I(n_ - 1)}, {"op": "addrof", "o": g, "i": _I(1 << 63)},
                    {"op": "len", "o": g}, {"op": "sizeof", "o": g}]
            seqs.append({"ek": ek, "alloc": alloc, "init": rnd_bytes(rng, total * size).hex(), "ops": ops})
            # pointer - wrapper
            k = len(ops)
            seqs[-1]["ops"] += [{"op": "sub", "a": g, "b": g}]

        # ---- B. an array with margins: 0 = T[10] (owning), 1 = its view [3:7], 2 = pointer to item 4,
        #         3 = null, 4 = non-indexable, 5 = void *, 6 = retyped pointer, 7 = view [0:4], 8 = misaligned
        setup = [{"op": "slice", "o": 0, "a": _I(3), "b": _I(7), "c": NONE},
                 {"op": "add", "o": 1, "w": _I(1), "sign": 1, "rev": False},
                 {"op": "null"}, {"op": "other"}, {"op": "voidp", "o": 1}, {"op": "retype", "o": 1},
                 {"op": "slice", "o": 0, "a": _I(0), "b": _I(4), "c": NONE},
                 {"op": "castoff", "o": 1, "k": 1}]

        def arr_seq(ops):
            seqs.append({"ek": ek, "alloc": "arr", "init": rnd_bytes(rng, 10 * size).hex(), "ops": setup + ops})

        # item access: (object, indexes that must be accepted, indexes that must be rejected but stay inside the
        # allocation / the owning object if a broken implementation accepts them, far or malformed ones)
        plan = [(0, [0, 9, 4], [-1], [10, 11, -10, -11]),
                (1, [0, 3, 1], [-1, 4, 5, -3, 6], []),
                (2, [0, -1, 1, 5, -4], [], [])]
        for oid, good, near_bad, read_only_bad in plan:
            ops = []
            for i in near_bad + read_only_bad + good:
                ops.append({"op": "get", "o": oid, "k": _I(i)})
            for i in good:
                ops.append({"op": "set", "o": oid, "k": _I(i), "v": val()})
                ops.append({"op": "rmw", "o": oid, "k": _I(i), "d": d()})
            for i in near_bad:
                ops.append({"op": "set", "o": oid, "k": _I(i), "v": val()})
                ops.append({"op": "rmw", "o": oid, "k": _I(i), "d": d()})
            for k in [_I(h) for h in HUGE] + [NONE, FLOAT, STR]:
                ops.append({"op": "get", "o": oid, "k": k})
                ops.append({"op": "set", "o": oid, "k": k, "v": val()})
                ops.append({"op": "rmw", "o": oid, "k": k, "d": 1})
            arr_seq(ops)
        # null pointer and non-indexable cdata: every access is refused
        ops = []
        for oid in (3, 4):
            for k in [_I(0), _I(1), _I(-1), _I(1 << 63), NONE, FLOAT]:
                ops.append({"op": "get", "o": oid, "k": k})
                ops.append({"op": "set", "o": oid, "k": k, "v": val()})
            for a, b, c in [(_I(1), _I(0), NONE), (NONE, _I(0), NONE), (_I(0), _I(0), _I(1)), (STR, _I(0), NONE),
                            (_I(0), _I(1 << 63), NONE)]:
                ops.append({"op": "slice", "o": oid, "a": a, "b": b, "c": c})
        ops += [{"op": "slice", "o": 4, "a": _I(0), "b": _I(1), "c": NONE},
                {"op": "sset", "o": 4, "a": _I(0), "b": _I(1), "c": NONE, "rhs": {"t": "list", "vs": [val()]}}]
        arr_seq(ops)

        # slices and slice assignment
        ops = []
        for oid, bounds in [(0, [(0, 10), (2, 5), (10, 10), (0, 11), (-1, 2), (3, 2), (11, 11), (0, 0)]),
                            (1, [(0, 4), (1, 3), (4, 4), (0, 5), (-1, 2), (2, 1), (4, 5), (-3, 6)]),
                            (2, [(-4, 6), (0, 0), (-1, 2), (2, 1), (0, 6), (5, 6), (-4, -4), (1, 1)])]:
            for a, b in bounds:
                ops.append({"op": "slice", "o": oid, "a": _I(a), "b": _I(b), "c": NONE})
            for a, b, c in [(NONE, _I(2), NONE), (_I(0), NONE, NONE), (_I(0), _I(2), _I(1)), (_I(0), _I(1 << 63), NONE),
                            (FLOAT, _I(2), NONE), (_I(0), _I(2), _I(2))]:
                ops.append({"op": "slice", "o": oid, "a": a, "b": b, "c": c})
        arr_seq(ops)
        ops = []
        two, three = [val(), val()], [val(), val(), val()]
        for oid, (a, b) in [(1, (1, 3)), (0, (4, 6)), (2, (-1, 1))]:
            ops += [{"op": "sset", "o": oid, "a": _I(a), "b": _I(b), "c": NONE, "rhs": {"t": "list", "vs": two}},
                    {"op": "sset", "o": oid, "a": _I(a), "b": _I(b), "c": NONE, "rhs": {"t": "tuple", "vs": [val()]}},
                    {"op": "sset", "o": oid, "a": _I(a), "b": _I(b), "c": NONE, "rhs": {"t": "gen", "vs": three}},
                    {"op": "sset", "o": oid, "a": _I(a), "b": _I(b), "c": NONE, "rhs": {"t": "list", "vs": []}},
                    {"op": "sset", "o": oid, "a": _I(a), "b": _I(b), "c": NONE,
                     "rhs": {"t": "list", "vs": [val(), ["s", "x"]]}},
                    {"op": "sset", "o": oid, "a": _I(a), "b": _I(b), "c": NONE, "rhs": {"t": "noiter"}},
                    {"op": "sset", "o": oid, "a": _I(a), "b": _I(b), "c": NONE, "rhs": {"t": "del"}},
                    {"op": "sset", "o": oid, "a": _I(b), "b": _I(a), "c": NONE, "rhs": {"t": "list", "vs": two}},
                    {"op": "sset", "o": oid, "a": _I(a), "b": _I(b), "c": _I(1), "rhs": {"t": "list", "vs": two}},
                    {"op": "sset", "o": oid, "a": NONE, "b": _I(b), "c": NONE, "rhs": {"t": "list", "vs": two}},
                    {"op": "sset", "o": oid, "a": _I(a), "b": _I(1 << 63), "c": NONE, "rhs": {"t": "list", "vs": two}}]
        # out of range by one: rejected, and inside the margins should it be accepted
        ops += [{"op": "sset", "o": 1, "a": _I(0), "b": _I(5), "c": NONE, "rhs": {"t": "list", "vs": [val() for _ in range(5)]}},
                {"op": "sset", "o": 1, "a": _I(-1), "b": _I(2), "c": NONE, "rhs": {"t": "list", "vs": three}},
                {"op": "sset", "o": 1, "a": _I(4), "b": _I(5), "c": NONE, "rhs": {"t": "list", "vs": [val()]}}]
        if flav != "float":
            ops += [{"op": "sset", "o": 1, "a": _I(0), "b": _I(4), "c": NONE, "rhs": {"t": "carr", "o": 7}},   # overlapping
                    {"op": "sset", "o": 1, "a": _I(0), "b": _I(3), "c": NONE, "rhs": {"t": "carr", "o": 7}},
                    {"op": "sset", "o": 7, "a": _I(0), "b": _I(4), "c": NONE, "rhs": {"t": "carr", "o": 1}},
                    {"op": "sset", "o": 0, "a": _I(2), "b": _I(6), "c": NONE, "rhs": {"t": "carr", "o": 1}}]
        if flav in ("char", "int"):
            ops += [{"op": "sset", "o": 1, "a": _I(0), "b": _I(2), "c": NONE, "rhs": {"t": "bytes", "h": "0141", "ba": False}},
                    {"op": "sset", "o": 1, "a": _I(0), "b": _I(2), "c": NONE, "rhs": {"t": "bytes", "h": "014142", "ba": True}}]
        arr_seq(ops)

        # arithmetic, addressof, len on every category
        ops = []
        for oid in (0, 1, 2, 3, 4, 5, 6):
            for w, sign, rev in [(_I(1), 1, False), (_I(2), -1, False), (_I(0), 1, True), (_I(1 << 62), 1, False),
                                 (_I(1 << 63), 1, False), (NONE, 1, False), (FLOAT, -1, False)]:
                if oid == 4 and w[0] != "i":
                    w = _I(1)
                ops.append({"op": "add", "o": oid, "w": w, "sign": sign, "rev": rev})
        arr_seq(ops)
        ops = []
        pairs = [(2, 1), (2, 0), (2, 2), (2, 6), (2, 4), (2, 8), (8, 2), (2, 7), (2, 5),
                 (1, 2), (0, 2), (1, 1), (0, 0), (1, 0), (0, 1), (1, 6), (0, 4),
                 (3, 3), (3, 4), (3, 6), (3, 5), (4, 4), (4, 2), (4, 3), (4, 1), (4, 0), (4, 5), (4, 6),
                 (5, 5), (5, 2), (5, 6), (5, 4), (6, 6), (6, 2), (6, 5), (6, 4), (6, 1)]
        for a, b in pairs:
            ops.append({"op": "sub", "a": a, "b": b})
        arr_seq(ops)
        ops = []
        for oid in (0, 1, 2, 3, 4, 5):
            for i in [_I(0), _I(1), _I(-1), _I(12), _I(SS_MAX // size + 1), _I(1 << 63), NONE, FLOAT]:
                ops.append({"op": "addrof", "o": oid, "i": i})
        for oid in (0, 1, 2, 3, 4, 5, 6):
            ops.append({"op": "len", "o": oid})
        arr_seq(ops)
    return seqs


def translators(ctx):
    """Generated/IndexExprs.lean: every condition and arithmetic expression the model uses, re-extracted from
    _cffi_backend.c (translate/c16_exprs.py)."""
    sys.path.insert(0, os.path.join(common.VERIF, "translate"))
    import c16_exprs
    return [c16_exprs.translator]


# ------------------------------------------------------------------ running

def nontrivial_key(ek, op, real):
    t = op["op"]
    if t in ("castoff", "retype", "voidp", "null", "other", "zdefine", "gcwrap"):
        return None
    args = tuple((k, repr(v)) for k, v in sorted(op.items()) if k not in ("op",))
    if real[0] == "err" or t in ("set", "sset", "slice", "addrof", "sub") or op.get("o", 0) > 1:
        return (ek, t, args, real[0] if real[0] == "ok" else real[1])
    return None


def case_of(seq, k):
    return {"seq": {"ek": seq["ek"], "alloc": seq["alloc"], "init": seq["init"], "ops": list(seq["ops"][:k])}}


def run_sequence(ctx, seq, nops, rng=None, collect=True, scripted=False):
    """Execute (and, when rng is given, extend) a sequence.  Returns (lines, expects, failed)."""
    s = Seq(seq)
    preset = list(seq["ops"])
    seq["ops"] = []
    k = 0
    failed = False
    while k < nops:
        if k < len(preset):
            op = preset[k]
        elif rng is not None:
            op = gen_op(rng, s)
        else:
            break
        k += 1
        seq["ops"].append(op)
        nobj_before = len(s.objs)
        real, orc, line, want, mutating = s.run(op)
        realmem = s.realmem()
        if mutating:
            want = ("ok " if real[0] == "ok" else "err %s " % real[1]) + (realmem.hex() or "-")
        if real[0] == "err" and real[1] not in ERRS:
            real = ("err", real[1])
        ctx.case(nontrivial_key(s.ek, op, real), sample=None)
        ctx.count("%s:%s" % (op["op"], "ok" if real[0] == "ok" else real[1]))
        ctx.count("kind:" + s.ek)
        if op["op"] in OPS_ON_OBJECTS:
            tgt = s.objs[op["a"] if op["op"] == "sub" else op["o"]]
            ctx.count("cat:%s:%s" % (op["op"], category(s, tgt)))
            if scripted:
                ctx.count("scripted:%s:%s" % (op["op"], category(s, tgt)))
        if op["op"] == "addrof" and s.objs[op["o"]].prov == "z":
            ctx.count("addrof-zero-size-item:%s" % ("ok" if real[0] == "ok" else real[1]))
        robs = real if real[0] == "err" or not mutating else ("ok", None)
        if (op["op"] in ("slice", "sset") and robs == ("err", "OverflowError") and orc == robs
                and s.objs[op["o"]].k == "arr" and op["a"][0] == "i" and op["b"][0] == "i"
                and any(f.get("class") == "C16/slice-bound-overflowerror" for f in getattr(ctx, "open_findings", ()))):
            # literal statement of the property: IndexError.  Reported only under its registered class.
            ctx.fail({"slice_bound_overflow": True, "ek": s.ek, "n": s.objs[op["o"]].n, "start": op["a"][1],
                      "stop": op["b"][1]}, "x[i:j] with a bound beyond Py_ssize_t raises OverflowError, not IndexError")
        if robs != orc:
            ctx.fail(case_of(seq, k), "operation %d %r: implementation %r, the C model says %r" % (k - 1, op, robs, orc))
            failed = True
        elif realmem != bytes(s.mem):
            ctx.fail(case_of(seq, k), "operation %d %r: memory differs from the byte model: %s vs %s"
                     % (k - 1, op, realmem.hex(), bytes(s.mem).hex()))
            failed = True
        if collect:
            s.lines.append(line)
            s.expect.append((want, (seq, k)))
        if failed:
            break
    if len(ctx.samples) < 8 and seq["ops"]:
        ctx.samples.append({"ek": seq["ek"], "alloc": seq["alloc"], "ops": seq["ops"][:6]})
    return s.lines, s.expect, failed


def correspond(ctx, nseq=None, oracle_only=False):
    nseq = nseq if nseq is not None else ctx.n(400, 20000)
    lines, expect = [], []
    zero_size_canary(ctx)
    for seq in scripted_sequences(ctx.rng):
        l, e, failed = run_sequence(ctx, seq, len(seq["ops"]), None, collect=not oracle_only, scripted=True)
        lines += l
        expect += e
        if ctx.failures:
            break
    if not ctx.failures:
        short = [(op, c, ctx.distribution.get("scripted:%s:%s" % (op, c), 0)) for op, c in REQUIRED
                 if ctx.distribution.get("scripted:%s:%s" % (op, c), 0) < MIN_CASES]
        if short:
            raise InfraError("the scripted part no longer guarantees %d cases of %r" % (MIN_CASES, short))
    for _ in range(0 if ctx.failures else nseq):
        seq = new_sequence(ctx.rng)
        nops = ctx.rng.randint(8, 40)
        l, e, failed = run_sequence(ctx, seq, nops, ctx.rng, collect=not oracle_only)
        lines += l
        expect += e
        if ctx.failures:
            break            # a broken implementation may be writing out of bounds: do not go on
    if oracle_only or not lines:
        return
    out = ctx.driver(lines)
    skip_until_new = False
    for line, o, (want, where) in zip(lines, out, expect):
        if line.startswith("new "):
            skip_until_new = False
        if skip_until_new or want is None or where is None:
            continue
        if o != want:
            ctx.disagree(case_of(*where), want, o, "model driver vs implementation at %r" % line)
            skip_until_new = True      # object numbering may be out of step from here on


def search(ctx):
    correspond(ctx, nseq=ctx.n(3000, 30000), oracle_only=True)


# ------------------------------------------------------------------ zero-sized items: canary in a child process

ZERO_CANARY = r"""
import cffi
ffi = cffi.FFI()
x = ffi.new("int[4][0]")
print(ffi.offsetof("int[][0]", 1), ffi.offsetof("int(*)[0]", -3), ffi.addressof(x, 2) == x + 2)
"""
ZERO_OK = True        # cleared when the canary fails: the in-process zero-size operations are then skipped


def zero_size_canary_fails():
    """direct_typeoffsetof once divided by the item size (SIGFPE for 'int[][0]').  The operations are exercised
    in-process in every sequence; this child-process canary turns a crash regression into a failing input
    instead of a dead harness."""
    r = subprocess.run([sys.executable, "-c", ZERO_CANARY], stdout=subprocess.PIPE, stderr=subprocess.PIPE,
                       universal_newlines=True, timeout=120, env=dict(os.environ))
    return not (r.returncode == 0 and r.stdout.strip().endswith("0 0 True")), r.returncode


def zero_size_canary(ctx):
    global ZERO_OK
    bad, rc = zero_size_canary_fails()
    ZERO_OK = not bad
    ctx.case(("zero-size-canary",), sample=None)
    ctx.count("zero-size-canary:" + ("FAILS" if bad else "ok"))
    if bad:
        ctx.fail({"zero_size_canary": True, "call": "ffi.offsetof('int[][0]', 1)"},
                 "ffi.offsetof / ffi.addressof on zero-sized items: child process exit code %d, expected offsets 0" % rc)


# ------------------------------------------------------------------ known findings

def check_witness(ctx, finding):
    if finding.get("class") == "C16/slice-bound-overflowerror":
        ffi = get_ffi()
        try:
            ffi.new("int[5]")[1:2 ** 70]
        except IndexError:
            return False
        except OverflowError:
            return True
        return True
    return None


def replay(ctx, obj):
    case = obj["case"]
    if case.get("zero_size_canary"):
        bad, rc = zero_size_canary_fails()
        print("zero-sized items in a child process:", "FAILS (exit code %d)" % rc if bad else "offsets are 0")
        return 1 if bad else 0
    if case.get("slice_bound_overflow"):
        ffi = get_ffi()
        try:
            ffi.new("int[%d]" % max(1, case.get("n") or 1))[int(case["start"]):int(case["stop"])]
            print("accepted")
            return 1
        except Exception as e:
            print("x[%s:%s] raises %s" % (case["start"], case["stop"], type(e).__name__))
            return 0 if isinstance(e, IndexError) else 1
    seq = case["seq"]

    def unjson(x):          # common.jsonable writes ints beyond 2^62 as strings
        if isinstance(x, list):
            if len(x) == 2 and x[0] in ("i", "p") and isinstance(x[1], str):
                return [x[0], int(x[1])]
            return [unjson(y) for y in x]
        if isinstance(x, dict):
            return {k: unjson(v) for k, v in x.items()}
        return x
    seq = unjson(seq)

    class Quiet:
        samples = []

        def __init__(self):
            self.fails = []

        def case(self, *a, **k):
            pass

        def count(self, *a, **k):
            pass

        def fail(self, case, detail):
            self.fails.append(detail)

    q = Quiet()
    run_sequence(q, dict(seq, ops=list(seq["ops"])), len(seq["ops"]), None, collect=False)
    for d in q.fails:
        print(d)
    print("replayed %d operations on %s: %s" % (len(seq["ops"]), seq["ek"], "FAILS" if q.fails else "holds"))
    return 1 if q.fails else 0
