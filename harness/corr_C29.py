"""C29 -- callback closures stay distinct and bound to their own function.

Theorems (lean/CffiVerif/Props/C29.lean) over the model of malloc_closure.h
(lean/CffiVerif/Model/Closures.lean): live_distinct, free_list_nodup,
free_live_disjoint, alloc_fresh, lifo_reuse, alloc_pops_head, alloc_grows,
alloc_null -- for every alloc/free history and every batch mmap may return.

Tie to the code:
  A. /repo/src/c/malloc_closure.h compiled unmodified inside csrc/closure_wrap.c
     (a private copy of the allocator), driven through ctypes by a random
     alloc/free history that crosses several more_core() growth boundaries.  The
     batch more_core pushed is read back from the real free list and is part of
     the `alloc` line; the model must then hand out the same block (addresses
     canonicalised by first appearance) at every step, and its free-list length
     must equal the real one.
  B. the public API: thousands of ffi.callback objects of three signatures,
     created / dropped / called in random order, crossing growth boundaries and
     reusing freed closures.  Oracle on the implementation (no model involved):
     every live callback has an address different from every other live one and,
     called through the cdata and from C (a gcc-compiled helper that takes the
     function pointer), runs its own Python function (returns its own tag).
     The address sequence is also replayed on the model: a block never seen
     before enters as a one-block batch, everything else must be the LIFO
     prediction.
"""
import ctypes
import json
import os
import random
import select
import signal
import sys
import time
import traceback

import common
from common import InfraError

MANIFEST = {
    "text": "Kernel-checked invariants of the closure allocator model over every alloc/free history and every mmap batch: "
            "live closures pairwise distinct, free list duplicate-free and disjoint from the live blocks, alloc pops the "
            "most recently freed block; tied to the code by driving the repo's malloc_closure.h (compiled unmodified) and "
            "thousands of real ffi.callback objects through random create/drop/call histories, where each live callback "
            "must have its own address and return its own tag when called through the cdata and from C.",
    "note": "Trusted: Lean kernel; mmap returning fresh non-overlapping regions (the batch contract of the model); libffi's "
            "ffi_prep_closure binding user_data to the block (observed by calling, not modelled); the harness. Not modelled: "
            "batch sizes (allocate_num_pages growth), PROT_EXEC/PaX, the free-threaded mutex.",
    "technique": "Lean 4 proof (invariant by induction over operation histories) + differential correspondence with the "
                 "compiled malloc_closure.h and with real ffi.callback histories, plus an independent distinctness/own-tag oracle",
}

RULE = ("part A: one long random history of cffi_closure_alloc/free on the compiled allocator in phases (grow, churn, drain, "
        "regrow), part B: the same shape of history over ffi.callback objects of 3 signatures with call operations mixed in "
        "and full sweeps at the peaks; one case = one operation; non-trivial = an alloc that reuses a freed block or triggers "
        "more_core, or a call of a callback living in a reused block; distinct = distinct (part, operation index)")
ASSUMPTIONS = ["mmap returns regions disjoint from every earlier one (nothing is ever unmapped)",
               "callback objects are freed at the moment their last reference is dropped (no reference cycles in the harness)"]

CLASSES = {}


# ---------------------------------------------------------------- part A

def load_wrapper(ctx):
    so = os.path.join(ctx.scratch, "closure_wrap.so")
    if not os.path.exists(so):
        common.compile_shared(os.path.join(common.VERIF, "csrc/closure_wrap.c"), so,
                              extra=["-I" + os.path.join(common.REPO, "src/c"), "-I" + common.py_include(), "-lffi"])
    lib = ctypes.PyDLL(so)
    lib.verif_closure_alloc.restype = ctypes.c_void_p
    lib.verif_closure_alloc.argtypes = []
    lib.verif_closure_free.restype = None
    lib.verif_closure_free.argtypes = [ctypes.c_void_p]
    lib.verif_free_list_len.restype = ctypes.c_long
    lib.verif_free_list_len.argtypes = [ctypes.c_long]
    lib.verif_free_list_dump.restype = ctypes.c_long
    lib.verif_free_list_dump.argtypes = [ctypes.POINTER(ctypes.c_void_p), ctypes.c_long]
    lib.verif_block_size.restype = ctypes.c_long
    return lib


class Canon:
    """addresses -> small integers in order of first appearance"""
    def __init__(self):
        self.ids = {}

    def __call__(self, a):
        i = self.ids.get(a)
        if i is None:
            i = self.ids[a] = len(self.ids)
        return i


def gen_phases(rng, total, peak):
    """Yield 'a' (alloc) / 'f' (free) / 's' (state check) decisions lazily: the caller tells how many are live."""
    phases = []
    left = total
    while left > 0:
        kind = rng.choice(["grow", "churn", "drain", "lifo", "churn"])
        n = min(left, rng.randint(total // 40 + 1, total // 8 + 2))
        phases.append((kind, n))
        left -= n
    return phases


P_ALLOC = {"grow": 0.85, "churn": 0.5, "drain": 0.12, "lifo": 0.5}
BOUND = 10 ** 7


def part_a(ctx, nops, rng=None, oracle_only=False, stop_at=None):
    rng = rng or ctx.rng
    lib = load_wrapper(ctx)
    canon = Canon()
    live = []                      # addresses, in allocation order
    liveset = set()
    freed_once = set()
    lines, expect = [], []
    dumpbuf_n = 0
    dumpbuf = None
    # this private allocator starts empty only the first time the wrapper is loaded in the process
    if lib.verif_free_list_len(BOUND) != 0 or getattr(part_a, "used", False):
        raise InfraError("closure_wrap allocator is not in its initial state")
    part_a.used = True
    peak = 0
    idx = 0
    base_case = {"part": "A", "rng": rng_tag(rng), "nops": nops}
    for kind, n in gen_phases(rng, nops, 0):
        burst = 0
        for _ in range(n):
            if stop_at is not None and idx > stop_at:
                break
            if kind == "lifo" and burst > 0:
                do_alloc = True
                burst -= 1
            elif kind == "lifo" and live and rng.random() < 0.3:
                # free k blocks then allocate k: the allocations must come back in reverse order
                burst = rng.randint(1, min(6, len(live)))
                for _ in range(burst):
                    idx = _free_a(ctx, lib, rng, canon, live, liveset, freed_once, lines, expect, idx, base_case)
                continue
            else:
                do_alloc = (not live) or rng.random() < P_ALLOC[kind]
            if do_alloc:
                before = lib.verif_free_list_len(BOUND)
                p = lib.verif_closure_alloc()
                case = dict(base_case, op="alloc", index=idx)
                if p is None:
                    raise InfraError("cffi_closure_alloc returned NULL (mmap failed?)")
                batch = []
                if before == 0:
                    after = lib.verif_free_list_len(BOUND)
                    if after + 1 > dumpbuf_n:
                        dumpbuf_n = 2 * (after + 1)
                        dumpbuf = (ctypes.c_void_p * dumpbuf_n)()
                    k = lib.verif_free_list_dump(dumpbuf, dumpbuf_n)
                    rest = [dumpbuf[i] for i in range(k)]       # head first = last pushed first
                    batch = list(reversed(rest)) + [p]          # push order
                    ctx.count("A:alloc-more_core")
                    ctx.count("A:blocks-mapped", len(batch))
                    # oracle: what more_core put on the list must not contain a live block or a duplicate
                    if len(set(batch)) != len(batch) or liveset.intersection(batch):
                        ctx.fail(case, "more_core put a live or duplicated block on the free list")
                else:
                    ctx.count("A:alloc-reuse")
                ctx.case(("A", idx) if (before == 0 or p in freed_once) else None, sample=case if idx < 3 else None)
                # property oracle: the new closure's address differs from every live one
                if p in liveset:
                    ctx.fail(case, "cffi_closure_alloc handed out a block that is still live")
                live.append(p)
                liveset.add(p)
                peak = max(peak, len(live))
                lines.append("alloc" + "".join(" %d" % canon(b) for b in batch))
                expect.append((case, "ok %d" % canon(p)))
                idx += 1
            else:
                idx = _free_a(ctx, lib, rng, canon, live, liveset, freed_once, lines, expect, idx, base_case)
            if idx % 997 == 0:
                flen = lib.verif_free_list_len(BOUND)
                lines.append("state")
                expect.append((dict(base_case, op="state", index=idx), "ok %d %d" % (flen, len(live))))
    # final cross-check of the whole free list against the live set (oracle) and the model (length)
    flen = lib.verif_free_list_len(BOUND)
    buf = (ctypes.c_void_p * (flen + 1))()
    k = lib.verif_free_list_dump(buf, flen + 1)
    fl = [buf[i] for i in range(k)]
    case = dict(base_case, op="final", index=idx)
    if len(set(fl)) != len(fl):
        ctx.fail(case, "the free list contains a block twice")
    if liveset.intersection(fl):
        ctx.fail(case, "a live block is on the free list")
    lines.append("state")
    expect.append((case, "ok %d %d" % (flen, len(live))))
    ctx.coverage["A_peak_live"] = peak
    ctx.coverage["A_ops"] = idx
    if oracle_only:
        return
    out = ctx.driver(lines)
    for o, (case, want) in zip(out, expect):
        if o != want:
            ctx.disagree(case, want, o, "malloc_closure.h vs model")
            if len(ctx.disagreements) > 20:
                break


def _free_a(ctx, lib, rng, canon, live, liveset, freed_once, lines, expect, idx, base_case):
    if not live:
        return idx
    # mostly recent blocks (LIFO-ish use), sometimes any
    if rng.random() < 0.5:
        i = len(live) - 1 - min(len(live) - 1, int(rng.expovariate(0.5)))
    else:
        i = rng.randrange(len(live))
    p = live.pop(i)
    liveset.discard(p)
    freed_once.add(p)
    lib.verif_closure_free(p)
    ctx.case(None)
    ctx.count("A:free")
    lines.append("free %d" % canon(p))
    expect.append((dict(base_case, op="free", index=idx), "ok freed"))
    return idx + 1


def rng_tag(rng):
    return getattr(rng, "verif_tag", None)


# ---------------------------------------------------------------- part B

HELPER_C = r"""
int call_i(int (*f)(int), int x) { return f(x); }
long long call_ll(long long (*f)(long long, long long), long long a, long long b) { return f(a, b); }
double call_d(double (*f)(double), double x) { return f(x); }
/* call two different callbacks in one C frame: they must not be confused */
int call_pair(int (*f)(int), int (*g)(int), int x) { return f(x) * 3 + g(x) * 5; }
"""
HELPER_CDEF = """
int call_i(int (*f)(int), int x);
long long call_ll(long long (*f)(long long, long long), long long a, long long b);
double call_d(double (*f)(double), double x);
int call_pair(int (*f)(int), int (*g)(int), int x);
"""
SIGS = ["int(*)(int)", "long long(*)(long long, long long)", "double(*)(double)"]


def make_pyfunc(sig, tag):
    if sig == 0:
        return lambda x: x + tag
    if sig == 1:
        return lambda a, b: a * 1000003 + b + tag
    return lambda x: x + float(tag)


def expected(sig, tag, args):
    if sig == 0:
        return args[0] + tag
    if sig == 1:
        return args[0] * 1000003 + args[1] + tag
    return float(args[0]) + float(tag)


class ApiWorld:
    def __init__(self, ctx):
        import cffi
        self.ffi = cffi.FFI()
        self.ffi.cdef(HELPER_CDEF)
        c = os.path.join(ctx.scratch, "c29_helper.c")
        so = os.path.join(ctx.scratch, "c29_helper.so")
        if not os.path.exists(so):
            with open(c, "w") as f:
                f.write(HELPER_C)
            common.compile_shared(c, so)
        self.lib = self.ffi.dlopen(so)
        self.callers = [self.lib.call_i, self.lib.call_ll, self.lib.call_d]

    def addr(self, cb):
        return int(self.ffi.cast("intptr_t", cb))

    def call(self, how, sig, cb, args):
        if how == "cdata":
            return cb(*args)
        if how == "C":
            return self.callers[sig](cb, *args)
        # through a cast to a plain function pointer cdata of the same type
        return self.ffi.cast(SIGS[sig], cb)(*args)


def part_b(ctx, ncreate, peak_target, rng=None, oracle_only=False, stop_at=None, progress=lambda i: None):
    """Runs in a forked child (see forked_part_b): returns (lines, expect) for the model comparison."""
    rng = rng or ctx.rng
    w = ApiWorld(ctx)
    ffi = w.ffi
    canon = Canon()
    live = []                 # entries: [cb, addr, sig, tag, reused]
    addr_live = {}            # addr -> tag
    everseen = set()
    model_free = 0            # length of the model's free list (blocks freed and not yet handed out again)
    lines, expect = [], []
    idx = 0
    created = 0
    next_tag = 1
    peak = 0
    base_case = {"part": "B", "rng": rng_tag(rng), "ncreate": ncreate, "peak_target": peak_target}

    def check_call(ent, how, idx):
        cb, a, sig, tag, reused = ent
        args = [rng.randint(-1000, 1000)] if sig != 1 else [rng.randint(-10 ** 6, 10 ** 6), rng.randint(-99, 99)]
        case = dict(base_case, op="call", how=how, index=idx, sig=SIGS[sig], tag=tag, args=args)
        got = w.call(how, sig, cb, args)
        want = expected(sig, tag, args)
        ctx.case(("B", idx) if reused else None, sample=case if idx % 1500 == 7 else None)
        ctx.count("B:call-%s" % how)
        if got != want:
            ctx.fail(case, "callback with tag %d returned %r, its own function returns %r" % (tag, got, want))

    def create(idx):
        nonlocal next_tag, model_free, peak, created
        sig = rng.randrange(3)
        tag = next_tag
        next_tag += 1
        cb = ffi.callback(SIGS[sig], make_pyfunc(sig, tag))
        a = w.addr(cb)
        case = dict(base_case, op="create", index=idx, sig=SIGS[sig], tag=tag)
        reused = a in everseen
        # property oracle: distinct from every live callback
        if a in addr_live:
            ctx.fail(case, "new callback has the address of the live callback with tag %d" % addr_live[a])
        if model_free > 0:
            lines.append("alloc")
            model_free -= 1
            ctx.count("B:create-reuse")
        else:
            lines.append("alloc %d" % canon(a))
            ctx.count("B:create-fresh-block")
        expect.append((case, "ok %d" % canon(a)))
        ctx.case(("B", idx) if reused else None, sample=case if idx < 2 else None)
        everseen.add(a)
        addr_live[a] = tag
        ent = [cb, a, sig, tag, reused]
        live.append(ent)
        peak = max(peak, len(live))
        created += 1
        return ent

    def drop(idx):
        nonlocal model_free
        if rng.random() < 0.5:
            i = len(live) - 1 - min(len(live) - 1, int(rng.expovariate(0.3)))
        else:
            i = rng.randrange(len(live))
        ent = live.pop(i)
        a = ent[1]
        del addr_live[a]
        ent[0] = None            # last reference: cdataowninggc_dealloc -> cffi_closure_free
        del ent
        model_free += 1
        ctx.case(None)
        ctx.count("B:drop")
        lines.append("free %d" % canon(a))
        expect.append((dict(base_case, op="drop", index=idx), "ok freed"))

    def sweep(idx):
        """every live callback: distinct address, own tag through the cdata and from C"""
        addrs = [w.addr(e[0]) for e in live]
        case = dict(base_case, op="sweep", index=idx, live=len(live))
        if len(set(addrs)) != len(addrs):
            ctx.fail(case, "two live callbacks share an address")
        if addrs != [e[1] for e in live]:
            ctx.fail(case, "the address of a live callback changed")
        for e in live:
            check_call(e, "cdata", idx)
            check_call(e, "C", idx)
        ctx.count("B:sweep")
        ctx.count("B:sweep-callbacks", len(live))

    # phases: climb to the peak (crossing growth boundaries), churn with reuse, drain, climb again
    plan = [("grow", peak_target), ("sweep", 0), ("churn", ncreate // 3), ("drain", peak_target // 3),
            ("sweep", 0), ("grow", peak_target), ("churn", ncreate // 3), ("sweep", 0), ("drain", 5), ("churn", ncreate // 4)]
    for kind, arg in plan:
        if stop_at is not None and idx > stop_at:
            break
        if kind == "sweep":
            sweep(idx)
            continue
        steps = 0
        while True:
            if stop_at is not None and idx > stop_at:
                break
            if kind == "grow":
                if len(live) >= arg or created >= ncreate:
                    break
                p_create = 0.9
            elif kind == "drain":
                if len(live) <= arg:
                    break
                p_create = 0.1
            else:
                if steps >= arg or created >= ncreate:
                    break
                p_create = 0.5
            steps += 1
            r = rng.random()
            if not live or r < p_create * 0.8:
                ent = create(idx)
                if rng.random() < 0.3:
                    check_call(ent, rng.choice(["cdata", "C", "cast"]), idx)
            elif r < 0.8:
                drop(idx)
            else:
                ent = rng.choice(live)
                check_call(ent, rng.choice(["cdata", "C", "cast"]), idx)
                if len(live) >= 2 and rng.random() < 0.2:
                    cands = [live[rng.randrange(len(live))] for _ in range(8)]
                    cands = list({id(e): e for e in cands if e[2] == 0}.values())
                    if len(cands) >= 2:
                        e1, e2 = rng.sample(cands, 2)
                        x = rng.randint(-50, 50)
                        got = w.lib.call_pair(e1[0], e2[0], x)
                        want = (x + e1[3]) * 3 + (x + e2[3]) * 5
                        ctx.count("B:call-pair")
                        if got != want:
                            ctx.fail(dict(base_case, op="call_pair", index=idx, tags=[e1[3], e2[3]], x=x),
                                     "two callbacks called from one C frame: got %r, want %r" % (got, want))
            idx += 1
            progress(idx)
    sweep(idx)
    ctx.coverage["B_peak_live"] = peak
    ctx.coverage["B_created"] = created
    ctx.coverage["B_distinct_blocks"] = len(everseen)
    # let go of everything in a fixed order
    while live:
        live.pop()[0] = None
    return lines, expect


CHILD_TIMEOUT = 1500


def forked_part_b(ctx, ncreate, peak_target, rng, oracle_only=False, stop_at=None):
    """Part B creates, frees and *executes* closures of the backend under test; if the allocator or the callback
    code is broken that can kill the process.  So it runs in a forked child which streams progress markers and
    failures to the parent; dying from a signal is itself reported as a failure of the property at that operation."""
    r, w = os.pipe()
    sys.stdout.flush()
    sys.stderr.flush()
    base_case = {"part": "B", "rng": rng_tag(rng), "ncreate": ncreate, "peak_target": peak_target}
    pid = os.fork()
    if pid == 0:
        code = 0
        try:
            os.close(r)
            devnull = os.open(os.devnull, os.O_WRONLY)
            os.dup2(devnull, 1)

            def send(prefix, obj):
                data = (prefix + json.dumps(common.jsonable(obj)) + "\n").encode()
                while data:
                    n = os.write(w, data)
                    data = data[n:]
            orig_fail = ctx.fail

            def fail(case, detail, cls_hint=None):
                send("!", {"case": case, "detail": detail})
                return orig_fail(case, detail, cls_hint)
            ctx.fail = fail
            n_eval, n_fail = ctx.evaluations, len(ctx.failures)
            lines, expect = part_b(ctx, ncreate, peak_target, rng=rng, oracle_only=oracle_only, stop_at=stop_at,
                                   progress=lambda i: os.write(w, b"@%d\n" % i))
            send("=", {"evaluations": ctx.evaluations - n_eval,
                       "distinct": [list(k) for k in ctx._distinct if k[0] == "B"],
                       "samples": ctx.samples, "distribution": ctx.distribution, "coverage": ctx.coverage,
                       "lines": lines, "expect": expect})
        except InfraError as e:
            os.write(w, ("?" + json.dumps(str(e)) + "\n").encode())
            code = 2
        except BaseException:
            os.write(w, ("?" + json.dumps(traceback.format_exc()[-2000:]) + "\n").encode())
            code = 3
        finally:
            os._exit(code)
    os.close(w)
    chunks = []
    deadline = time.time() + CHILD_TIMEOUT
    while True:
        left = deadline - time.time()
        if left <= 0:
            os.kill(pid, signal.SIGKILL)
            os.waitpid(pid, 0)
            os.close(r)
            raise InfraError("forked callback history did not finish within %d s" % CHILD_TIMEOUT)
        ready, _, _ = select.select([r], [], [], left)
        if not ready:
            continue
        chunk = os.read(r, 1 << 20)
        if not chunk:
            break
        chunks.append(chunk)
    os.close(r)
    _, status = os.waitpid(pid, 0)
    last, result, early = -1, None, []
    for line in b"".join(chunks).decode().split("\n"):
        if not line:
            continue
        try:
            if line[0] == "@":
                last = int(line[1:])
            elif line[0] == "!":
                early.append(json.loads(line[1:]))
            elif line[0] == "=":
                result = json.loads(line[1:])
            elif line[0] == "?":
                raise InfraError("forked callback history failed: " + json.loads(line[1:]))
        except ValueError:
            pass              # a line cut short by the child's death
    for f in early:
        ctx.fail(f["case"], f["detail"])
    if os.WIFSIGNALED(status):
        sig = os.WTERMSIG(status)
        ctx.count("B:child-died-signal-%d" % sig)
        ctx.case(("B", "died", last))
        ctx.fail(dict(base_case, op="died", index=last + 1, signal=sig),
                 "the process died from signal %d in the create/drop/call history right after operation %d: a callback "
                 "did not run its own function (its closure was corrupted or shared)" % (sig, last))
        return
    if result is None:
        raise InfraError("forked callback history exited with status %r without a result" % (status,))
    ctx.evaluations += result["evaluations"]
    ctx._distinct.update(tuple(k) for k in result["distinct"])
    ctx.samples = result["samples"]
    ctx.distribution = result["distribution"]
    ctx.coverage.update(result["coverage"])
    if oracle_only:
        return
    lines, expect = result["lines"], result["expect"]
    out = ctx.driver(["reset"] + lines)[1:]
    for o, (case, want) in zip(out, expect):
        if o != want:
            ctx.disagree(case, want, o, "ffi.callback address sequence vs model (LIFO free list)")
            if len(ctx.disagreements) > 20:
                break


# ---------------------------------------------------------------- entry points

def translators(ctx):
    """Generated/ClosureSteps.lean: statement lists of cffi_closure_alloc / cffi_closure_free / more_core's loop, re-extracted from the working tree."""
    sys.path.insert(0, os.path.join(common.VERIF, "translate"))
    import c29_steps
    return [c29_steps.run]



def tagged_rng(tag):
    r = random.Random(tag)
    r.verif_tag = tag
    return r


def correspond(ctx):
    sys.path.insert(0, ctx.scratch)
    part_a(ctx, ctx.n(30000, 400000), rng=tagged_rng("C29/A/%d/%s" % (ctx.seed, ctx.tier)))
    forked_part_b(ctx, ctx.n(9000, 120000), ctx.n(3000, 20000), tagged_rng("C29/B/%d/%s" % (ctx.seed, ctx.tier)))


def search(ctx):
    forked_part_b(ctx, ctx.n(40000, 400000), ctx.n(6000, 30000), tagged_rng("C29/Bsearch/%d/%s" % (ctx.seed, ctx.tier)),
                  oracle_only=True)


def replay(ctx, obj):
    case = obj["case"]
    n0 = len(ctx.failures)
    if case.get("part") == "A":
        part_a(ctx, case["nops"], rng=tagged_rng(case["rng"]), oracle_only=True, stop_at=case.get("index"))
    else:
        forked_part_b(ctx, case["ncreate"], case["peak_target"], tagged_rng(case["rng"]), oracle_only=True,
                      stop_at=case.get("index"))
    for f in ctx.failures[n0:]:
        print("fails:", f["detail"], f["case"])
    if len(ctx.failures) == n0:
        print("no failure when replaying the history up to operation %s" % case.get("index"))
    return 1 if len(ctx.failures) > n0 else 0
