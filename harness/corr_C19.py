"""C19 -- buffers, from_buffer and memmove match a byte-array model.

Theorems (lean/CffiVerif/Props/C19.lean) over the model in Model/Buffer.lean
(minibuffer.h, CPython's PySlice_Unpack/PySlice_AdjustIndices, b_buffer_new,
direct_from_buffer, b_memmove) and Model/Mem.lean (memmove as a byte loop).

Tie to the code: random operation sequences over four pieces of memory -- a bytearray, an
array.array('H'), a cdata char[] and a bytes object -- laid out one after the other in one
flat oracle bytearray.  ffi.buffer views (reached through cdata pointers, also through
ffi.from_buffer over the Python objects) are read, indexed, sliced and assigned with arbitrary
keys; from_buffer is applied to fresh objects of all sizes; memmove copies between any two of
the objects / views, overlapping ones included.  After every step the outcome (bytes or
exception type) and all bytes of the four objects are compared
  * with Python's own bytearray applied to the same key (the property's statement), and
  * with the Lean model through Drivers/C19.lean.
"""
import array
import struct
import sys

import common
from common import InfraError

MANIFEST = {
    "text": "Kernel-checked theorems over a model of cffi's buffer object: for every buffer size below 2^63 and every "
            "start/stop of any magnitude (negative, out of range, beyond 2^63, None) slicing through "
            "PySlice_Unpack/AdjustIndices and the clamps of mb_slice returns exactly Python's bytearray slice "
            "(List.take/drop with the documented normalisation); slice assignment of the same length equals the "
            "bytearray assignment and any other length is a ValueError that changes nothing; a cdata array on the right "
            "behaves exactly like a bytes object holding its length*itemsize bytes and a pointer cdata is a ValueError; "
            "indexing/assigning with "
            "negative indexes equals bytearray indexing; from_buffer('T[]') has len//sizeof(T) items (the largest "
            "count that fits), a fixed T[n] is rejected exactly when the object is smaller than n*sizeof(T); memmove, "
            "modelled as libc's direction-choosing byte loop, equals a copy through a temporary for every overlap. "
            "The model is tied to the code by random operation sequences over bytearray / array.array / cdata / bytes "
            "memory compared byte for byte with Python's bytearray and with the Lean driver after every step.",
    "note": "Trusted: Lean kernel; the harness; CPython's bytearray as the oracle; libc memmove/memcpy are modelled, not "
            "verified (mb_ass_slice's memcpy is given memmove semantics and only exercised with non-overlapping "
            "sources). memmove does no bounds checking in cffi: only in-bounds sizes are exercised.",
    "technique": "Lean 4 proof (linear integer arithmetic over the slice-index normalisation; induction over the byte loops "
                 "of memmove with position-wise list reasoning) + differential correspondence of random operation "
                 "sequences against the compiled backend and CPython's bytearray",
}

RULE = ("a sequence = four memory objects (bytearray, array.array('H'), cdata char[], bytes) of 8..28 bytes each and <= 40 "
        "operations: ffi.buffer(p, n) views at random offsets read/indexed/sliced/assigned with keys that are in range, "
        "negative, out of range, beyond 2^63, None, non-int, with steps 1/2/0/-1; right-hand sides of equal and of "
        "different length, bytes/bytearray/array/memoryview/non-buffers, cdata arrays of matching and non-matching byte "
        "size (fresh ones and slice views of the objects; also gc-wrapper arrays from ffi.gc(x, f) over ffi.new('T[]'), "
        "slice views, from_buffer arrays, twice wrapped, fixed-size, and ffi.new_allocator arrays -- scripted in every "
        "run for ffi.buffer(g), slice-assignment sources and memmove operands), pointer and primitive cdata; from_buffer of 8 ctypes over fresh objects of "
        "every size 0..40 incl. read-only, non-contiguous, str; fixed T[n] at n*size = len-1, len, len+1; memmove "
        "between cdata/bytearray/array/bytes/memoryview operands of the same or different objects with any overlap, "
        "n negative/huge/non-int; a case (= one operation) is non-trivial when a key is negative/out of range/huge, the "
        "operation is rejected, or source and destination overlap; distinct = distinct (operation, arguments, outcome)")
ASSUMPTIONS = ["glibc memmove copies correctly for overlapping operands; glibc memcpy for non-overlapping ones",
               "sizes passed to memmove stay inside both objects (cffi does not check them)"]

CLASSES = {}

SS_MIN, SS_MAX = -(1 << 63), (1 << 63) - 1
CDEF = "struct c19s { short a; char b[3]; }; void *malloc(size_t); void free(void *);"
FB_TYPES = [("char[]", 1), ("unsigned char[]", 1), ("short[]", 2), ("int[]", 4), ("long[]", 8), ("struct c19s[]", 6),
            ("double[]", 8), ("int[][0]", 0)]

_ffi = None


def get_ffi():
    global _ffi
    if _ffi is None:
        import cffi
        _ffi = cffi.FFI()
        _ffi.cdef(CDEF)
    return _ffi


_allocator = None


def get_allocator():
    global _allocator
    if _allocator is None:
        ffi = get_ffi()
        libc = ffi.dlopen(None)
        _allocator = (ffi.new_allocator(libc.malloc, libc.free, should_clear_after_alloc=True), libc)
    return _allocator[0]


def _destructor(x):
    pass


GC_ITEM = {"char": 1, "short": 2, "int": 4}


def mkarg(spec):
    if spec[0] == "i":
        return spec[1]
    if spec[0] == "n":
        return None
    return 1.5 if spec[1] == "float" else "1"


def arg_line(spec):
    return str(spec[1]) if spec[0] == "i" else ("none" if spec[0] == "n" else "other")


def hx(b):
    return bytes(b).hex() or "-"


def mv_bytes(obj):
    """memoryview of obj's bytes (a zero-length view cannot be cast)."""
    m = memoryview(obj)
    return m.cast("B") if m.nbytes else memoryview(b"" if isinstance(obj, bytes) else bytearray())


class World:
    REGIONS = ("ba", "aa", "cd", "bs")

    def __init__(self, seq):
        ffi = self.ffi = get_ffi()
        init = bytes.fromhex(seq["init"])
        la, lb, lc, ld = seq["lens"]
        assert la + lb + lc + ld == len(init) and lb % 2 == 0
        self.flat = bytearray(init)
        self.ba = bytearray(init[:la])
        self.aa = array.array("H")
        self.aa.frombytes(init[la:la + lb])
        assert lc >= 1
        self.cd = ffi.new("char[]", lc)
        self.lc = lc
        ffi.buffer(self.cd)[:] = init[la + lb:la + lb + lc]
        self.bs = bytes(init[la + lb + lc:])
        self.base = {"ba": 0, "aa": la, "cd": la + lb, "bs": la + lb + lc}
        self.len = {"ba": la, "aa": lb, "cd": lc, "bs": ld}
        self.pyobj = {"ba": self.ba, "aa": self.aa, "bs": self.bs}
        # cdata aliases of the Python objects' memory (kept alive for the whole sequence)
        self.alias = {"cd": self.cd}
        for r in ("ba", "aa", "bs"):
            self.alias[r] = ffi.from_buffer("char[]", self.pyobj[r])
        self.lines = ["new " + hx(init)]
        self.expect = [("ok", None)]

    def realflat(self):
        return bytes(self.ba) + self.aa.tobytes() + bytes(self.ffi.buffer(self.cd, self.lc)) + self.bs

    def ptr(self, r, off):
        return self.ffi.cast("char *", self.alias[r]) + off

    def buf(self, r, off, n):
        return self.ffi.buffer(self.ptr(r, off), n)

    def gcarray(self, g):
        """An array cdata that is a gc-wrapper object: (cdata, flat position or None, item size, its bytes).
        v = gc / gc2 : ffi.gc(cd, f) once / twice, cd = the char[] of region 'cd'
            gcview   : ffi.gc(x[off:off+len], f), x the cdata over region r
            gcfb     : ffi.gc(ffi.from_buffer('T[]', bytearray), f)  (region 'ba')
            gcfixed  : ffi.gc(ffi.new('char[k]'), f)                 (fresh, the control)
            gcnew    : ffi.gc(ffi.new('T[]', k), f)                  (fresh)
            alloc    : ffi.new_allocator(malloc, free)('T[]', k)     (fresh)"""
        ffi, v = self.ffi, g["v"]
        if v in ("gc", "gc2"):
            cd = ffi.gc(self.cd, _destructor)
            if v == "gc2":
                cd = ffi.gc(cd, _destructor)
            p, n = self.base["cd"], self.lc
            return cd, p, 1, bytes(self.flat[p:p + n])
        if v == "gcview":
            cd = ffi.gc(self.alias[g["r"]][g["off"]:g["off"] + g["len"]], _destructor)
            p = self.base[g["r"]] + g["off"]
            return cd, p, 1, bytes(self.flat[p:p + g["len"]])
        if v == "gcfb":
            isz = GC_ITEM[g["T"]]
            cd = ffi.gc(ffi.from_buffer(g["T"] + "[]", self.ba), _destructor)
            n = self.len["ba"] // isz * isz
            return cd, self.base["ba"], isz, bytes(self.flat[self.base["ba"]:self.base["ba"] + n])
        raw = bytes.fromhex(g["h"])
        isz = GC_ITEM[g["T"]]
        assert len(raw) % isz == 0
        if v == "gcfixed":
            cd = ffi.gc(ffi.new("%s[%d]" % (g["T"], len(raw) // isz)), _destructor)
        elif v == "gcnew":
            cd = ffi.gc(ffi.new(g["T"] + "[]", len(raw) // isz), _destructor)
        else:
            cd = get_allocator()(g["T"] + "[]", len(raw) // isz)
        if raw:
            ffi.buffer(ffi.cast("char *", cd), len(raw))[:] = raw
        return cd, None, isz, raw

    def _exc(self, fn):
        try:
            return ("ok", fn())
        except Exception as e:                    # noqa: the type is the observation
            return ("err", type(e).__name__)

    def run(self, op):
        return getattr(self, "op_" + op["op"])(op)

    # ---- ffi.buffer views
    def op_getitem(self, op):
        pos = self.base[op["r"]] + op["off"]
        n, key = op["n"], op["k"]
        ref = bytearray(self.flat[pos:pos + n])
        orc = self._exc(lambda: bytes([ref[mkarg(key)]]))
        b = self.buf(op["r"], op["off"], n)
        r = self._exc(lambda: b[mkarg(key)])
        if r[0] == "ok":
            r = ("ok", bytes(r[1]) if isinstance(r[1], bytes) else repr(r[1]))
        want = "ok " + hx(r[1]) if r[0] == "ok" and isinstance(r[1], bytes) else "err %s" % (r[1],)
        return r, orc, "getitem %d %d %s" % (pos, n, arg_line(key)), want, False

    def op_setitem(self, op):
        pos = self.base[op["r"]] + op["off"]
        n, key, vs = op["n"], op["k"], op["v"]
        val = {"b": lambda: bytes.fromhex(vs[1]), "ba": lambda: bytearray.fromhex(vs[1]),
               "i": lambda: vs[1], "s": lambda: vs[1]}[vs[0]]()
        ref = bytearray(self.flat[pos:pos + n])
        orc = self._exc(lambda: ref[mkarg(key)])          # index validation as a bytearray does it
        good = isinstance(val, bytes) and len(val) == 1
        if orc[0] == "ok":
            if not good:
                orc = ("err", "TypeError")
            else:
                ref[mkarg(key)] = val[0]
                self.flat[pos:pos + n] = ref
                orc = ("ok", None)
        b = self.buf(op["r"], op["off"], n)
        r = self._exc(lambda: b.__setitem__(mkarg(key), val))
        vline = "b:" + val.hex() if good else "other"
        return r, orc, "setitem %d %d %s %s" % (pos, n, arg_line(key), vline), None, True

    def _slice_oracle(self, ref, a, b, c):
        """Python's bytearray applied to the same slice; cffi's buffer supports step 1 only."""
        sl = slice(mkarg(a), mkarg(b), mkarg(c))
        cur = self._exc(lambda: bytes(ref[sl]))
        if cur[0] == "err":
            return cur, sl
        if c[0] != "n" and mkarg(c) != 1:
            return ("err", "TypeError"), sl
        return cur, sl

    def op_getslice(self, op):
        pos = self.base[op["r"]] + op["off"]
        n, a, b, c = op["n"], op["a"], op["b"], op["c"]
        ref = bytearray(self.flat[pos:pos + n])
        orc, sl = self._slice_oracle(ref, a, b, c)
        bf = self.buf(op["r"], op["off"], n)
        r = self._exc(lambda: bf[sl])
        if r[0] == "ok":
            r = ("ok", bytes(r[1]) if isinstance(r[1], bytes) else repr(r[1]))
        want = "ok " + hx(r[1]) if r[0] == "ok" and isinstance(r[1], bytes) else "err %s" % (r[1],)
        line = "getslice %d %d %s %s %s" % (pos, n, arg_line(a), arg_line(b), arg_line(c))
        return r, orc, line, want, False

    def _src(self, src):
        """(python object, its bytes or None when it has no buffer interface, model description)"""
        t = src["t"]
        if t == "bytes":
            raw = bytes.fromhex(src["h"])
            return raw, raw, "bytes:" + hx(raw)
        if t == "bytearray":
            raw = bytes.fromhex(src["h"])
            return bytearray(raw), raw, "bytes:" + hx(raw)
        if t == "array":
            raw = bytes.fromhex(src["h"])
            a = array.array("H")
            a.frombytes(raw)
            return a, raw, "bytes:" + hx(raw)
        if t == "mv":
            p = self.base[src["r"]] + src["off"]
            obj = mv_bytes(self.pyobj[src["r"]])[src["off"]:src["off"] + src["len"]]
            return obj, bytes(self.flat[p:p + src["len"]]), "view:%d:%d" % (p, src["len"])
        if t == "buf":      # another ffi.buffer as the source
            p = self.base[src["r"]] + src["off"]
            return self.buf(src["r"], src["off"], src["len"]), bytes(self.flat[p:p + src["len"]]), \
                "view:%d:%d" % (p, src["len"])
        if t == "carr":     # a fresh cdata array (outside the four objects): its bytes are the source
            raw = bytes.fromhex(src["h"])
            isz = {"char": 1, "short": 2, "int": 4, "struct c19s": 6}[src["T"]]
            assert len(raw) % isz == 0
            c = self.ffi.new("%s[]" % src["T"], len(raw) // isz)
            self.ffi.buffer(c)[:] = raw
            return c, raw, "carr:%d:%d:ext:%s" % (len(raw) // isz, isz, hx(raw))
        if t == "carrview":  # a cdata array that is a slice view of one of the objects
            p = self.base[src["r"]] + src["off"]
            c = self.alias[src["r"]][src["off"]:src["off"] + src["len"]]
            return c, bytes(self.flat[p:p + src["len"]]), "carr:%d:1:at:%d" % (src["len"], p)
        if t == "gcarr":     # a gc-wrapper array: an array cdata of the same length as what it wraps
            cd, p, isz, raw = self.gcarray(src["g"])
            where = "ext:%s" % hx(raw) if p is None else "at:%d" % p
            return cd, raw, "carr:%d:%d:%s" % (len(raw) // isz, isz, where)
        if t == "cptr":      # a pointer cdata has no known size: ValueError
            return self.ptr("cd", GUARD), "ptr", "cptr"
        if t == "cint":      # any other cdata: TypeError
            return self.ffi.cast("int", 5), None, "cother"
        if t == "list":
            return [65, 66], None, "nobuf"
        if t == "str":
            return "ab", None, "nobuf"
        return 5, None, "nobuf"

    def op_setslice(self, op):
        pos = self.base[op["r"]] + op["off"]
        n, a, b, c = op["n"], op["a"], op["b"], op["c"]
        ref = bytearray(self.flat[pos:pos + n])
        pyobj, raw, sline = self._src(op["src"])
        orc, sl = self._slice_oracle(ref, a, b, c)
        if orc[0] == "ok":
            if raw is None:
                orc = ("err", "TypeError")
            elif raw == "ptr" or len(raw) != len(orc[1]):
                orc = ("err", "ValueError")          # a bytearray would change its length here
            else:
                ref[slice(mkarg(a), mkarg(b))] = raw
                if len(ref) != n:
                    raise InfraError("oracle changed the length")
                self.flat[pos:pos + n] = ref
                orc = ("ok", None)
        bf = self.buf(op["r"], op["off"], n)
        r = self._exc(lambda: bf.__setitem__(sl, pyobj))
        line = "setslice %d %d %s %s %s %s" % (pos, n, arg_line(a), arg_line(b), arg_line(c), sline)
        return r, orc, line, None, True

    def op_bufsize(self, op):
        how, g = op["how"], op["given"]
        if how == "gcarr":
            cd, _, _, raw = self.gcarray(op["g"])
            dflt = len(raw)
        elif how == "arr":
            cd, dflt = self.cd, self.lc
        elif how == "short":
            cd, dflt = self.ffi.cast("short *", self.cd), 2
        elif how == "struct":
            cd, dflt = self.ffi.cast("struct c19s *", self.cd), 6
        else:
            cd, dflt = self.ffi.cast("void *", self.cd), None
        if g is None:
            orc = ("ok", dflt) if dflt is not None else ("err", "TypeError")
            r = self._exc(lambda: len(self.ffi.buffer(cd)))
        else:
            if not SS_MIN <= g <= SS_MAX:
                orc = ("err", "OverflowError")
            elif g >= 0:
                orc = ("ok", g)
            else:
                orc = ("ok", dflt) if dflt is not None else ("err", "TypeError")
            r = self._exc(lambda: len(self.ffi.buffer(cd, g)))
        line = "bufsize %s %s" % ("none" if g is None else g, "none" if dflt is None else dflt)
        want = "ok %d" % r[1] if r[0] == "ok" else "err " + r[1]
        return r, orc, line, want, False

    # ---- from_buffer
    def op_frombuf(self, op):
        T, isize, fixed = op["T"], op["isize"], op.get("fixed")
        o = op["obj"]
        t, k = o["t"], o.get("n", 0)
        data = bytes((i * 7 + 3) & 0xFF for i in range(k))
        ro, contig, blen = False, True, k
        if t == "bytearray":
            obj = bytearray(data)
        elif t == "bytes":
            obj, ro = data, True
        elif t == "array":
            obj = array.array("H")
            obj.frombytes(data[:k - k % 2])
            blen = k - k % 2
        elif t == "mvro":
            obj, ro = memoryview(data), True
        elif t == "mvstride":
            if k < 3:
                raise InfraError("strided view of fewer than 3 bytes")
            obj, contig, blen = memoryview(bytearray(data))[::2], False, (k + 1) // 2
        elif t == "str":
            obj = "abc"
        else:
            obj = [1, 2]
        rw = op["rw"]
        if T in ("int *", "int"):
            ctype, ctline = T, ("ptr" if T == "int *" else "other")
        elif fixed is not None:
            ctype, ctline = T.replace("[]", "[%d]" % fixed, 1), "fixed:%d:%d" % (isize, fixed)
        else:
            ctype, ctline = T, "open:%d" % isize
        # the property's statement
        if T == "int":
            orc = ("err", "TypeError")
        elif t in ("str", "list"):
            orc = ("err", "TypeError")
        elif (rw and ro) or not contig:
            orc = ("err", "BufferError")
        elif T == "int *":
            orc = ("ok", "ptr")
        elif fixed is not None:
            orc = ("err", "ValueError") if blen < fixed * isize else ("ok", fixed)
        elif isize == 0:
            orc = ("err", "ZeroDivisionError")
        else:
            orc = ("ok", blen // isize)               # len(obj) // sizeof(T)
        r = self._exc(lambda: self.ffi.from_buffer(ctype, obj, require_writable=rw))
        if r[0] == "ok":
            c = r[1]
            if T == "int *":
                r = ("ok", "ptr")
            else:
                r = ("ok", len(c))
                # the new cdata aliases obj's memory
                if isinstance(obj, (bytearray, array.array)) and len(c) and isize and not fixed == 0:
                    self.ffi.buffer(c)[0:1] = b"\xA5"
                    if bytes(memoryview(obj).cast("B")[0:1]) != b"\xA5":
                        r = ("ok", "not-an-alias")
            self.ffi.release(c)
        objline = ("str" if t == "str" else "nobuf" if t == "list" else
                   "buf:0:%d:%d:%d" % (blen, 1 if ro else 0, 1 if contig else 0))
        line = "frombuf %s %s %d" % (ctline, objline, 1 if rw else 0)
        if r[0] == "ok" and r[1] == "ptr":
            want = "ok %d" % blen
        elif r[0] == "ok" and isinstance(r[1], int):
            want = "ok %d" % r[1]
        else:
            want = "err %s" % (r[1],)
        return r, orc, line, want, False

    def op_fbalias(self, op):
        """from_buffer('T[]', region object); writing item i through it changes exactly those bytes."""
        r_, T, isize, i, raw = op["r"], op["T"], op["isize"], op["i"], bytes.fromhex(op["h"])
        base, ln = self.base[r_], self.len[r_]
        c = self.ffi.from_buffer(T, self.pyobj[r_])
        orc = ("ok", None)
        self.flat[base + i * isize:base + (i + 1) * isize] = raw
        self.ffi.buffer(c)[i * isize:(i + 1) * isize] = raw
        r = ("ok", None) if len(c) == ln // isize else ("err", "len(from_buffer) = %d" % len(c))
        self.ffi.release(c)
        line = "setslice %d %d %d %d none bytes:%s" % (base, ln, i * isize, (i + 1) * isize, hx(raw))
        return r, orc, line, None, True

    # ---- memmove
    def _mobj(self, o, writable):
        """(python object, model description, oracle: ('ok', flat position) | ('err', kind))"""
        t = o["t"]
        if t == "cdata":
            p = self.base[o["r"]] + o["off"]
            return self.ptr(o["r"], o["off"]), "cdata:%d:1" % p, ("ok", p)
        if t == "gcarr":
            cd, p, _, _ = self.gcarray(o["g"])
            return cd, "cdata:%d:1" % p, ("ok", p)
        if t == "obj":
            r = o["r"]
            ro = r == "bs"
            res = ("err", "BufferError") if (writable and ro) else ("ok", self.base[r])
            return self.pyobj[r], "buf:%d:%d:%d:1" % (self.base[r], self.len[r], 1 if ro else 0), res
        if t == "mv":
            r = o["r"]
            ro = r == "bs"
            p = self.base[r] + o["off"]
            obj = mv_bytes(self.pyobj[r])[o["off"]:]
            res = ("err", "BufferError") if (writable and ro) else ("ok", p)
            return obj, "buf:%d:%d:%d:1" % (p, self.len[r] - o["off"], 1 if ro else 0), res
        if t == "mvstride":
            r = o["r"]
            obj = mv_bytes(self.pyobj[r])[::2]
            if len(obj) <= 1:
                raise InfraError("strided view of fewer than 3 bytes")
            return obj, "buf:%d:%d:%d:0" % (self.base[r], len(obj), 1 if r == "bs" else 0), ("err", "BufferError")
        if t == "str":
            return "abcdefgh", "str", ("err", "TypeError")
        if t == "intcdata":
            return self.ffi.cast("int", 5), "cdata:0:0", ("err", "TypeError")
        return 5, "nobuf", ("err", "TypeError")

    def op_memmove(self, op):
        n = op["n"]
        dobj, dline, dres = self._mobj(op["d"], True)
        sobj, sline, sres = self._mobj(op["s"], False)
        if n[0] != "i":
            orc = ("err", "TypeError")
        elif not SS_MIN <= n[1] <= SS_MAX:
            orc = ("err", "OverflowError")
        elif n[1] < 0:
            orc = ("err", "ValueError")
        elif sres[0] == "err":
            orc = sres
        elif dres[0] == "err":
            orc = dres
        else:
            k, sp, dp = n[1], sres[1], dres[1]
            tmp = bytes(self.flat[sp:sp + k])            # a copy through an intermediate buffer
            if len(tmp) != k or dp + k > len(self.flat):
                raise InfraError("generator produced an out-of-bounds memmove: %r" % (op,))
            self.flat[dp:dp + k] = tmp
            orc = ("ok", None)
        r = self._exc(lambda: self.ffi.memmove(dobj, sobj, mkarg(n)))
        return r, orc, "memmove %s %s %s" % (dline, sline, arg_line(n)), None, True


# ------------------------------------------------------------------ generation

def rnd_bytes(rng, n):
    return bytes(rng.getrandbits(8) for _ in range(n))


def gen_key(rng, n):
    r = rng.random()
    if r < 0.35 and n > 0:
        return ["i", rng.randrange(n)]
    if r < 0.6 and n > 0:
        return ["i", -rng.randint(1, n)]
    if r < 0.8:
        return ["i", rng.choice([n, n + 1, -n - 1, -n - 2, -1, 0, n - 1])]
    if r < 0.92:
        return ["i", rng.choice([1 << 63, -(1 << 63) - 1, (1 << 63) - 1, -(1 << 63), 1 << 64, 10 ** 30, -10 ** 30])]
    return rng.choice([["n"], ["o", "float"], ["o", "str"]])


def gen_bound(rng, n):
    r = rng.random()
    if r < 0.15:
        return ["n"]
    if r < 0.45:
        return ["i", rng.randint(0, n)]
    if r < 0.7:
        return ["i", -rng.randint(0, n + 2)]
    if r < 0.85:
        return ["i", rng.choice([n + 1, n + 5, -n - 3, n, 0])]
    if r < 0.96:
        return ["i", rng.choice([1 << 63, -(1 << 63) - 1, (1 << 63) - 1, -(1 << 63), 1 << 64, -(1 << 64), 10 ** 30,
                                 -10 ** 30])]
    return ["o", rng.choice(["float", "str"])]


def gen_step(rng):
    r = rng.random()
    if r < 0.8:
        return ["n"]
    if r < 0.9:
        return ["i", 1]
    return rng.choice([["i", 2], ["i", 0], ["i", -1], ["o", "float"], ["i", 1 << 70], ["i", -(1 << 70)]])


GUARD = 4      # bytes at both ends of every object that no buffer view covers: an off-by-one access of a broken
                # implementation lands there (and is seen in the memory comparison) instead of corrupting the heap


def pick_view(rng, w, writable):
    regions = [r for r in World.REGIONS if not (writable and r == "bs")]
    r = rng.choice(regions)
    ln = w.len[r]
    off = rng.randint(GUARD, ln - GUARD)
    n = rng.randint(0, ln - GUARD - off)
    if rng.random() < 0.3:
        off, n = GUARD, ln - 2 * GUARD
    return r, off, n


def norm_len(n, a, b):
    """Length of the bytearray slice [a:b] of a length-n sequence (None for non-int bounds)."""
    try:
        return len(range(n)[slice(mkarg(a), mkarg(b))])
    except TypeError:
        return None


def gen_op(rng, w):
    x = rng.random()
    if x < 0.12:
        r, off, n = pick_view(rng, w, False)
        return {"op": "getitem", "r": r, "off": off, "n": n, "k": gen_key(rng, n)}
    if x < 0.24:
        r, off, n = pick_view(rng, w, True)
        v = rng.choice([["b", rnd_bytes(rng, 1).hex()]] * 5 + [["b", "6162"], ["b", ""], ["i", 65], ["ba", "61"], ["s", "a"]])
        return {"op": "setitem", "r": r, "off": off, "n": n, "k": gen_key(rng, n), "v": v}
    if x < 0.40:
        r, off, n = pick_view(rng, w, False)
        return {"op": "getslice", "r": r, "off": off, "n": n, "a": gen_bound(rng, n), "b": gen_bound(rng, n),
                "c": gen_step(rng)}
    if x < 0.60:
        r, off, n = pick_view(rng, w, True)
        a, b, c = gen_bound(rng, n), gen_bound(rng, n), gen_step(rng)
        ln = norm_len(n, a, b)
        ln = 2 if ln is None else ln
        y = rng.random()
        k = ln if y < 0.6 else max(0, ln + rng.choice([-1, 1, 2, -2]))
        def disjoint_view(regions, free_len):
            """(region, off, len) of a piece of one of the objects that does not overlap the destination buffer."""
            cands = []
            for r2 in regions:
                for _ in range(3):
                    o2 = rng.randint(0, w.len[r2])
                    l2 = min(k, w.len[r2] - o2)
                    if free_len and rng.random() < 0.3:
                        l2 = rng.randint(0, w.len[r2] - o2)
                    p2, p = w.base[r2] + o2, w.base[r] + off
                    if p2 + l2 <= p or p + n <= p2:
                        cands.append((r2, o2, l2))
            return rng.choice(cands) if cands else None

        z = rng.random()
        if z < 0.33:
            src = {"t": rng.choice(["bytes", "bytearray"]), "h": rnd_bytes(rng, k).hex()}
        elif z < 0.41:
            k -= k % 2
            src = {"t": "array", "h": rnd_bytes(rng, k).hex()}
        elif z < 0.66:
            v = disjoint_view(("ba", "aa", "bs"), True)
            if v:
                src = {"t": rng.choice(["mv", "buf"]), "r": v[0], "off": v[1], "len": v[2]}
            else:
                src = {"t": "bytes", "h": rnd_bytes(rng, k).hex()}
        elif z < 0.80:
            # a fresh cdata array, item size 1/2/4/6, whose size in bytes equals the slice length or not
            T, isz = rng.choice([("char", 1), ("char", 1), ("short", 2), ("int", 4), ("struct c19s", 6)])
            kk = k if rng.random() < 0.7 else max(0, k + rng.choice([-isz, isz, 1, -1]))
            src = {"t": "carr", "T": T, "h": rnd_bytes(rng, kk - kk % isz).hex()}
        elif z < 0.86:
            v = disjoint_view(("ba", "aa", "bs", "cd"), True)
            if v:
                src = {"t": "carrview", "r": v[0], "off": v[1], "len": v[2]}
            else:
                src = {"t": "carr", "T": "char", "h": rnd_bytes(rng, k).hex()}
        elif z < 0.89:
            T = rng.choice(["char", "char", "short", "int"])
            kk = k if rng.random() < 0.7 else k + GC_ITEM[T]
            src = {"t": "gcarr", "g": {"v": rng.choice(["gcnew", "gcfixed", "alloc"]), "T": T,
                                       "h": rnd_bytes(rng, kk - kk % GC_ITEM[T]).hex()}}
        elif z < 0.92:
            src = {"t": rng.choice(["cptr", "cptr", "cint"])}
        else:
            src = {"t": rng.choice(["list", "str", "int"])}
        return {"op": "setslice", "r": r, "off": off, "n": n, "a": a, "b": b, "c": c, "src": src}
    if x < 0.65:
        how = rng.choice(["arr", "arr", "short", "struct", "void"])
        lim = w.lc if how == "arr" else min(w.lc, 8)
        g = rng.choice([None, rng.randint(0, lim), rng.randint(0, lim), -1, -5, 1 << 63, 1 << 64, -(1 << 63) - 1,
                        -(1 << 63), 0])
        return {"op": "bufsize", "how": how, "given": g}
    if x < 0.80:
        T, isize = rng.choice(FB_TYPES + [("int *", 4), ("int", 4)])
        k = rng.randint(0, 40)
        t = rng.choice(["bytearray"] * 5 + ["bytes", "bytes", "array", "array", "mvro", "mvstride", "str", "list"])
        if t == "mvstride" and k < 3:
            k += 3
        op = {"op": "frombuf", "T": T, "isize": isize, "obj": {"t": t, "n": k}, "rw": rng.random() < 0.35}
        if T.endswith("[]") and "][" not in T and rng.random() < 0.45:
            blen = k - k % 2 if t == "array" else ((k + 1) // 2 if t == "mvstride" else k)
            need = blen // isize
            op["fixed"] = max(0, rng.choice([need, need, need + 1, need - 1, 0, need + 2]))
        return op
    if x < 0.85:
        r = rng.choice(["ba", "aa"])
        T, isize = rng.choice([("short[]", 2), ("int[]", 4), ("char[]", 1), ("long[]", 8), ("struct c19s[]", 6)])
        nitems = w.len[r] // isize
        if nitems == 0:
            return {"op": "bufsize", "how": "arr", "given": None}
        return {"op": "fbalias", "r": r, "T": T, "isize": isize, "i": rng.randrange(nitems), "h": rnd_bytes(rng, isize).hex()}
    # memmove
    def operand(dest):
        y = rng.random()
        if y < 0.5:
            r = rng.choice(["cd", "ba", "aa"] if dest else ["cd", "ba", "aa", "bs"])
            return {"t": "cdata", "r": r, "off": rng.randint(0, w.len[r])}
        if y < 0.7:
            return {"t": "obj", "r": rng.choice(["ba", "aa", "bs"] if (not dest or rng.random() < 0.3) else ["ba", "aa"])}
        if y < 0.88:
            r = rng.choice(["ba", "aa", "bs"] if (not dest or rng.random() < 0.3) else ["ba", "aa"])
            return {"t": "mv", "r": r, "off": rng.randint(0, w.len[r])}
        t = rng.choice(["mvstride", "str", "intcdata", "int"])
        rs = [r for r in ("ba", "aa") if w.len[r] >= 3]
        if t == "mvstride" and not rs:
            t = "str"
        return {"t": t, "r": rng.choice(rs) if rs else "ba"}
    d, s = operand(True), operand(False)
    if rng.random() < 0.45 and d["t"] == "cdata":        # same object: overlapping regions
        s = {"t": "cdata", "r": d["r"], "off": rng.randint(0, w.len[d["r"]])}

    def avail(o):
        if o["t"] in ("cdata", "mv"):
            return w.len[o["r"]] - o["off"]
        if o["t"] == "obj":
            return w.len[o["r"]]
        if o["t"] == "mvstride":
            return (w.len[o["r"]] + 1) // 2
        return 4
    room = max(0, min(avail(d), avail(s)))
    y = rng.random()
    if y < 0.85:
        n = ["i", rng.randint(0, room)]
    else:
        n = rng.choice([["i", -1], ["i", -(1 << 63)], ["i", 1 << 63], ["i", 1 << 64], ["o", "float"], ["n"], ["i", -(1 << 70)]])
    return {"op": "memmove", "d": d, "s": s, "n": n}


def new_sequence(rng):
    la, lc, ld = 2 * GUARD + rng.randint(0, 20), 2 * GUARD + rng.randint(0, 20), 2 * GUARD + rng.randint(0, 12)
    lb = 2 * GUARD + 2 * rng.randint(0, 8)
    return {"lens": [la, lb, lc, ld], "init": rnd_bytes(rng, la + lb + lc + ld).hex(), "ops": []}


def translators(ctx):
    """Generated/BufferExprs.lean (and Generated/IndexExprs.lean, which Model/Buffer.lean imports through
    Model/Index.lean): every bound test, clamp and length computation the model uses, re-extracted from
    minibuffer.h and _cffi_backend.c (translate/c19_exprs.py, translate/c16_exprs.py)."""
    import os
    sys.path.insert(0, os.path.join(common.VERIF, "translate"))
    import c16_exprs
    import c19_exprs
    return [c16_exprs.translator, c19_exprs.translator]


# ------------------------------------------------------------------ the scripted part: gc-wrapper arrays

def scripted_sequences(rng):
    """Every run, whatever the seed: array cdata obtained from ffi.gc(x, destructor) -- x = ffi.new('T[]', n), a slice
    view, ffi.from_buffer('T[]', bytearray), a twice wrapped array, a fixed-size T[n] -- and from
    ffi.new_allocator(malloc, free), used for ffi.buffer(g) (its length), as the right-hand side of a buffer slice
    assignment (matching and non-matching size in bytes) and as an operand of memmove."""
    seqs = []
    for rep_ in range(4):
        la, lb, lc, ld = 12, 24, 12, 8
        ops = []
        inmem = [{"v": "gc"}, {"v": "gc2"}, {"v": "gcfb", "T": "char"}, {"v": "gcfb", "T": "short"},
                 {"v": "gcfb", "T": "int"}, {"v": "gcview", "r": "cd", "off": 2, "len": 7},
                 {"v": "gcview", "r": "ba", "off": 0, "len": 12}, {"v": "gcview", "r": "bs", "off": 1, "len": 5}]

        def ext(v, T, k):
            return {"v": v, "T": T, "h": rnd_bytes(rng, k).hex()}
        fresh = [ext("gcnew", "char", 9), ext("gcnew", "short", 8), ext("gcnew", "int", 12), ext("gcfixed", "char", 9),
                 ext("gcfixed", "int", 8), ext("alloc", "char", 7), ext("alloc", "short", 10), ext("alloc", "int", 12),
                 ext("gcnew", "char", 0)]
        for g in inmem + fresh:
            ops.append({"op": "bufsize", "how": "gcarr", "g": g, "given": None})
        ops.append({"op": "bufsize", "how": "gcarr", "g": {"v": "gc"}, "given": 5})
        ops.append({"op": "bufsize", "how": "gcarr", "g": {"v": "gc2"}, "given": -1})
        # destination: the view [4, 20) of the array.array object (no source above overlaps it)
        for g in inmem + fresh:
            k = {"gc": 12, "gc2": 12, "gcfb": 12, "gcview": g.get("len")}.get(g["v"]) or len(g.get("h", "")) // 2
            a = rng.randint(0, 16 - k)
            for stop in (a + k, a + k + 1 if a + k < 16 else a + k - 1):
                ops.append({"op": "setslice", "r": "aa", "off": 4, "n": 16, "a": ["i", a], "b": ["i", stop], "c": ["n"],
                            "src": {"t": "gcarr", "g": g}})
        ops.append({"op": "setslice", "r": "aa", "off": 4, "n": 16, "a": ["i", -12], "b": ["n"], "c": ["n"],
                    "src": {"t": "gcarr", "g": {"v": "gc"}}})
        for g in inmem:
            ops.append({"op": "memmove", "d": {"t": "cdata", "r": "aa", "off": 6}, "s": {"t": "gcarr", "g": g},
                        "n": ["i", 5]})
        for g in inmem[:5]:                 # the wrapper as the destination (overlapping copy inside its own memory)
            ops.append({"op": "memmove", "d": {"t": "gcarr", "g": g}, "s": {"t": "cdata", "r": "cd" if g["v"] != "gcfb" else "ba", "off": 3},
                        "n": ["i", 6]})
        seqs.append({"lens": [la, lb, lc, ld], "init": rnd_bytes(rng, la + lb + lc + ld).hex(), "ops": ops})
    return seqs


# ------------------------------------------------------------------ running

def nontrivial_key(op, real):
    t = op["op"]
    args = repr(sorted((k, repr(v)) for k, v in op.items() if k != "op"))
    if real[0] == "err":
        return (t, args, real[1])
    if t in ("getitem", "setitem") and op["k"][0] == "i" and not 0 <= op["k"][1] < op["n"]:
        return (t, args, "ok")
    if t in ("getslice", "setslice"):
        for x in (op["a"], op["b"]):
            if x[0] == "i" and not 0 <= x[1] <= op["n"]:
                return (t, args, "ok")
    if t == "memmove" and op["d"].get("r") == op["s"].get("r"):
        return (t, args, "ok")
    if t in ("frombuf", "fbalias"):
        return (t, args, "ok")
    return None


def case_of(seq, k):
    return {"seq": {"lens": seq["lens"], "init": seq["init"], "ops": list(seq["ops"][:k])}}


def run_sequence(ctx, seq, nops, rng=None, collect=True):
    w = World(seq)
    preset = list(seq["ops"])
    seq["ops"] = []
    k = 0
    while k < nops:
        if k < len(preset):
            op = preset[k]
        elif rng is not None:
            op = gen_op(rng, w)
        else:
            break
        k += 1
        seq["ops"].append(op)
        real, orc, line, want, mutating = w.run(op)
        realmem = w.realflat()
        if mutating:
            want = ("ok " if real[0] == "ok" else "err %s " % real[1]) + hx(realmem)
        ctx.case(nontrivial_key(op, real), sample=None)
        ctx.count("%s:%s" % (op["op"], "ok" if real[0] == "ok" else real[1]))
        for fam, hit in (("bufsize", op["op"] == "bufsize" and op.get("how") == "gcarr"),
                         ("setslice-src", op["op"] == "setslice" and op["src"]["t"] == "gcarr"),
                         ("memmove", op["op"] == "memmove" and "gcarr" in (op["d"]["t"], op["s"]["t"]))):
            if hit:
                g = op.get("g") or (op.get("src") or {}).get("g") or op.get("d", {}).get("g") or op.get("s", {}).get("g")
                ctx.count("gc-array:%s:%s:%s" % (fam, g["v"], "ok" if real[0] == "ok" else real[1]))
        if op["op"] == "setslice" and op["src"]["t"] in ("carr", "carrview", "cptr", "cint"):
            ctx.count("setslice-from-%s:%s" % (op["src"]["t"], "ok" if real[0] == "ok" else real[1]))
        robs = real if real[0] == "err" or not mutating else ("ok", None)
        failed = False
        if robs != orc:
            ctx.fail(case_of(seq, k), "operation %d %r: implementation %r, byte-array model says %r" % (k - 1, op, robs, orc))
            failed = True
        elif realmem != bytes(w.flat):
            ctx.fail(case_of(seq, k), "operation %d %r: memory differs from the byte-array model: %s vs %s"
                     % (k - 1, op, realmem.hex(), bytes(w.flat).hex()))
            failed = True
        if collect:
            w.lines.append(line)
            w.expect.append((want, (seq, k)))
        if failed:
            break
    if len(ctx.samples) < 8 and seq["ops"]:
        ctx.samples.append({"lens": seq["lens"], "ops": seq["ops"][:5]})
    return w.lines, w.expect


def correspond(ctx, nseq=None, oracle_only=False):
    nseq = nseq if nseq is not None else ctx.n(400, 20000)
    lines, expect = [], []
    for seq in scripted_sequences(ctx.rng):
        l, e = run_sequence(ctx, seq, len(seq["ops"]), None, collect=not oracle_only)
        lines += l
        expect += e
        if ctx.failures:
            break
    for _ in range(0 if ctx.failures else nseq):
        seq = new_sequence(ctx.rng)
        l, e = run_sequence(ctx, seq, ctx.rng.randint(8, 40), ctx.rng, collect=not oracle_only)
        lines += l
        expect += e
        if ctx.failures:
            break            # a broken implementation may be writing out of bounds: do not go on
    if oracle_only or not lines:
        return
    out = ctx.driver(lines)
    skip = False
    for line, o, (want, where) in zip(lines, out, expect):
        if line.startswith("new "):
            skip = False
        if skip or where is None:
            continue
        if o != want:
            ctx.disagree(case_of(*where), want, o, "model driver vs implementation at %r" % line)
            skip = True           # the model memory is out of step for the rest of this sequence


def search(ctx):
    correspond(ctx, nseq=ctx.n(3000, 30000), oracle_only=True)


def replay(ctx, obj):
    def unjson(x):          # common.jsonable writes ints beyond 2^62 as strings
        if isinstance(x, list):
            if len(x) == 2 and x[0] == "i" and isinstance(x[1], str):
                return ["i", int(x[1])]
            return [unjson(y) for y in x]
        if isinstance(x, dict):
            return {k: (int(v) if k == "given" and isinstance(v, str) else unjson(v)) for k, v in x.items()}
        return x
    seq = unjson(obj["case"]["seq"])

    class Quiet:
        samples = []

        def __init__(self):
            self.fails = []

        def case(self, *a, **k):
            pass

        def count(self, *a, **k):
            pass

        def fail(self, case, detail):
            self.fails.append(detail)

    q = Quiet()
    run_sequence(q, dict(seq, ops=list(seq["ops"])), len(seq["ops"]), None, collect=False)
    for d in q.fails:
        print(d)
    print("replayed %d operations: %s" % (len(seq["ops"]), "FAILS" if q.fails else "holds"))
    return 1 if q.fails else 0
