"""C14 -- callbacks and extern "Python" pass values exactly and contain errors (partial).

Theorems (lean/CffiVerif/Props/C14.lean): slot_roundtrip, packing_in_bounds,
result_area_large_enough (+ result_fits_without_arguments, slot_stride_is_source),
by_reference_sets_agree (generator's by-reference classes/names vs. the flag test of the reader),
slot_unsafe_primitives, complex_argument_corrupted_witness,
complex_last_argument_out_of_bounds_witness, result_is_conversion,
small_int_result_widened, extern_python_result_plain, error_value_returned
(+ error_value_kept_example), rawerr_is_conversion, rawerr_default_zero,
void_requires_none, nothing_propagates.

Tie to the code:
  A. random function-pointer signatures; for each a compiled C driver (in an API-mode
     module) generates argument values from a seed, logs their images, calls either an
     `ffi.callback` closure or the generated `extern "Python"` function and logs the
     image of what came back.  Python bodies: normal / raising / bad-return; error
     handling: none / error= / onerror= returning a value, returning None, raising.
       oracle (independent of the Lean model): the Python function received exactly the
         logged arguments; the C caller received exactly the image of the returned value,
         or of the declared error value (zero without error=), or of onerror's value;
         the call into C returns normally (nothing propagates);
       correspondence: creation outcome, received bytes and number of reports through
         sys.unraisablehook are the model's (`call`), slot packing (`slots`).
  B. `convert_from_object_fficallback` itself, reached by compiling the working tree's
     backend a second time inside csrc/fficallback_wrap.c, on random (type, object,
     encode flag, initial buffer): status and the whole buffer afterwards vs. the model (`enc`).
"""
import ctypes
import importlib
import json
import os
import re
import resource
import struct
import sys

import common
from common import InfraError

sys.path.insert(0, os.path.join(common.VERIF, "translate"))
import externpy_size  # noqa: E402   (size rule of `char a[size_of_a]` from Recompiler._extern_python_decl)
import primitives as _prim_tr  # noqa: E402   (C06's extractor; Generated/Platform.lean: sizeof of every primitive, by gcc)

MANIFEST = {
    "text": "Kernel-checked theorems over a model of the extern \"Python\" argument slots (every argument of at most 8 bytes "
            "stored at p+8i, structs/long double by reference) and their reader in general_invoke_callback "
            "(slot_roundtrip for any number of arguments, stores stay inside the local array), of the size of that array as "
            "the generator computes it (result_area_large_enough: every result the backend writes fits, for every signature; "
            "the size rule is regenerated from recompiler.py and the primitive sizes from gcc on every run), of "
            "convert_from_object_fficallback (the caller receives exactly the conversion; small integers of libffi "
            "callbacks fill the whole ffi_arg, sign- or zero-extended; extern \"Python\" results are written plain; void "
            "requires None) and of the error protocol (error_value_returned at full strength: error= bytes pre-encoded at "
            "creation and copied first, onerror called, its non-None result converted, the error= bytes restored when that "
            "conversion fails, no exception left pending).  A compiled C driver (built with -fstack-protector-all, risky "
            "cases in forked children) calls ffi.callback closures and @ffi.def_extern functions of random signatures, "
            "including float/double _Complex, with generated arguments under all body / error= / onerror= combinations; "
            "received arguments, returned bytes, the emitted array sizes and unraisable reports are compared with an "
            "independent oracle and with the model; convert_from_object_fficallback is also driven directly.",
    "note": "PARTIAL: libffi's closure dispatch and gcc's calling convention are external (covered by running only). "
            "Conversions of float/double/complex/pointer/struct results are abstracted (`image` objects), integer/_Bool/char "
            "conversions come from the Call model. Finding class C14/extern-python-double-complex-argument: a double "
            "_Complex argument of an extern \"Python\" function is stored in an 8-byte slot (corrupted by the next "
            "argument's store, or stored past the end of the array when it comes last); slot_roundtrip and "
            "packing_in_bounds carry the hypothesis `slot values have at most 8 bytes`, slot_unsafe_primitives shows that "
            "double _Complex is the only primitive violating it, and two witnesses are proved by evaluation. "
            "Callbacks from foreign threads, subinterpreters and the not-yet-defined extern \"Python\" case are C36/C28 territory.",
    "technique": "Lean 4 proof (byte-memory model, induction over the argument list; case analysis of the result encoder and "
                 "error protocol; size rule and platform table regenerated from the source) + correspondence through a "
                 "compiled C driver and a wrapper around the backend's own convert_from_object_fficallback",
}

RULE = ("signatures: 0-7 parameters from {integers of every size/sign, _Bool, char, float, double, long double, char *, 4 "
        "structs by value; float/double _Complex for extern \"Python\"}, result from {void, integers, _Bool, char, float, "
        "double, char *, structs; float/double _Complex with 0, 1, 2+ parameters}; the first four signatures always return "
        "unsigned char / unsigned short / _Bool / char; each signature x {ffi.callback, extern \"Python\"} x scenarios: body "
        "{returns a valid value (boundary or random), raises, returns an unconvertible value} x error= {absent, valid value, "
        "(rarely) invalid value} x onerror= {absent, returns None, returns a valid value, raises, returns an unconvertible "
        "value}; argument values generated in C from a seed (boundaries and random bits); per signature the emitted "
        "`char a[N]` is checked against every store; non-trivial = signature with >= 1 parameter or a non-void result; "
        "distinct = distinct (signature, kind, scenario, seed); "
        "part B: 13 types x objects {in-range, boundary, out-of-range ints, int-likes, float, None, str, bytes} x encode flag")
ASSUMPTIONS = ["x86-64 SysV, little endian; sizeof(ffi_arg) = 8",
               "struct padding is unspecified: struct images are the concatenation of the fields"]
TRUSTED_EXTRA = ["the generated C driver of corr_C14 and csrc/fficallback_wrap.c (includes /repo/src/c/_cffi_backend.c unmodified)"]


def _double_complex_argument(case):
    """extern "Python" function with a `double _Complex` parameter: the 16-byte value is stored in an 8-byte
    slot -- corrupted by the next argument's store, or (last position) stored past the end of `char a[]`."""
    return bool(case.get("complex_arg_followed") or case.get("complex_arg_oob"))


CLASSES = {"C14/extern-python-double-complex-argument": _double_complex_argument}
EXPLORE_COMPLEX_ARG = [False]
COMPLEX = {"float _Complex": ("float", 8, "_cffi_float_complex_t"), "double _Complex": ("double", 16, "_cffi_double_complex_t")}

INTS = {
    "signed char": ("sint", 1), "unsigned char": ("uint", 1), "short": ("sint", 2), "unsigned short": ("uint", 2),
    "int": ("sint", 4), "unsigned int": ("uint", 4), "long": ("sint", 8), "unsigned long": ("uint", 8),
    "long long": ("sint", 8), "unsigned long long": ("uint", 8), "int16_t": ("sint", 2), "uint8_t": ("uint", 1),
}
STRUCTS = {
    "struct P1": [("c", "unsigned char")],
    "struct P2": [("a", "int"), ("b", "int")],
    "struct PD": [("d", "double"), ("s", "short")],
    "struct PL": [("x", "long long"), ("y", "long long"), ("z", "long long")],
}
STRUCT_DECL = "".join("%s { %s };\n" % (n, " ".join("%s %s;" % (t, f) for f, t in fl)) for n, fl in STRUCTS.items())
ARG_TYPES = sorted(INTS) + ["_Bool", "char", "float", "double", "long double", "char *"] + sorted(STRUCTS)
RES_TYPES = ["void"] + sorted(INTS) + ["_Bool", "char", "float", "double", "char *"] + sorted(STRUCTS)
# complex types exist for extern "Python" only (libffi callbacks refuse them)


def int_range(t):
    kind, size = INTS[t]
    if kind == "sint":
        return -(1 << (8 * size - 1)), (1 << (8 * size - 1)) - 1
    return 0, (1 << (8 * size)) - 1


def scalar_size(t):
    if t in INTS:
        return INTS[t][1]
    if t in COMPLEX:
        return COMPLEX[t][1]
    return {"_Bool": 1, "char": 1, "float": 4, "double": 8, "long double": 8, "char *": 8}[t]   # long double logged as double


def image_size(t):
    if t in STRUCTS:
        return sum(scalar_size(ft) for _, ft in STRUCTS[t])
    if t == "void":
        return 0
    return scalar_size(t)


def rt_token(t):
    if t == "void":
        return "void 0"
    if t in INTS:
        return "%s %d" % INTS[t]
    if t == "_Bool":
        return "bool 1"
    if t == "char":
        return "char 1"
    return "blob %d" % image_size(t)


# --------------------------------------------------------------------------- C generation

PRELUDE = r"""
#include <string.h>
#include <stdint.h>
""" + STRUCT_DECL + r"""
static char c14_store[64];
char *c14_base(void) { return c14_store; }
static unsigned long long nxt(unsigned long long *s)
{ *s = *s * 6364136223846793005ULL + 1442695040888963407ULL; return (*s >> 7) ^ (*s << 40); }
#define PUT(x) do { memcpy(w, &(x), sizeof(x)); w += sizeof(x); } while (0)
"""


def gen_sig(rng, idx):
    n = rng.randint(0, 7)
    sig = {"idx": idx, "res": rng.choice(RES_TYPES), "args": [rng.choice(ARG_TYPES) for _ in range(n)]}
    if idx < 4:
        sig["res"] = ["unsigned char", "unsigned short", "_Bool", "char"][idx]     # always present
    elif rng.random() < 0.3:
        # extern "Python" only: complex results with 0, 1, 2+ arguments, complex arguments
        n = rng.choice([0, 0, 1, 1, 2, 3, rng.randint(0, 7)])
        sig["args"] = [rng.choice(ARG_TYPES + ["float _Complex"] * 4) for _ in range(n)]
        sig["res"] = rng.choice(["float _Complex", "double _Complex", "double _Complex", rng.choice(RES_TYPES)])
        if n and rng.random() < 0.5:
            # a double _Complex argument: in the last position, or (known finding) followed by others
            pos = rng.randrange(n) if EXPLORE_COMPLEX_ARG[0] else n - 1
            sig["args"][pos] = "double _Complex"
            if not EXPLORE_COMPLEX_ARG[0]:
                sig["args"] = [a if a != "double _Complex" or j == n - 1 else "float _Complex"
                               for j, a in enumerate(sig["args"])]
    return sig


def has_complex(sig):
    return sig["res"] in COMPLEX or any(a in COMPLEX for a in sig["args"])


def complex_followed(sig):
    return any(a == "double _Complex" for a in sig["args"][:-1])


def c_fill(t, var):
    """C statements assigning a generated value to `var` of scalar type t and logging its image."""
    if t in INTS:
        lo, hi = int_range(t)
        return ("{ unsigned long long k = nxt(&seed); %s = (k %% 5 == 0) ? (%s)%dULL : (k %% 5 == 1) ? (%s)(%dULL) : "
                "(k %% 5 == 2) ? (%s)-1 : (%s)nxt(&seed); PUT(%s); }"
                % (var, t, hi % (1 << 64), t, lo % (1 << 64), t, t, var))
    if t == "_Bool":
        return "{ %s = (_Bool)(nxt(&seed) & 1); PUT(%s); }" % (var, var)
    if t == "char":
        return "{ %s = (char)nxt(&seed); PUT(%s); }" % (var, var)
    if t == "float":
        return "{ %s = (float)((long)(nxt(&seed) %% 200001) - 100000) / 8; PUT(%s); }" % (var, var)
    if t == "double":
        return "{ %s = (double)((long)(nxt(&seed) %% 20000001) - 10000000) / 64; PUT(%s); }" % (var, var)
    if t == "long double":
        return ("{ double d_; %s = (long double)((long)(nxt(&seed) %% 2000001) - 1000000) / 16; d_ = (double)%s; PUT(d_); }"
                % (var, var))
    if t == "char *":
        return "{ %s = c14_store + nxt(&seed) %% 64; PUT(%s); }" % (var, var)
    if t in COMPLEX:
        b = COMPLEX[t][0]
        return ("{ %s re_ = (%s)((long)(nxt(&seed) %% 200001) - 100000) / 8, im_ = (%s)((long)(nxt(&seed) %% 200001) - 100000) / 16; "
                "__real__ %s = re_; __imag__ %s = im_; PUT(%s); }" % (b, b, b, var, var, var))
    raise KeyError(t)


def c_driver(sig):
    i = sig["idx"]
    res, args = sig["res"], sig["args"]
    proto = ", ".join(args) or "void"
    out = []
    out.append("void drv_%d(%s (*fn)(%s), unsigned long long seed, unsigned char *alog, unsigned char *rlog)" % (i, res, proto))
    out.append("{")
    out.append("  unsigned char *w = alog;")
    for j, t in enumerate(args):
        out.append("  %s a%d;" % (t, j) if not t.endswith("*") else "  %sa%d;" % (t, j))
    for j, t in enumerate(args):
        if t in STRUCTS:
            out.append("  memset(&a%d, 0, sizeof a%d);" % (j, j))
            for f, ft in STRUCTS[t]:
                out.append("  " + c_fill(ft, "a%d.%s" % (j, f)))
        else:
            out.append("  " + c_fill(t, "a%d" % j))
    call = "(fn ? fn(%s) : xp_%d(%s))" % (", ".join("a%d" % j for j in range(len(args))), i,
                                         ", ".join("a%d" % j for j in range(len(args))))
    if res == "void":
        out.append("  if (fn) fn(%s); else xp_%d(%s);" % (", ".join("a%d" % j for j in range(len(args))), i,
                                                        ", ".join("a%d" % j for j in range(len(args)))))
    else:
        out.append("  { %s = %s;" % ("char *r" if res.endswith("*") else res + " r", call))
        out.append("    w = rlog;")
        if res in STRUCTS:
            for f, _ in STRUCTS[res]:
                out.append("    PUT(r.%s);" % f)
        else:
            out.append("    PUT(r);")
        out.append("  }")
    out.append("}")
    return "\n".join(out)


def sig_decl(sig, name):
    return "%s %s(%s)" % (sig["res"] if not sig["res"].endswith("*") else "char *", name, ", ".join(sig["args"]) or "void")


def make_module(sigs):
    cdef = STRUCT_DECL + "char *c14_base(void);\n"
    src = PRELUDE
    for s in sigs:
        i = s["idx"]
        cdef += 'extern "Python" %s;\n' % sig_decl(s, "xp_%d" % i)
        cdef += "void drv_%d(%s (*fn)(%s), unsigned long long seed, unsigned char *alog, unsigned char *rlog);\n" % (
            i, s["res"], ", ".join(s["args"]) or "void")
        # the generated extern "Python" function is static and defined after the prelude: declare it first
        src += "static %s;\n" % sig_decl(s, "xp_%d" % i)
    for s in sigs:
        src += c_driver(s) + "\n"
    return cdef, src


def _quiet(fn):
    so = os.dup(1)
    devnull = os.open(os.devnull, os.O_WRONLY)
    sys.stdout.flush()
    os.dup2(devnull, 1)
    try:
        return fn()
    finally:
        sys.stdout.flush()
        os.dup2(so, 1)
        os.close(devnull)
        os.close(so)


_counter = [0]
_CPATH = {}
_EMITTED = {}        # (id(lib), sig idx) -> N of `char a[N]`


def build_module(ctx, sigs):
    import cffi
    if ctx.scratch not in sys.path:
        sys.path.insert(0, ctx.scratch)
    _counter[0] += 1
    name = "_c14_api_%d_%d_%d" % (ctx.seed, os.getpid(), _counter[0])
    cdef, src = make_module(sigs)
    ffi = cffi.FFI()
    ffi.cdef(cdef)
    ffi.set_source(name, src)
    cpath = os.path.join(ctx.scratch, name + ".c")
    _quiet(lambda: ffi.emit_c_code(cpath))
    # an overflow of the generated function's `char a[]` must be a crash, not silent corruption
    common.compile_ext(cpath, ctx.scratch, name, extra=["-fstack-protector-all"])
    m = importlib.import_module(name)
    _CPATH[id(m.lib)] = cpath
    return m.ffi, m.lib


# --------------------------------------------------------------------------- values

class IntLike(object):
    def __init__(self, v):
        self.v = v

    def __int__(self):
        return self.v


def pack_scalar(t, v):
    if t in INTS:
        return (int(v) % (1 << (8 * INTS[t][1]))).to_bytes(INTS[t][1], "little")
    if t == "_Bool":
        return bytes([1 if v else 0])
    if t == "char":
        return bytes(v)
    if t == "float":
        return struct.pack("<f", v)
    if t in ("double", "long double"):
        return struct.pack("<d", v)
    if t in COMPLEX:
        return struct.pack("<ff" if t == "float _Complex" else "<dd", v.real, v.imag)
    raise KeyError(t)


def received_image(ffi, t, v):
    """Image of what the Python function was given for a parameter of type t (None if its Python type is wrong)."""
    if t in INTS:
        return pack_scalar(t, v) if type(v) is int else None
    if t == "_Bool":
        return pack_scalar(t, v) if type(v) is bool else None
    if t == "char":
        return v if type(v) is bytes and len(v) == 1 else None
    if t in ("float", "double"):
        return pack_scalar(t, v) if type(v) is float else None
    if t == "long double":
        return struct.pack("<d", float(v))
    if t in COMPLEX:
        return pack_scalar(t, v) if type(v) is complex else None
    if t == "char *":
        return int(ffi.cast("uintptr_t", v)).to_bytes(8, "little")
    if t in STRUCTS:
        return b"".join(pack_scalar(ft, getattr(v, f)) for f, ft in STRUCTS[t])
    raise KeyError(t)


def valid_value(rng, t):
    """A recipe for a valid return / error value of type t: {'py': how to build, 'tok': model token, 'img': hex image}."""
    if t in INTS:
        lo, hi = int_range(t)
        n = rng.choice([lo, hi, 0, -1 if lo < 0 else 1, rng.randint(lo, hi), rng.randint(lo, hi)])
        if rng.random() < 0.1:
            return {"py": ["intlike", n], "tok": "intlike:%d" % n, "img": pack_scalar(t, n).hex()}
        return {"py": ["int", n], "tok": "int:%d" % n, "img": pack_scalar(t, n).hex()}
    if t == "_Bool":
        b = rng.randrange(2)
        return {"py": rng.choice([["bool", b], ["int", b]]), "tok": "int:%d" % b, "img": "%02x" % b}
    if t == "char":
        c = rng.randrange(256)
        return {"py": ["bytes", "%02x" % c], "tok": "bytes:%02x" % c, "img": "%02x" % c}
    if t == "float":
        v = rng.randint(-8000, 8000) / 8.0
        return {"py": ["float", v], "tok": "image:" + struct.pack("<f", v).hex(), "img": struct.pack("<f", v).hex()}
    if t == "double":
        v = rng.choice([rng.randint(-10 ** 6, 10 ** 6) / 64.0, 1e300, -0.0])
        return {"py": rng.choice([["float", v]] + ([["int", int(v)]] if v == int(v) and abs(v) < 2 ** 53 and v != 0 else [])),
                "tok": "image:" + struct.pack("<d", v).hex(), "img": struct.pack("<d", v).hex()}
    if t == "char *":
        k = rng.randrange(64)
        return {"py": ["ptr", k], "tok": None, "img": None, "ptr": k}
    if t in COMPLEX:
        re, im = rng.randint(-8000, 8000) / 8.0, rng.randint(-8000, 8000) / 16.0
        img = pack_scalar(t, complex(re, im)).hex()
        return {"py": ["complex", re, im], "tok": "image:" + img, "img": img}
    if t in STRUCTS:
        vals = []
        for f, ft in STRUCTS[t]:
            if ft == "double":
                vals.append(rng.randint(-999, 999) / 4.0)
            else:
                lo, hi = int_range(ft)
                vals.append(rng.choice([lo, hi, rng.randint(lo, hi)]))
        img = b"".join(pack_scalar(ft, v) for (f, ft), v in zip(STRUCTS[t], vals)).hex()
        return {"py": ["struct", t, vals], "tok": "image:" + img, "img": img}
    if t == "void":
        return {"py": ["none"], "tok": "none", "img": ""}
    raise KeyError(t)


def bad_value(rng, t):
    """A value that cannot be converted to t, with its model token and the exception type of the conversion."""
    if t in INTS:
        lo, hi = int_range(t)
        return rng.choice([
            {"py": ["int", hi + 1], "tok": "int:%d" % (hi + 1), "exc": "OverflowError"},
            {"py": ["int", lo - 1], "tok": "int:%d" % (lo - 1), "exc": "OverflowError"},
            {"py": ["int", 1 << 70], "tok": "int:%d" % (1 << 70), "exc": "OverflowError"},
            {"py": ["none"], "tok": "none", "exc": "TypeError"},
            {"py": ["str", "x"], "tok": "other", "exc": "TypeError"},
            {"py": ["float", 1.5], "tok": "float", "exc": "TypeError"}])
    if t == "_Bool":
        return rng.choice([{"py": ["int", 2], "tok": "int:2", "exc": "OverflowError"},
                           {"py": ["int", -1], "tok": "int:-1", "exc": "OverflowError"},
                           {"py": ["none"], "tok": "none", "exc": "TypeError"}])
    if t == "char":
        return rng.choice([{"py": ["bytes", "6162"], "tok": "bytes:6162", "exc": "TypeError"},
                           {"py": ["int", 65], "tok": "int:65", "exc": "TypeError"},
                           {"py": ["none"], "tok": "none", "exc": "TypeError"}])
    if t == "void":
        return rng.choice([{"py": ["int", 5], "tok": "int:5", "exc": "TypeError"},
                           {"py": ["str", "x"], "tok": "other", "exc": "TypeError"}])
    # blob types
    return rng.choice([{"py": ["none"], "tok": "none", "exc": "TypeError"},
                       {"py": ["str", "x"], "tok": "other", "exc": "TypeError"}])


def build_value(ffi, lib, r):
    k = r[0]
    if k == "int":
        return r[1]
    if k == "intlike":
        return IntLike(r[1])
    if k == "bool":
        return bool(r[1])
    if k == "bytes":
        return bytes.fromhex(r[1])
    if k == "float":
        return float(r[1])
    if k == "str":
        return r[1]
    if k == "none":
        return None
    if k == "complex":
        return complex(r[1], r[2])
    if k == "ptr":
        return lib.c14_base() + r[1]
    if k == "struct":
        return ffi.new(r[1] + " *", r[2])[0]
    raise AssertionError(k)


def finalize(ffi, lib, v):
    """Fill in token and image of pointer values (they depend on the loaded module's address)."""
    if v.get("ptr") is not None and v["img"] is None:
        addr = int(ffi.cast("uintptr_t", lib.c14_base())) + v["ptr"]
        v = dict(v, img=addr.to_bytes(8, "little").hex())
        v["tok"] = "image:" + v["img"]
    return v


def really_bad(rng, t):
    while True:
        v = bad_value(rng, t)
        if v["py"] != ["none"]:        # None means "no value" for error= and for onerror's result
            return v


def small_unsigned_result(res):
    """Result types whose libffi encoding zeroes the ffi_arg before converting (the regression class of commit 36aca36)."""
    return (res in INTS and INTS[res] in (("uint", 1), ("uint", 2), ("uint", 4))) or res in ("_Bool", "char")


def gen_scenario(rng, sig):
    res = sig["res"]
    r = rng.random()
    body = {"m": "normal", "v": valid_value(rng, res)} if r < 0.4 else \
        {"m": "raise"} if r < 0.7 else {"m": "badret", "v": bad_value(rng, res)}
    r = rng.random()
    if res == "void":
        error = {"m": "absent"} if r < 0.9 else {"m": "bad", "v": really_bad(rng, res)}
    elif r < 0.4:
        error = {"m": "absent"}
    elif r < 0.93:
        error = {"m": "value", "v": valid_value(rng, res)}
    else:
        error = {"m": "bad", "v": really_bad(rng, res)}
    r = rng.random()
    if r < 0.35:
        onerr = {"m": "absent"}
    elif r < 0.5:
        onerr = {"m": "none"}
    elif r < 0.65:
        onerr = {"m": "raise"}
    elif r < (0.78 if small_unsigned_result(res) else 0.9):
        onerr = {"m": "ret", "v": valid_value(rng, res)} if res != "void" else {"m": "none"}
    else:
        onerr = {"m": "retbad", "v": really_bad(rng, res)}     # onerror's own result cannot be converted
    return {"body": body, "error": error, "onerr": onerr, "seed": rng.randrange(1 << 63)}


# --------------------------------------------------------------------------- running one case

class Unraisable:
    def __init__(self):
        self.n = 0

    def __enter__(self):
        self.old = sys.unraisablehook
        sys.unraisablehook = self.hook
        return self

    def hook(self, u):
        self.n += 1

    def __exit__(self, *a):
        sys.unraisablehook = self.old


class BodyError(ZeroDivisionError):
    pass


def run_case(ctx, ffi, lib, sig, kind, sc):
    """Returns the observation dict."""
    res, args = sig["res"], sig["args"]
    got = {}
    body_v = finalize(ffi, lib, sc["body"]["v"]) if "v" in sc["body"] else None
    err_v = finalize(ffi, lib, sc["error"]["v"]) if "v" in sc["error"] else None
    one_v = finalize(ffi, lib, sc["onerr"]["v"]) if "v" in sc["onerr"] else None
    keep = []

    def body(*a):
        # struct arguments are views of the caller's memory: take their images now
        got["imgs"] = [received_image(ffi, t, v) for t, v in zip(args, a)] if len(a) == len(args) else None
        got["calls"] = got.get("calls", 0) + 1
        if sc["body"]["m"] == "raise":
            raise BodyError("from the body")
        v = build_value(ffi, lib, body_v["py"])
        keep.append(v)
        return v

    def onerror(exc, val, tb):
        got["onerror"] = got.get("onerror", 0) + 1
        got["onerror_exc"] = exc
        if sc["onerr"]["m"] == "none":
            return None
        if sc["onerr"]["m"] == "raise":
            raise KeyError("from onerror")
        v = build_value(ffi, lib, one_v["py"])
        keep.append(v)
        return v

    kw = {}
    if sc["error"]["m"] != "absent":
        ev = build_value(ffi, lib, err_v["py"])
        keep.append(ev)
        kw["error"] = ev
    if sc["onerr"]["m"] != "absent":
        kw["onerror"] = onerror
    obs = {"created": "ok"}
    try:
        if kind == "callback":
            fn = ffi.callback(sig_decl(sig, "(*)").replace("(*)(", "(*)(", 1), body, **kw)
        else:
            ffi.def_extern(name="xp_%d" % sig["idx"], **kw)(body)
            fn = ffi.NULL
    except Exception as e:
        obs["created"] = type(e).__name__
        return obs
    alog = ffi.new("unsigned char[256]", b"\xcc" * 256)
    rlog = ffi.new("unsigned char[64]", b"\xcc" * 64)
    with Unraisable() as u:
        try:
            getattr(lib, "drv_%d" % sig["idx"])(fn, sc["seed"], alog, rlog)
            obs["leak"] = None
        except BaseException as e:
            obs["leak"] = type(e).__name__
    obs["printed"] = u.n
    obs["calls"] = got.get("calls", 0)
    obs["onerror_calls"] = got.get("onerror", 0)
    obs["onerror_exc"] = getattr(got.get("onerror_exc"), "__name__", None)
    n = sum(image_size(t) for t in args)
    obs["alog"] = bytes(ffi.buffer(alog, n)).hex()
    if got.get("imgs") is not None:
        obs["received_args"] = [i.hex() if i is not None else None for i in got["imgs"]]
    else:
        obs["received_args"] = None
    obs["rlog"] = bytes(ffi.buffer(rlog, image_size(res))).hex()
    obs["rlog_rest_untouched"] = bytes(ffi.buffer(rlog))[image_size(res):] == b"\xcc" * (64 - image_size(res))
    return obs


def risky(sig, kind):
    """Cases in which a wrong size of the generated function's stack area would smash the stack."""
    return kind == "extern" and (has_complex(sig) or sig["res"] in STRUCTS or "long double" in sig["args"])


def run_batch_forked(ctx, ffi, lib, items):
    """run_case for every (sig, kind, scenario) of `items` in forked children: a crash (stack protector abort,
    SIGSEGV) becomes the observation of the case that was running; a new child continues after it."""
    results = []
    while len(results) < len(items):
        start = len(results)
        r, w = os.pipe()
        sys.stdout.flush()
        sys.stderr.flush()
        pid = os.fork()
        if pid == 0:
            code = 3
            try:
                resource.setrlimit(resource.RLIMIT_CORE, (0, 0))
                os.close(r)
                for sig, kind, sc in items[start:]:
                    data = (json.dumps(run_case(ctx, ffi, lib, sig, kind, sc)) + "\n").encode()
                    while data:
                        n = os.write(w, data)
                        data = data[n:]
                code = 0
            finally:
                os._exit(code)
        os.close(w)
        chunks = []
        while True:
            b = os.read(r, 65536)
            if not b:
                break
            chunks.append(b)
        os.close(r)
        _, status = os.waitpid(pid, 0)
        text = b"".join(chunks).decode()
        done = [json.loads(l) for l in text.split("\n")[:-1]]       # a partial last line is dropped
        results += done
        if os.WIFSIGNALED(status):
            if len(results) < len(items):
                results.append({"crashed": "signal %d" % os.WTERMSIG(status)})
        elif os.WEXITSTATUS(status) != 0:
            raise InfraError("forked case runner failed with exit status %d" % os.WEXITSTATUS(status))
        elif len(done) != len(items) - start:
            raise InfraError("forked case runner reported %d of %d cases" % (len(done), len(items) - start))
    return results


def run_case_forked(ctx, ffi, lib, sig, kind, sc):
    return run_batch_forked(ctx, ffi, lib, [(sig, kind, sc)])[0]


def expected_result(sig, sc, ffi, lib):
    """The image the C caller must receive according to the property (None = no statement)."""
    res = sig["res"]
    if res == "void":
        return ""
    zero = "00" * image_size(res)
    if sc["body"]["m"] == "normal":
        return finalize(ffi, lib, sc["body"]["v"])["img"]
    declared = finalize(ffi, lib, sc["error"]["v"])["img"] if sc["error"]["m"] == "value" else zero
    if sc["onerr"]["m"] == "ret":
        return finalize(ffi, lib, sc["onerr"]["v"])["img"]
    return declared


def check_case(ctx, ffi, lib, sig, kind, sc, lines, plans, obs=None):
    res, args = sig["res"], sig["args"]
    small_unsigned = small_unsigned_result(res)
    case = {"sig": sig, "kind": kind, "scenario": sc, "small_unsigned": small_unsigned,
            "complex_arg_followed": kind == "extern" and complex_followed(sig)}
    if kind == "extern" and (id(lib), sig["idx"]) in _EMITTED:
        oob = oob_args(ffi, args, _EMITTED[id(lib), sig["idx"]])
        case["complex_arg_oob"] = bool(oob) and all(args[j] == "double _Complex" for j in oob)
    if obs is None:
        obs = run_case_forked(ctx, ffi, lib, sig, kind, sc) if risky(sig, kind) else run_case(ctx, ffi, lib, sig, kind, sc)
    nontrivial = bool(args) or res != "void"
    ctx.case(repr((sig["res"], sig["args"], kind, sc)) if nontrivial else None,
             sample={"sig": sig_decl(sig, "f"), "kind": kind, "body": sc["body"]["m"], "error": sc["error"]["m"],
                     "onerror": sc["onerr"]["m"]})
    ctx.count("%s:body=%s:error=%s:onerror=%s" % (kind, sc["body"]["m"], sc["error"]["m"], sc["onerr"]["m"]))
    ctx.count("res:" + ("int" if res in INTS else res))
    enc = 1 if kind == "callback" else 0
    tok = lambda v: finalize(ffi, lib, v)["tok"]
    err_tok = "-" if sc["error"]["m"] == "absent" else tok(sc["error"]["v"])
    body_tok = "raise" if sc["body"]["m"] == "raise" else "ret=" + tok(sc["body"]["v"])
    one_tok = {"absent": "absent", "none": "none", "raise": "raise"}.get(sc["onerr"]["m"]) or "ret=" + tok(sc["onerr"]["v"])
    lines.append("call %s %d %s %s %s" % (rt_token(res), enc, err_tok, body_tok, one_tok))
    ctx.count("forked" if risky(sig, kind) else "in-process")
    if "crashed" in obs:
        ctx.count("crashed")
        ctx.fail(case, "the process died (%s) while C called the extern \"Python\" function: its argument/result area "
                       "was overrun (compiled with -fstack-protector-all)" % obs["crashed"])
        plans.append((case, None))
        return
    # ---- creation
    if sc["error"]["m"] == "bad":
        want = sc["error"]["v"]["exc"]
        if obs["created"] != want:
            ctx.fail(case, "an unconvertible error= value must make the creation raise %s, got %s" % (want, obs["created"]))
        plans.append((case, "err " + obs["created"] if obs["created"] != "ok" else "created"))
        return
    if obs["created"] != "ok":
        ctx.fail(case, "creation raised %s" % obs["created"])
        plans.append((case, "err " + obs["created"]))
        return
    # ---- oracle
    if obs["leak"] is not None:
        ctx.fail(case, "an exception escaped into the C caller and surfaced as %s" % obs["leak"])
    if obs["calls"] != 1:
        ctx.fail(case, "the Python function was called %d times" % obs["calls"])
    elif obs["received_args"] is None or "".join(x or "??" for x in obs["received_args"]) != obs["alog"]:
        ctx.fail(case, "the Python function did not receive the C arguments: C passed %s, Python got %r"
                 % (obs["alog"], obs["received_args"]))
    want = expected_result(sig, sc, ffi, lib)
    if sc["onerr"]["m"] == "retbad":
        declared = finalize(ffi, lib, sc["error"]["v"])["img"] if sc["error"]["m"] == "value" else "00" * image_size(res)
        if sc["body"]["m"] == "normal":
            declared = want
        if obs["rlog"] != declared:
            ctx.fail(case, "onerror returned an unconvertible value: C received %s, the declared error value is %s"
                     % (obs["rlog"], declared))
    elif obs["rlog"] != want:
        ctx.fail(case, "C caller received %s, expected %s" % (obs["rlog"], want))
    if not obs["rlog_rest_untouched"]:
        raise InfraError("driver wrote past the result image")
    errpath = sc["body"]["m"] != "normal"
    if errpath and sc["onerr"]["m"] != "absent" and obs["onerror_calls"] != 1:
        ctx.fail(case, "onerror was called %d times" % obs["onerror_calls"])
    if not errpath and obs["onerror_calls"]:
        ctx.fail(case, "onerror was called although nothing failed")
    plans.append((case, "ok %s %d 0" % (obs["rlog"] or "-", obs["printed"])))
    # ---- slot packing (extern "Python" only)
    addr_leak = any(a == "double _Complex" and (args[j + 1] in STRUCTS or args[j + 1] == "long double")
                    for j, a in enumerate(args[:-1]))
    # (finding class: a double _Complex followed by a by-reference argument is overwritten with that argument's
    #  *address*, which the model cannot know -- no slot line then)
    if kind == "extern" and args and obs["received_args"] and all(obs["received_args"]) and not addr_leak:
        toks, pos = [], 0
        alog = bytes.fromhex(obs["alog"])
        for j, t in enumerate(args):
            n = image_size(t)
            img = alog[pos:pos + n].hex()
            pos += n
            toks.append("r:%d:%s" % (100000 + 64 * j, img) if t in STRUCTS or t == "long double" else "v:" + img)
        # (a 16-byte `v:` is a double _Complex: the model stores it in its 8-byte slot exactly as the generated code does)
        lines.append("slots 4096 " + " ".join(toks))
        plans.append((case, "ok " + " ".join(obs["received_args"])))


# --------------------------------------------------------------------------- part B: the encoder itself

ENC_TYPES = ["signed char", "unsigned char", "short", "unsigned short", "int", "unsigned int", "long",
             "unsigned long", "_Bool", "char", "float", "double", "void"]


def load_wrapper(ctx):
    so = os.path.join(ctx.scratch, "_c14wrap" + common.ext_suffix())
    if not os.path.exists(so):
        cmd = ["gcc", "-shared", "-fPIC", "-O1", "-w", "-DFFI_BUILDING=1", "-DUSE__THREAD", "-DHAVE_SYNC_SYNCHRONIZE",
               "-I" + os.path.join(common.REPO, "src/c"), "-I" + common.py_include(),
               os.path.join(common.VERIF, "csrc/fficallback_wrap.c"), "-lffi", "-o", so]
        r = common.run(cmd)
        if r.returncode != 0:
            raise InfraError("fficallback_wrap.c does not compile:\n" + r.stdout[-3000:])
    if ctx.scratch not in sys.path:
        sys.path.insert(0, ctx.scratch)
    w = importlib.import_module("_c14wrap")
    dll = ctypes.PyDLL(w.__file__)
    f = dll.verif_fficallback
    f.restype = ctypes.py_object
    f.argtypes = [ctypes.py_object, ctypes.py_object, ctypes.c_int, ctypes.py_object]
    types = {t: (w.new_void_type() if t == "void" else w.new_primitive_type(t)) for t in ENC_TYPES}
    return f, types


def gen_enc_obj(rng, t):
    """(python object recipe, model token, expected image or None, expected exception or None)"""
    r = rng.random()
    if t == "void":
        return rng.choice([(["none"], "none"), (["int", 0], "int:0"), (["str", "x"], "other")])
    if t in ("float", "double"):
        if r < 0.6:
            v = rng.randint(-8000, 8000) / 8.0
            return (["float", v], "image:" + pack_scalar(t, v).hex())
        if r < 0.75:
            n = rng.randint(-1000, 1000)
            return (["int", n], "image:" + pack_scalar(t, float(n)).hex())
        return rng.choice([(["none"], "none"), (["str", "x"], "other"), (["bytes", "31"], "bytes:31")])
    if t == "char":
        return rng.choice([(["bytes", "%02x" % rng.randrange(256)], ""), (["bytes", "6162"], ""), (["bytes", ""], ""),
                           (["int", 65], "int:65"), (["none"], "none"), (["str", "a"], "other"), (["float", 1.0], "float")])
    if t == "_Bool":
        lo, hi = 0, 1
    else:
        lo, hi = int_range(t)
    if r < 0.45:
        n = rng.choice([lo, hi, 0, 1, -1 if lo < 0 else hi, rng.randint(lo, hi)])
    elif r < 0.75:
        n = rng.choice([hi + 1, lo - 1, 1 << 63, (1 << 64), -(1 << 63) - 1, 1 << 100, hi + rng.randint(1, 1000)])
    else:
        return rng.choice([(["none"], "none"), (["str", "x"], "other"), (["float", 2.0], "float"),
                           (["bytes", "07"], "bytes:07"), (["intlike", rng.choice([lo, hi, hi + 1])], None)])
    return (["int", n], "int:%d" % n)


def part_b(ctx, n, model=True):
    import time
    t0 = time.time()
    f, types = load_wrapper(ctx)
    common.log("C14: backend wrapper built in %.1fs" % (time.time() - t0))
    lines, plans = [], []
    for _ in range(n):
        t = ctx.rng.choice(ENC_TYPES)
        rec = gen_enc_obj(ctx.rng, t)
        py, tok = rec[0], rec[1]
        if py[0] == "bytes" and not tok:
            tok = "bytes:" + (py[1] or "-")
        if py[0] == "intlike":
            tok = "intlike:%d" % py[1]
        enc = ctx.rng.randrange(2)
        init = bytes(ctx.rng.randrange(256) for _ in range(8))
        obj = build_value(None, None, py)
        exc, buf = f(types[t], obj, enc, init)
        case = {"part": "B", "type": t, "obj": py, "encode": enc, "init": init.hex()}
        ctx.case(repr((t, py, enc)), sample=case)
        ctx.count("enc:%s:%s" % (t if t in ("void", "float", "double", "char", "_Bool") else "%s%d" % INTS[t],
                                 "ok" if exc is None else exc.__name__))
        # oracle: exactly the converted value in the first sizeof(T) bytes, or an exception for unconvertible objects
        if t in INTS or t == "_Bool":
            lo, hi = (0, 1) if t == "_Bool" else int_range(t)
            if py[0] in ("int", "intlike"):
                if lo <= py[1] <= hi:
                    size = 1 if t == "_Bool" else INTS[t][1]
                    if exc is not None or buf[:size] != pack_scalar(t, py[1]):
                        ctx.fail(case, "in-range value not converted exactly: %r %s" % (exc, buf.hex()))
                elif exc is not OverflowError:
                    ctx.fail(case, "out-of-range value: expected OverflowError, got %r" % (exc,))
            elif exc is not TypeError:
                ctx.fail(case, "non-integer object: expected TypeError, got %r" % (exc,))
        lines.append("enc %s %d %s %s" % (rt_token(t), enc, tok, init.hex()))
        plans.append((case, ("ok " if exc is None else "err %s " % exc.__name__) + buf.hex()))
    if model and lines:
        out = ctx.driver(lines)
        for (case, want), got in zip(plans, out):
            if want != got:
                ctx.disagree(case, want, got, "convert_from_object_fficallback vs encodeResult")


# --------------------------------------------------------------------------- entry points

GEN_NAME = {"float _Complex": "_cffi_float_complex_t", "double _Complex": "_cffi_double_complex_t", "char *": "pointer"}


def oob_args(ffi, args, emitted):
    return [j for j, t in enumerate(args)
            if t not in STRUCTS and t != "long double" and 8 * j + ffi.sizeof(t) > emitted]


def check_area(ctx, ffi, lib, sig, lines, plans):
    """The `char a[N]` the generator emitted for xp_<i>: large enough for every store (oracle), and the model's size."""
    text = open(_CPATH[id(lib)]).read()
    m = re.search(r"\bxp_%d\([^)]*\)\n\{\n  char a\[([^\]]+)\];" % sig["idx"], text)
    if not m:
        raise InfraError("cannot find the area declaration of xp_%d in the emitted C" % sig["idx"])
    expr = m.group(1)
    res, args = sig["res"], sig["args"]
    mm = re.match(r"sizeof\((.*?)\) > (\d+) \? sizeof\((.*?)\) : (\d+)$", expr)
    if mm:
        emitted = max(ffi.sizeof(mm.group(1)), int(mm.group(2)))
    elif expr.isdigit():
        emitted = int(expr)
    else:
        raise InfraError("unexpected area size expression %r" % expr)
    _EMITTED[id(lib), sig["idx"]] = emitted
    oob = oob_args(ffi, args, emitted)
    case = {"sig": sig, "kind": "area", "emitted": emitted, "complex_arg_oob": bool(oob) and all(args[j] == "double _Complex" for j in oob)}
    ctx.case(repr(("area", res, args)), sample=None)
    ctx.count("area:%d" % emitted)
    written = 0 if res == "void" else max(ffi.sizeof(res), 8)
    if written > emitted:
        ctx.fail(case, "the backend writes up to %d result bytes into `char a[%d]` of the generated function" % (written, emitted))
    if 8 * len(args) > emitted:
        ctx.fail(case, "%d argument slots do not fit `char a[%d]`" % (len(args), emitted))
    if oob:
        ctx.fail(case, "argument %d (%s, %d bytes) is stored at offset %d past the end of `char a[%d]`"
                 % (oob[0], args[oob[0]], ffi.sizeof(args[oob[0]]), 8 * oob[0], emitted))
    if res == "void":
        spec = "void"
    elif res in STRUCTS:
        spec = "agg %d" % ffi.sizeof(res)
    else:
        spec = "prim %s %d" % (GEN_NAME.get(res, res).replace(" ", "~"), ffi.sizeof(res))
    lines.append("area %d %s" % (len(args), spec))
    plans.append((case, "ok %d %d" % (emitted, written)))


def part_a(ctx, nsigs, nscen, model=True):
    import time
    t0 = time.time()
    sigs = [gen_sig(ctx.rng, i) for i in range(nsigs)]
    ffi, lib = build_module(ctx, sigs)
    common.log("C14: module with %d signatures built in %.1fs" % (nsigs, time.time() - t0))
    lines, plans = [], []
    todo = []
    for sig in sigs:
        check_area(ctx, ffi, lib, sig, lines, plans)
        for kind in ("callback", "extern"):
            if kind == "callback" and has_complex(sig):
                continue                       # libffi closures do not take complex types
            for _ in range(nscen):
                todo.append((sig, kind, gen_scenario(ctx.rng, sig)))
    forked = [it for it in todo if risky(it[0], it[1])]
    pre = dict(zip(map(id, forked), run_batch_forked(ctx, ffi, lib, forked)))
    for it in todo:
        check_case(ctx, ffi, lib, it[0], it[1], it[2], lines, plans, obs=pre.get(id(it)))
    common.log("C14: part A cases done at %.1fs" % (time.time() - t0))
    if model and lines:
        if len(lines) != len(plans):
            raise InfraError("internal: %d lines, %d plans" % (len(lines), len(plans)))
        out = ctx.driver(lines)
        for line, (case, want), got in zip(lines, plans, out):
            if want is None:
                continue
            if want == "created":
                if got.startswith("err "):
                    ctx.disagree(case, "created", got, "creation with error= (%s)" % line)
                continue
            if want != got:
                ctx.disagree(case, want, got, line)


def translators(ctx):
    """Generated/ExternPySize.lean (size rule of the argument/result area, from recompiler.py) and
    Generated/Platform.lean (sizeof of every primitive type, by gcc): result_area_large_enough is stated over both."""
    return [externpy_size.translator(ctx), lambda: _prim_tr.translate_primitives(common.REPO),
            lambda: _prim_tr.translate_platform(common.REPO, ctx.scratch)]


def _explore(ctx):
    EXPLORE_COMPLEX_ARG[0] = any(f["class"] == "C14/extern-python-double-complex-argument" for f in ctx.open_findings)


def correspond(ctx):
    _explore(ctx)
    for _ in range(ctx.n(1, 6)):
        part_a(ctx, ctx.n(30, 40), ctx.n(8, 25))
    part_b(ctx, ctx.n(1500, 20000))


def search(ctx):
    _explore(ctx)
    for _ in range(ctx.n(2, 8)):
        part_a(ctx, 40, ctx.n(20, 40), model=False)
    part_b(ctx, ctx.n(6000, 60000), model=False)


def check_witness(ctx, finding):
    import cffi
    if finding["class"] == "C14/extern-python-double-complex-argument":
        if ctx.scratch not in sys.path:
            sys.path.insert(0, ctx.scratch)
        name = "_c14_witness_%d_%d" % (ctx.seed, os.getpid())
        ffi = cffi.FFI()
        ffi.cdef('extern "Python" double _Complex wf(int, double _Complex, int); double _Complex wcall(void);')
        ffi.set_source(name, "static double _Complex wf(int, double _Complex, int);\n"
                             "double _Complex wcall(void) { double _Complex z; __real__ z = 2.0; __imag__ z = 3.0; return wf(1, z, 4); }\n")
        cpath = os.path.join(ctx.scratch, name + ".c")
        _quiet(lambda: ffi.emit_c_code(cpath))
        common.compile_ext(cpath, ctx.scratch, name)
        m = importlib.import_module(name)
        got = []

        @m.ffi.def_extern()
        def wf(a, z, b):
            got.append((a, z, b))
            return z
        m.lib.wcall()
        return got != [(1, complex(2.0, 3.0), 4)]
    return None


def _num(v):
    """Replay files store integers beyond 2**62 as decimal strings (common.jsonable)."""
    if isinstance(v, str) and re.match(r"^-?\d+$", v):
        return int(v)
    if isinstance(v, list):
        return [_num(x) for x in v]
    return v


def _fix_py(py):
    if py[0] in ("int", "intlike"):
        return [py[0], _num(py[1])]
    if py[0] == "struct":
        return [py[0], py[1], _num(py[2])]
    return py


def _fix_scenario(sc):
    for part in ("body", "error", "onerr"):
        if "v" in sc[part]:
            sc[part]["v"]["py"] = _fix_py(sc[part]["v"]["py"])
    sc["seed"] = _num(sc["seed"])
    return sc


def replay(ctx, obj):
    case = obj["case"]
    if case.get("part") == "B":
        case["obj"] = _fix_py(case["obj"])
        f, types = load_wrapper(ctx)
        exc, buf = f(types[case["type"]], build_value(None, None, case["obj"]), case["encode"], bytes.fromhex(case["init"]))
        print("convert_from_object_fficallback(%s, %r, encode=%d) on %s -> %r %s"
              % (case["type"], case["obj"], case["encode"], case["init"], exc, buf.hex()))
        return 0
    sig = case["sig"]
    _explore(ctx)
    if case.get("kind") == "area":
        ffi, lib = build_module(ctx, [sig])
        check_area(ctx, ffi, lib, sig, [], [])
        print(sig_decl(sig, "xp_%d" % sig["idx"]), "-> char a[%d]" % case["emitted"])
        for f in ctx.failures:
            print("FAIL:", f["detail"])
        return 1 if ctx.failures else 0
    case["scenario"] = _fix_scenario(case["scenario"])
    ffi, lib = build_module(ctx, [sig])
    check_area(ctx, ffi, lib, sig, [], [])
    lines, plans = [], []
    check_case(ctx, ffi, lib, sig, case["kind"], case["scenario"], lines, plans)
    print(sig_decl(sig, "f"), case["kind"], case["scenario"])
    print(run_case_forked(ctx, ffi, lib, sig, case["kind"], case["scenario"]))
    for f in ctx.failures:
        print("FAIL:", f["detail"])
    return 1 if ctx.failures else 0
