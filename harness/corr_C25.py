"""C25 -- every declared name is found by the runtime lookup of generated tables.

Theorems (lean/CffiVerif/Props/C25.lean): search_complete, search_sound,
search_undeclared, python_sort_is_byte_lex over the model of `search_sorted`.

Tie to the code:
  A. `search_sorted` itself, compiled from /repo/src/c/parse_c_type.c inside
     csrc/parse_c_type_wrap.c, against the model on random identifier tables
     (sorted the way the generator sorts: Python `sort(key=name)`).
  B. modules produced by the real code generator (out-of-line ABI modules, plus
     an API-mode extension) with random identifier sets: every declared
     typedef / struct tag / enum tag / constant is looked up through the public
     API and must resolve to its own entry; near-miss undeclared names must not
     be found.  The tables of the generated module are also fed to the model.
     Typedef-named anonymous structs/unions (tag "$name", including names that start with the letters
     struct/union/enum and whose remainder is another declared tag) have their fields completed, which
     re-looks the tag up by name through _unrealize_name.
  C. `_realize_name` / `_unrealize_name` (text of the two functions taken from realize_c_type.c and
     compiled unmodified) against their models on tags and names of every shape.
"""
import ast
import ctypes
import importlib
import os
import re
import sys

import common
from common import InfraError

MANIFEST = {
    "text": "Kernel-checked theorems that the model of search_sorted finds every declared name at its own index and "
            "no undeclared one, for every strictly sorted NUL-free table of any size (search_complete, search_sound, "
            "search_undeclared; the loop condition, midpoint, tests and interval updates inside the model are regenerated "
            "from parse_c_type.c on every run), that Python's sort order on ASCII identifiers is the byte order strncmp uses, and that "
            "_unrealize_name inverts _realize_name for every space-free tag (unrealize_realize, unrealize_typedef_name; keyword "
            "literals, lengths, offsets and the '$'-test regenerated from realize_c_type.c), so the lazy struct completion "
            "searches the table for the tag the entry was stored under; "
            "the model is tied to the code by running the repo's own search_sorted and name-mapping functions (compiled unmodified) and real "
            "generated modules against it on random identifier sets.",
    "note": "Trusted: Lean kernel; glibc strncmp; the correspondence harness; int overflow of left+right (> 2^30 entries) "
            "not modelled; non-ASCII identifiers not modelled (pycparser rejects them).",
    "technique": "Lean 4 proof (induction over the binary-search interval) + differential correspondence with the compiled search_sorted and generated modules",
}

RULE = ("tables of 1..40 distinct identifiers built from shared stems (prefix-of-one-another, "
        "differ-after-common-prefix, mixed case/digits/underscore); queries = every declared name + "
        "near-miss undeclared names (proper prefixes, one-char extensions, last-char changes); "
        "a case is non-trivial when the table has >= 2 names sharing a prefix with the query; "
        "distinct = distinct (table, query) pairs")
ASSUMPTIONS = ["strncmp/strlen of glibc", "table sizes < 2^30 (int arithmetic of left+right not modelled)"]

sys.path.insert(0, os.path.join(common.VERIF, "translate"))


def translators(ctx):
    import search_sorted
    import realize_name
    return [search_sorted.translator, realize_name.translator]


ALPHA = "abAB_01zZ"
KEYWORDS = set("""auto break case char const continue default do double else enum extern float for goto if
int long register return short signed sizeof static struct switch typedef union unsigned void volatile while
inline restrict bool FILE""".split())


def gen_names(rng, n):
    names = set()
    stems = ["".join(rng.choice(ALPHA) for _ in range(rng.randint(1, 3))) for _ in range(rng.randint(1, 4))]
    tries = 0
    while len(names) < n and tries < 20 * n + 50:
        tries += 1
        r = rng.random()
        if names and r < 0.45:
            base = rng.choice(sorted(names))
            k = rng.random()
            if k < 0.5:
                cand = base + rng.choice(ALPHA)
            elif k < 0.8 and len(base) > 1:
                cand = base[:-1] + rng.choice(ALPHA)
            else:
                cand = base[:rng.randint(1, len(base))]
        else:
            cand = rng.choice(stems) + "".join(rng.choice(ALPHA) for _ in range(rng.randint(0, 3)))
        if cand[0] in "01" or cand in KEYWORDS or cand.startswith("__") or cand.startswith("_cffi"):
            cand = "q" + cand
        if cand in KEYWORDS:
            continue
        names.add(cand)
    return sorted(names)       # Python str order, as recompiler.py sorts


def near_misses(rng, names, k):
    s = set(names)
    out = set()
    for nm in names:
        for cand in (nm[:-1], nm + rng.choice(ALPHA), nm[:-1] + rng.choice(ALPHA), nm + "_", nm.swapcase()):
            if cand and cand not in s and cand not in KEYWORDS and cand[0] not in "01":
                out.add(cand)
    out = sorted(out)
    rng.shuffle(out)
    return out[:k]


def hx(s):
    return s.encode("ascii").hex() or "-"


def shares_prefix(names, q):
    return sum(1 for nm in names if nm[:1] == q[:1]) >= 2


# ---------------------------------------------------------------- part A

def load_wrapper(ctx):
    so = os.path.join(ctx.scratch, "parse_c_type_wrap.so")
    if not os.path.exists(so):
        common.compile_shared(os.path.join(common.VERIF, "csrc/parse_c_type_wrap.c"), so,
                              extra=["-I" + os.path.join(common.REPO, "src/c")])
    lib = ctypes.CDLL(so)
    lib.verif_search_sorted.argtypes = [ctypes.POINTER(ctypes.c_char_p), ctypes.c_int,
                                        ctypes.c_char_p, ctypes.c_size_t]
    lib.verif_search_sorted.restype = ctypes.c_int
    return lib


def impl_search(lib, names, q):
    arr = (ctypes.c_char_p * max(1, len(names)))(*[n.encode() for n in names])
    b = q.encode()
    # the search string is NOT NUL-terminated at search_len in the callers: pad with junk
    return lib.verif_search_sorted(arr, len(names), b + b"Zz", len(b))


def impl_search_all(ctx, work):
    """Run the compiled search_sorted on every (table, queries) item in a forked child, so that a
    non-terminating or crashing loop is a reported failing input instead of a hung / dead check.
    Returns a list of result lists (None for the item in flight when the child died or hung)."""
    import json
    import select
    import signal
    rfd, wfd = os.pipe()
    pid = os.fork()
    if pid == 0:
        try:
            os.close(rfd)
            lib = load_wrapper(ctx)
            with os.fdopen(wfd, "w") as w:
                for names, queries in work:
                    w.write(json.dumps([impl_search(lib, names, q) for q in queries]) + "\n")
                    w.flush()
        finally:
            os._exit(0)
    os.close(wfd)
    out, buf = [], b""
    deadline_per_item = 20.0
    alive = True
    while len(out) < len(work) and alive:
        r, _, _ = select.select([rfd], [], [], deadline_per_item)
        if not r:
            os.kill(pid, signal.SIGKILL)
            out.append("hang")
            alive = False
            break
        chunk = os.read(rfd, 1 << 16)
        if not chunk:
            out.append("died")
            alive = False
            break
        buf += chunk
        while b"\n" in buf:
            line, buf = buf.split(b"\n", 1)
            out.append(json.loads(line))
    os.close(rfd)
    os.waitpid(pid, 0)
    return out


def part_a(ctx, ntables, oracle_only=False):
    work = []
    for _ in range(ntables):
        names = gen_names(ctx.rng, ctx.rng.randint(1, 40))
        work.append((names, list(names) + near_misses(ctx.rng, names, 12)))
    results = impl_search_all(ctx, work)
    lines, expect = [], []
    for (names, queries), res in zip(work, results):
        if res in ("hang", "died"):
            case = {"part": "A", "table": names, "query": queries[0], "queries": queries}
            ctx.case((tuple(names), "liveness"), sample=case)
            ctx.fail(case, "search_sorted %s on this table (one of the listed queries)" %
                     ("does not terminate" if res == "hang" else "crashed the process"))
            break
        lines.append("table " + " ".join(hx(n) for n in names))
        expect.append(None)
        for q, got in zip(queries, res):
            want = names.index(q) if q in names else -1
            case = {"part": "A", "table": names, "query": q}
            ctx.case((tuple(names), q) if shares_prefix(names, q) else None, sample=case)
            ctx.count("A:declared" if q in names else "A:undeclared")
            if got != want:
                ctx.fail(case, "search_sorted returned %d, the declared index is %d" % (got, want))
            lines.append("search " + hx(q))
            expect.append((case, got))
    if oracle_only:
        return
    out = ctx.driver(lines)
    for o, e in zip(out, expect):
        if e is None:
            continue
        case, got = e
        if o != "ok %d" % got:
            ctx.disagree(case, got, o, "search_sorted vs model")


# ---------------------------------------------------------------- part B

def make_cdef(rng, nmax):
    consts = gen_names(rng, rng.randint(1, nmax))
    types = ["T" + n for n in gen_names(rng, rng.randint(1, nmax))]
    stags = gen_names(rng, rng.randint(1, nmax))
    etags = gen_names(rng, rng.randint(1, nmax))
    # all identifiers of the "globals" namespace must be distinct from typedef names (ordinary identifiers)
    tset = set(types)
    consts = [c for c in consts if c not in tset] or ["k_only"]
    src = []
    for i, c in enumerate(consts):
        src.append("#define %s %d" % (c, i + 1000))
    for i, t in enumerate(types):
        src.append("typedef int %s[%d];" % (t, i + 1))
    for i, s in enumerate(stags):
        src.append("struct %s { char x[%d]; };" % (s, i + 1))
    for i, e in enumerate(etags):
        src.append("enum %s { %s = %d };" % (e, "ENUMV_%d_" % i + e, i + 5))
    extra = []
    # names the code generator adds by itself: the implicit 'FILE' typedef / 'struct _IO_FILE',
    # '$'-names of anonymous aggregates and enums
    if rng.random() < 0.6:
        extra.append("int c25_uses_file(FILE *);")
    if rng.random() < 0.4:
        extra.append("typedef struct { char y[3]; } %s;" % ("T" + rng.choice(ALPHA) + "anon"))
    if rng.random() < 0.3:
        extra.append("typedef enum { C25_ANON_A, C25_ANON_B } c25_anon_enum_t;")
    # typedef-named anonymous aggregates (tag "$name"): names that merely start with the letters
    # struct / union / enum, next to a declared tag equal to the remainder ("struct_pt" + "struct pt")
    anons = []
    used = tset | set(consts)
    for j in range(rng.randint(1, 3)):
        kw = rng.choice(["struct", "union", "enum", "T"])
        rest = rng.choice(stags) if (stags and rng.random() < 0.6) else "".join(rng.choice(ALPHA) for _ in range(2))
        nm = kw + rng.choice(["_", "", "s", "d"]) + rest
        if nm in used or nm in KEYWORDS:
            continue
        used.add(nm)
        agg = rng.choice(["struct", "union"])
        fields = ["c25f_%d_%d" % (j, i) for i in range(rng.randint(1, 3))]
        src.append("typedef %s { %s } %s;" % (agg, " ".join("short %s;" % f for f in fields), nm))
        anons.append([nm, fields])
        if kw != "T" and nm[len(kw) + 1:] and rng.random() < 0.7:
            other = nm[len(kw) + 1:]          # what is left after chopping "kw" + one character
            if other not in stags and other not in KEYWORDS and other[0] not in "01":
                stags = stags + [other]
                src.append("struct %s { char x[%d]; };" % (other, len(stags)))
    return {"consts": consts, "types": types, "stags": stags, "etags": etags, "extra": extra, "anons": anons,
            "cdef": "\n".join(src + extra) + "\n"}


def module_tables(pysrc):
    """The name tables of an emitted out-of-line module, in table order."""
    tree = ast.parse(pysrc)
    call = [n for n in ast.walk(tree) if isinstance(n, ast.Call) and getattr(n.func, "attr", "") == "FFI"][0]
    kw = {k.arg: ast.literal_eval(k.value) for k in call.keywords}
    tabs = {}
    tabs["globals"] = [g[4:].split(b"\0")[0] for g in kw.get("_globals", ())[0::2]]
    tabs["typenames"] = [t[4:] for t in kw.get("_typenames", ())]
    tabs["struct_unions"] = [s[0][8:] for s in kw.get("_struct_unions", ())]
    tabs["enums"] = [e[8:].split(b"\0")[0] for e in kw.get("_enums", ())]
    return tabs


def c_module_tables(csrc):
    """The name tables of an emitted API-mode C source, in table order."""
    tabs = {}
    for key, decl in (("globals", "_cffi_globals"), ("typenames", "_cffi_typenames"),
                      ("struct_unions", "_cffi_struct_unions"), ("enums", "_cffi_enums")):
        m = re.search(r"%s\[\] = \{(.*?)\n\};" % decl, csrc, re.S)
        tabs[key] = [x.encode() for x in re.findall(r'^\s*\{ "([^"]*)"', m.group(1), re.M)] if m else []
    return tabs


def check_sorted(ctx, d, tabs, mode):
    """StrictSorted (byte order) is the hypothesis under which search_complete was proved: a generated
    table that violates it is a broken tie between model and code (not by itself a violation)."""
    for key, tab in tabs.items():
        ctx.count("sorted-check:%s:%s" % (mode, key))
        for a, b in zip(tab, tab[1:]):
            if not a < b:
                ctx.disagree({"part": "B", "mode": mode, "table": key, "names": [t.decode() for t in tab],
                              "cdef": d["cdef"]}, "emitted table order", "StrictSorted required",
                             "generated table %s is not strictly sorted: %r before %r" % (key, a, b))
                break


def forked(fn, timeout=60.0):
    """Run fn() in a forked child and return its JSON-able result; "hang" / "died" when the child does not
    finish (an implementation that loops forever or crashes must become a failing input, not a dead check)."""
    import json
    import select
    import signal
    rfd, wfd = os.pipe()
    pid = os.fork()
    if pid == 0:
        try:
            os.close(rfd)
            with os.fdopen(wfd, "w") as w:
                w.write(json.dumps(fn()))
        finally:
            os._exit(0)
    os.close(wfd)
    buf = b""
    res = None
    while True:
        r, _, _ = select.select([rfd], [], [], timeout)
        if not r:
            os.kill(pid, signal.SIGKILL)
            res = "hang"
            break
        chunk = os.read(rfd, 1 << 16)
        if not chunk:
            break
        buf += chunk
    os.close(rfd)
    os.waitpid(pid, 0)
    if res is None:
        try:
            res = json.loads(buf)
        except ValueError:
            res = "died"
    return res


def lookup_plan(ctx, d, has_lib):
    """(kind, name, declared, want) for every declared name and for near-miss undeclared names."""
    plan = []
    for kind, key in (("const", "consts"), ("const-lib", "consts"), ("const-arraylen", "consts"),
                      ("typedef", "types"), ("struct", "stags"), ("enum", "etags")):
        names = d[key]
        if not has_lib and kind == "const-lib":
            continue
        for i, n in enumerate(names):
            plan.append((kind, n, True, i + 1000 if kind.startswith("const") else i))
            if kind == "struct":
                plan.append(("struct-fields", n, True, ["x"]))
        for n in near_misses(ctx.rng, names, 8):
            if key == "consts" and (n in d["types"] or n.startswith("ENUMV_")):
                continue
            if key == "types" and not n.startswith("T"):
                continue
            plan.append((kind, n, False, None))
    for nm, fields in d.get("anons", ()):
        plan.append(("anon-fields", nm, True, fields))
    return plan


def lookup_run(plan, ffi, lib):
    """Executed in the forked child: the raw observations."""
    err = ffi.error
    fns = {
        "const": lambda n: ffi.integer_const(n),
        "const-lib": lambda n: getattr(lib, n),
        "const-arraylen": lambda n: ffi.sizeof(ffi.typeof("char[%s]" % n)),
        "typedef": lambda n: ffi.sizeof(ffi.typeof(n)) // 4 - 1,
        "struct": lambda n: ffi.sizeof(ffi.typeof("struct " + n)) - 1,
        "enum": lambda n: list(ffi.typeof("enum " + n).elements)[0] - 5,
        "struct-fields": lambda n: [f for f, _ in ffi.typeof("struct " + n).fields],
        "anon-fields": lambda n: [f for f, _ in ffi.typeof(n).fields],
    }
    out = []
    for kind, name, declared, want in plan:
        try:
            got = fns[kind](name)
            found = True
        except (err, AttributeError):
            got, found = None, False
        out.append([found, got])
    return out


def lookup_all(ctx, d, ffi, lib, mode):
    """Property oracle on the real implementation: each declared name resolves to its own entry,
    near-miss undeclared names are not found."""
    plan = lookup_plan(ctx, d, lib is not None)
    obs = forked(lambda: lookup_run(plan, ffi, lib))
    keyof = {"const": "consts", "const-lib": "consts", "const-arraylen": "consts", "typedef": "types",
             "struct": "stags", "enum": "etags", "struct-fields": "stags", "anon-fields": "anons"}
    if obs in ("hang", "died"):
        # find the single lookup that does it, so that the failing input names it
        for item in plan:
            if forked(lambda: lookup_run([item], ffi, lib)) in ("hang", "died"):
                case = {"part": "B", "mode": mode, "kind": item[0], "name": item[1], "declared": True,
                        "cdef": d["cdef"]}
                ctx.case((mode, "liveness", item[1]), sample=None)
                ctx.fail(case, "the runtime lookup of declared %s %r in the generated module %s" %
                         (item[0], item[1], "does not terminate" if obs == "hang" else "crashed the process"))
                return []
        case = {"part": "B", "mode": mode, "kind": "liveness", "name": plan[0][1], "declared": True, "cdef": d["cdef"]}
        ctx.case((mode, "liveness"), sample=None)
        ctx.fail(case, "a runtime name lookup in the generated module %s" %
                 ("does not terminate" if obs == "hang" else "crashed the process"))
        return []
    res = []
    for (kind, name, declared, want), (found, got) in zip(plan, obs):
        case = {"part": "B", "mode": mode, "kind": kind, "name": name, "declared": declared, "cdef": d["cdef"]}
        allnames = [a[0] if isinstance(a, list) else a for a in d[keyof[kind]]]
        ctx.case((mode, kind, tuple(allnames), name) if shares_prefix(allnames, name) else None, sample=None)
        ctx.count("B:%s:%s" % (kind, "declared" if declared else "undeclared"))
        if declared and (not found or got != want):
            ctx.fail(case, "declared name not resolved to its own entry: got %r, want %r" % (got, want))
        if not declared and found:
            ctx.fail(case, "undeclared name was found: %r" % (got,))
        res.append((kind, name, found))
    return res


def part_b(ctx, nmods, oracle_only=False, api=False):
    import cffi
    lines, expect = [], []
    for k in range(nmods):
        d = make_cdef(ctx.rng, 12)
        ffi = cffi.FFI()
        ffi.cdef(d["cdef"])
        modname = "_c25_mod_%d_%d" % (ctx.seed, len(os.listdir(ctx.scratch)))
        if api and k == 0:
            csource = "#include <stdio.h>\n" + d["cdef"].replace("int c25_uses_file(FILE *);",
                                                                 "int c25_uses_file(FILE *f) { return 0; }")
            ffi.set_source(modname, csource)
            cpath = os.path.join(ctx.scratch, modname + ".c")
            _quiet(lambda: ffi.emit_c_code(cpath))
            common.compile_ext(cpath, ctx.scratch, modname)
            m = importlib.import_module(modname)
            lookup_all(ctx, d, m.ffi, m.lib, "api")
            check_sorted(ctx, d, c_module_tables(open(cpath).read()), "api")
            continue
        ffi.set_source(modname, None)
        path = os.path.join(ctx.scratch, modname + ".py")
        _quiet(lambda: ffi.emit_python_code(path))
        m = importlib.import_module(modname)
        lib = m.ffi.dlopen(None)
        res = lookup_all(ctx, d, m.ffi, lib, "abi")
        if oracle_only:
            continue
        tabs = module_tables(open(path).read())
        check_sorted(ctx, d, tabs, "abi")
        tabof = {"const": "globals", "const-lib": "globals", "const-arraylen": "globals",
                 "typedef": "typenames", "struct": "struct_unions", "enum": "enums"}
        for kind, name, found in res:
            if kind not in tabof:
                continue
            tab = tabs[tabof[kind]]
            lines.append("table " + " ".join(t.hex() or "-" for t in tab))
            expect.append(None)
            lines.append("search " + hx(name))
            expect.append(({"part": "B", "kind": kind, "name": name, "table": [t.decode() for t in tab]}, found))
    if lines:
        out = ctx.driver(lines)
        for o, e in zip(out, expect):
            if e is None:
                continue
            case, found = e
            mfound = o != "ok -1"
            if mfound != found:
                ctx.disagree(case, found, o, "generated table lookup vs model")


# ---------------------------------------------------------------- part C

NAME_WRAP = """
void verif_realize(char *t, const char *p, const char *s) { _realize_name(t, p, s); }
void verif_unrealize(char *t, const char *s) { _unrealize_name(t, s); }
"""


def load_names(ctx):
    import realize_name
    so = os.path.join(ctx.scratch, "realize_name_wrap.so")
    if not os.path.exists(so):
        c = os.path.join(ctx.scratch, "realize_name_wrap.c")
        with open(c, "w") as f:
            f.write("#include <string.h>\n" + "".join(realize_name.functions_text(common.REPO)) + NAME_WRAP)
        common.compile_shared(c, so)
    lib = ctypes.CDLL(so)
    lib.verif_realize.argtypes = [ctypes.c_char_p, ctypes.c_char_p, ctypes.c_char_p]
    lib.verif_realize.restype = None
    lib.verif_unrealize.argtypes = [ctypes.c_char_p, ctypes.c_char_p]
    lib.verif_unrealize.restype = None
    return lib


KW = ["struct", "union", "enum"]


def name_shapes(rng, n):
    """Identifiers of every shape the mapping distinguishes: plain, keyword-prefixed without a space
    (struct_pt, unionX, enumerated), a keyword alone with a suffix char, short prefixes of keywords."""
    out = ["struct_pt", "structure_t", "union_val_t", "unionized", "enumerated_t", "enum_", "structs",
           "stru", "unio", "enu", "s", "u", "e", "pt", "x1", "_", "struc_t", "uni0n", "Struct_a", "xstruct"]
    for _ in range(n):
        r = rng.random()
        tail = "".join(rng.choice(ALPHA + "ptxyz") for _ in range(rng.randint(0, 5)))
        if r < 0.5:
            out.append(rng.choice(KW) + rng.choice(ALPHA + "sdex") + tail)
        elif r < 0.7:
            k = rng.choice(KW)
            out.append(k[:rng.randint(1, len(k))] + tail)
        else:
            out.append(rng.choice("abpqSUE_") + tail)
    return [x for x in out if x not in KEYWORDS]


def part_c(ctx, n, oracle_only=False):
    lib = load_names(ctx)
    names = name_shapes(ctx.rng, n)

    def run():
        res = []
        for nm in names:
            row = []
            for tag in (nm, "$" + nm, "$%d" % (len(nm) + 1), "$$" + nm, "$"):
                for pfx in ("struct ", "union "):
                    t = ctypes.create_string_buffer(len(tag) + 40)
                    lib.verif_realize(t, pfx.encode(), tag.encode())
                    realized = t.value.decode("latin-1")
                    t2 = ctypes.create_string_buffer(len(realized) + 40)
                    lib.verif_unrealize(t2, realized.encode("latin-1"))
                    row.append([pfx, tag, realized, t2.value.decode("latin-1")])
            t3 = ctypes.create_string_buffer(len(nm) + 40)
            lib.verif_unrealize(t3, ("enum " + nm).encode())
            row.append(["enum ", nm, "enum " + nm, t3.value.decode("latin-1")])
            res.append(row)
        return res

    obs = forked(run)
    if obs in ("hang", "died"):
        case = {"part": "C", "names": names}
        ctx.case(("C", "liveness"), sample=case)
        ctx.fail(case, "_realize_name/_unrealize_name %s on one of these names" %
                 ("does not terminate" if obs == "hang" else "crashed the process"))
        return
    lines, expect = [], []
    for row in obs:
        for pfx, tag, realized, back in row:
            case = {"part": "C", "prefix": pfx, "tag": tag, "realized": realized, "unrealized": back}
            ctx.case(("C", pfx, tag), sample=case)
            ctx.count("C:" + ("keyword-prefixed" if any(tag.lstrip("$").startswith(k) for k in KW) else "other"))
            # property oracle: the name under which the entry is looked up again is the tag it was stored under
            if back != tag:
                ctx.fail(case, "the table tag %r is realized as %r, which maps back to %r: the runtime lookup "
                               "searches the struct_unions table for the wrong name" % (tag, realized, back))
            if pfx != "enum ":
                lines.append("realize %s %s" % (hx(pfx), hx(tag)))
                expect.append((case, hx(realized)))
            lines.append("unrealize " + hx(realized))
            expect.append((case, hx(back)))
    if oracle_only:
        return
    out = ctx.driver(lines)
    for o, (case, want) in zip(out, expect):
        if o != "ok " + want:
            ctx.disagree(case, want, o, "_realize_name/_unrealize_name vs model")


def _quiet(fn):
    """cffi prints 'generating ...' on stdout; keep the check's stdout clean."""
    so = os.dup(1)
    devnull = os.open(os.devnull, os.O_WRONLY)
    sys.stdout.flush()
    os.dup2(devnull, 1)
    try:
        return fn()
    finally:
        sys.stdout.flush()
        os.dup2(so, 1)
        os.close(devnull)
        os.close(so)


# ---------------------------------------------------------------- entry points

def correspond(ctx):
    sys.path.insert(0, ctx.scratch)
    part_a(ctx, ctx.n(150, 5000))
    part_c(ctx, ctx.n(200, 5000))
    part_b(ctx, ctx.n(14, 200), api=True)


def search(ctx):
    part_a(ctx, ctx.n(1500, 20000), oracle_only=True)
    part_c(ctx, ctx.n(2000, 20000), oracle_only=True)
    part_b(ctx, ctx.n(40, 400), oracle_only=True, api=True)


def replay(ctx, obj):
    case = obj["case"]
    if case.get("part") == "A":
        lib = load_wrapper(ctx)
        got = impl_search(lib, case["table"], case["query"])
        want = case["table"].index(case["query"]) if case["query"] in case["table"] else -1
        print("search_sorted(%r, %r) = %d, declared index %d" % (case["table"], case["query"], got, want))
        return 0 if got == want else 1
    if case.get("part") == "C":
        lib = load_names(ctx)
        t = ctypes.create_string_buffer(len(case["tag"]) + 40)
        if case["prefix"] == "enum ":
            realized = "enum " + case["tag"]
        else:
            lib.verif_realize(t, case["prefix"].encode(), case["tag"].encode())
            realized = t.value.decode("latin-1")
        t2 = ctypes.create_string_buffer(len(realized) + 40)
        lib.verif_unrealize(t2, realized.encode("latin-1"))
        print("tag %r -> %r -> %r" % (case["tag"], realized, t2.value.decode("latin-1")))
        return 0 if t2.value.decode("latin-1") == case["tag"] else 1
    import cffi
    sys.path.insert(0, ctx.scratch)
    ffi = cffi.FFI()
    ffi.cdef(case["cdef"])
    ffi.set_source("_c25_replay", None)
    path = os.path.join(ctx.scratch, "_c25_replay.py")
    _quiet(lambda: ffi.emit_python_code(path))
    m = importlib.import_module("_c25_replay")
    name, kind = case["name"], case["kind"]
    try:
        if kind.startswith("const"):
            r = m.ffi.integer_const(name)
        elif kind == "typedef":
            r = m.ffi.typeof(name)
        elif kind in ("anon-fields", "struct-fields"):
            tn = name if kind == "anon-fields" else "struct " + name
            r = forked(lambda: [f for f, _ in m.ffi.typeof(tn).fields])
            want = [f for f in re.findall(r"c25f_\d+_\d+", re.search(
                r"typedef (?:struct|union) \{([^}]*)\} %s;" % re.escape(name), case["cdef"]).group(1))] \
                if kind == "anon-fields" else ["x"]
            print("fields of %r: %r, declared %r" % (tn, r, want))
            return 0 if r == want else 1
        else:
            r = m.ffi.typeof(kind + " " + name)
        found = True
    except (m.ffi.error, AttributeError) as e:
        r, found = e, False
    print("lookup of %s %r (declared=%s): found=%s %r" % (kind, name, case["declared"], found, r))
    return 0 if found == case["declared"] else 1
