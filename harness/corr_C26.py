"""C26 -- ffi.init_once runs the initializer once under any interleaving.

Theorems (lean/CffiVerif/Props/C26.lean) over the transition system
lean/CffiVerif/Model/InitOnce.lean (DESIGN.md Appendix A): the inductive
invariant (inv_next, reachable_inv) and the clauses mutex, at_most_one_success,
returned_value_is_the_success, no_start_after_done, raise_caches_nothing,
no_deadlock (+ step_advances: no livelock), for any number of calls.

Tie to the code: both real implementations -- the pure-Python
cffi.FFI().init_once (api.py) and the C ffi_init_once (ffi_obj.c) reached through
_cffi_backend.FFI() and through the ffi of an out-of-line module -- are run under
*forced* schedules.  Every initialiser blocks on its own threading.Event; the
harness decides when each call starts and when (and how: return / raise) the
initialiser that is currently running finishes, and after each action waits
(condition variable, with timeout) until the system is quiescent again: some
initialiser is running, or every started call has finished.  All schedules of
that kind for 1..N calls are enumerated (N = 4 quick, 5 thorough), plus unforced
stress runs.  Each run yields a totally ordered trace of (call, f-entry, f-return
value / f-raise, outcome of the call); it is checked
  (a) against the property's clauses directly (oracle, no model involved), and
  (b) by the Lean driver, which replays it through InitOnce.next and accepts it
      iff it is the observable projection of an execution of the model.
No sleeps are used for ordering; every wait has a timeout.  A wait that times out
while no initialiser is running and some call is unfinished is the property's
"blocks forever" clause failing; any other timeout is an infrastructure error.
"""
import importlib
import os
import random
import sys
import threading

import common
from common import InfraError

MANIFEST = {
    "text": "Kernel-checked inductive invariant of the init_once transition system (any number of concurrent calls, any "
            "interleaving, initialisers that return or raise) with the property's clauses as corollaries: mutual exclusion of "
            "initialisers, at most one normal completion, every normal return returns it, none starts after it, a raising "
            "call caches nothing and frees the lock, no deadlock / livelock; tied to the code by forcing every schedule of "
            "up to 4 (thorough: 5) calls on the pure-Python and the C implementation and having the model accept each "
            "observed event trace, with the clauses also checked directly on the traces.",
    "note": "Trusted: Lean kernel; the GIL making the modelled steps atomic (free-threaded build not modelled); CPython dict "
            "setdefault/lock semantics; the harness's trace recording (events are appended under one lock). The tag is a "
            "hashable with ordinary __eq__; FFI objects are independent.",
    "technique": "Lean 4 proof (inductive invariant over all reachable states of a transition system) + trace acceptance by "
                 "the model for exhaustively forced schedules of both implementations + direct trace oracle",
}

RULE = ("a schedule = a sequence of actions S (start the next call) and R-ret / R-raise (let the running initialiser return / "
        "raise), all valid sequences for n calls enumerated from an abstract scheduler state; each is run on 3 implementations "
        "(pure Python, C via _cffi_backend.FFI(), C via an out-of-line module's ffi) with a fresh tag; stress runs start k "
        "calls behind a barrier with random outcomes; one case = one run; non-trivial = at least one call started while an "
        "initialiser was running, or a call started after a raise; distinct = distinct (implementation, schedule)")
ASSUMPTIONS = ["GIL build of CPython (steps between release points are atomic)", "tags with ordinary __hash__/__eq__"]
CLASSES = {}

WAIT = 20.0          # seconds; every wait in this file is bounded by it


class InitErr(Exception):
    """what a raising initialiser raises; carries the id of its call"""
    def __init__(self, cid):
        Exception.__init__(self, cid)
        self.cid = cid


class Deadlock(Exception):
    pass


# ---------------------------------------------------------------- schedules

def enumerate_schedules(n):
    """All valid action sequences for n calls.  Abstract state: (started, running, done, waiters)."""
    out = []

    def go(started, running, done, waiters, acc):
        if started == n and not running:
            out.append(list(acc))
            return
        if started < n:
            if done:
                go(started + 1, running, done, waiters, acc + ["S"])
            elif not running:
                go(started + 1, True, done, waiters, acc + ["S"])
            else:
                go(started + 1, running, done, waiters + 1, acc + ["S"])
        if running:
            go(started, False, True, 0, acc + ["Rret"])
            if waiters > 0:
                go(started, True, done, waiters - 1, acc + ["Rraise"])
            else:
                go(started, False, done, 0, acc + ["Rraise"])

    go(0, False, False, 0, [])
    return out


def nontrivial(schedule):
    running = False
    raised = False
    for a in schedule:
        if a == "S":
            if running or raised:
                return True
            running = True
        elif a == "Rraise":
            raised = True
            running = False       # (a waiter may take over; an S after it is non-trivial anyway)
        else:
            running = False
    return False


# ---------------------------------------------------------------- one run

class Run:
    """One FFI object, one tag, a set of calls; records the totally ordered trace."""

    def __init__(self, init_once, tag, base):
        self.init_once = init_once
        self.tag = tag
        self.base = base
        self.cv = threading.Condition(threading.Lock())
        self.trace = []
        self.go = {}
        self.outcome = {}
        self.threads = {}
        self.blocking = True
        self.spy = False          # True: the per-tag lock is a SpyLock reporting to after_release()
        self.resume = {}
        self.ident2cid = {}

    # -- called by SpyLock.release() in the thread that just released the per-tag lock
    def after_release(self):
        cid = self.ident2cid.get(threading.get_ident())
        if cid is None or not self.blocking:
            return
        with self.cv:
            ran_f = any(ev[0] in ("fret", "fraise") and ev[1] == cid for ev in self.trace)
        if not ran_f:
            return                # a waiter that found the result: nothing to force here
        self.rec("released", cid)
        if not self.resume[cid].wait(WAIT):
            self.rec("ftimeout", cid)

    # -- recording (the instrumented points are made atomic by self.cv's lock)
    def rec(self, *ev):
        with self.cv:
            self.trace.append(list(ev))
            self.cv.notify_all()

    # -- derived from the trace (call with self.cv held)
    def _in_f(self):
        inside = []
        for ev in self.trace:
            if ev[0] == "fenter":
                inside.append(ev[1])
            elif ev[0] in ("fret", "fraise") and ev[1] in inside:
                inside.remove(ev[1])
        return inside

    def _started(self):
        return [ev[1] for ev in self.trace if ev[0] == "call"]

    def _finished(self):
        return [ev[1] for ev in self.trace if ev[0] in ("ret", "exc")]

    def _quiescent(self):
        return bool(self._in_f()) or set(self._started()) == set(self._finished())

    def wait_until(self, pred, what):
        with self.cv:
            if self.cv.wait_for(pred, WAIT):
                return
            running = self._in_f()
            unfinished = sorted(set(self._started()) - set(self._finished()))
        if not running and unfinished:
            raise Deadlock("calls %r still blocked after %.0f s although no initialiser is running (%s)"
                           % (unfinished, WAIT, what))
        raise InfraError("timeout (%.0f s) waiting for: %s; running=%r unfinished=%r" % (WAIT, what, running, unfinished))

    # -- the calls
    def value(self, cid):
        return self.base + cid

    def make_f(self, cid):
        def f():
            self.rec("fenter", cid)
            if self.blocking and not self.go[cid].wait(WAIT):
                self.rec("ftimeout", cid)
                raise InfraError("initialiser of call %d was never released" % cid)
            if self.outcome[cid] == "ret":
                v = self.value(cid)
                self.rec("fret", cid, v)
                return v
            self.rec("fraise", cid)
            raise InitErr(cid)
        return f

    def body(self, cid, barrier=None):
        if barrier is not None:
            try:
                barrier.wait(WAIT)
            except threading.BrokenBarrierError:
                self.rec("exc", cid, "BrokenBarrier", None)
                return
        self.ident2cid[threading.get_ident()] = cid
        self.rec("call", cid)
        try:
            r = self.init_once(self.make_f(cid), self.tag)
        except InitErr as e:
            self.rec("exc", cid, "InitErr", e.cid)
        except BaseException as e:
            self.rec("exc", cid, type(e).__name__, None)
        else:
            self.rec("ret", cid, r if type(r) is int else repr(r))

    def start(self, cid, barrier=None):
        self.go[cid] = threading.Event()
        self.resume[cid] = threading.Event()
        self.outcome.setdefault(cid, "ret")
        t = threading.Thread(target=self.body, args=(cid, barrier), daemon=True)
        self.threads[cid] = t
        t.start()

    # -- forced schedule
    def run_schedule(self, schedule):
        nxt = 0
        diverged = 0
        for a in schedule:
            if a == "S":
                cid = nxt
                nxt += 1
                self.start(cid)
                self.wait_until(lambda: cid in self._started(), "call %d to start" % cid)
            else:
                with self.cv:
                    running = self._in_f()
                if not running:
                    diverged += 1          # the implementation did not do what the abstract scheduler expected
                    continue
                cid = running[0]
                self.outcome[cid] = "ret" if a == "Rret" else "raise"
                self.go[cid].set()
                self.wait_until(lambda: cid not in self._in_f(), "initialiser of call %d to finish" % cid)
                if self.spy:
                    # the call is held right after it released the per-tag lock, before it does anything else:
                    # let every other call go as far as it can first
                    self.wait_until(lambda: ["released", cid] in self.trace, "call %d to release the lock" % cid)
                    self.wait_until(lambda: bool(self._in_f()) or
                                    set(self._started()) - set(self._finished()) <= {cid},
                                    "the other calls to settle while call %d is held after its release" % cid)
                    self.resume[cid].set()
                self.wait_until(lambda: cid in self._finished(), "call %d to finish after its initialiser" % cid)
            self.wait_until(self._quiescent, "quiescence after %s" % a)
        # drain whatever is still running (only when the implementation diverged from the abstract scheduler)
        for _ in range(4 * (nxt + 1)):
            with self.cv:
                running = self._in_f()
            if not running:
                break
            diverged += 1
            for cid in running:
                self.resume[cid].set()
                self.go[cid].set()
                self.wait_until(lambda: cid not in self._in_f(), "drained initialiser of call %d" % cid)
            self.wait_until(self._quiescent, "quiescence while draining")
        self.wait_until(lambda: set(self._started()) == set(self._finished()), "all calls to finish")
        self.join()
        return diverged

    def run_stress(self, outcomes):
        self.blocking = False
        barrier = threading.Barrier(len(outcomes))
        for cid, o in enumerate(outcomes):
            self.outcome[cid] = o
            self.start(cid, barrier)
        self.wait_until(lambda: len(self._finished()) == len(outcomes), "all stress calls to finish")
        self.join()

    def join(self):
        for t in self.threads.values():
            t.join(WAIT)
            if t.is_alive():
                raise InfraError("a call thread recorded its outcome but did not exit")

    def snapshot(self):
        with self.cv:
            return [list(ev) for ev in self.trace]


class SpyLock:
    """Stands in for the per-tag lock of the pure-Python implementation (cffi.api.allocate_lock is pointed at it for
    the duration of one run): a real lock that reports to the run right after each release, which lets the harness
    hold the releasing call at that point -- between the release and whatever it does next."""
    def __init__(self, run):
        self._lock = threading.Lock()
        self._run = run

    def acquire(self, *a, **k):
        return self._lock.acquire(*a, **k)

    def release(self):
        self._lock.release()
        self._run.after_release()

    def locked(self):
        return self._lock.locked()

    def __enter__(self):
        return self._lock.acquire()

    def __exit__(self, *a):
        self.release()


# ---------------------------------------------------------------- the property's clauses, on a trace

def oracle(trace):
    """Returns [(clause, detail)] of violated clauses."""
    bad = []
    inside = []
    succ = []
    f_raised = set()
    f_returned = {}
    for i, ev in enumerate(trace):
        k, c = ev[0], ev[1]
        if k == "fenter":
            if inside:
                bad.append(("mutex", "event %d: initialiser of call %d starts while that of call %d is running" % (i, c, inside[0])))
            if succ:
                bad.append(("no_start_after_done", "event %d: initialiser of call %d starts after call %d's completed normally" % (i, c, succ[0][0])))
            inside.append(c)
        elif k == "fret":
            if c in inside:
                inside.remove(c)
            succ.append((c, ev[2]))
            f_returned[c] = ev[2]
            if len(succ) > 1:
                bad.append(("at_most_one_success", "event %d: a second initialiser (call %d) completed normally" % (i, c)))
        elif k == "fraise":
            if c in inside:
                inside.remove(c)
            f_raised.add(c)
        elif k == "ret":
            if c in f_raised:
                bad.append(("raise_propagates", "event %d: call %d returned %r although its own initialiser raised" % (i, c, ev[2])))
            elif not succ:
                bad.append(("returned_value_is_the_success", "event %d: call %d returned %r but no initialiser has completed normally "
                            "(something was cached that is not a completion)" % (i, c, ev[2])))
            elif ev[2] != succ[0][1]:
                bad.append(("returned_value_is_the_success", "event %d: call %d returned %r, the completion's result is %r" % (i, c, ev[2], succ[0][1])))
        elif k == "exc":
            if c not in f_raised:
                bad.append(("raise_propagates", "event %d: call %d raised %s but its own initialiser did not raise" % (i, c, ev[2])))
            elif ev[2] != "InitErr" or ev[3] != c:
                bad.append(("raise_propagates", "event %d: call %d raised %s(%r), not the exception of its own initialiser" % (i, c, ev[2], ev[3])))
        elif k == "ftimeout":
            raise InfraError("initialiser of call %d timed out waiting for the harness" % c)
    return bad


def protocol_lines(trace):
    lines = ["reset"]
    for ev in trace:
        k, c = ev[0], ev[1]
        if k in ("call", "fenter", "fraise"):
            lines.append("%s %d" % (k, c))
        elif k == "fret":
            lines.append("fret %d %d" % (c, ev[2]))
        elif k == "ret":
            lines.append("ret %d %d" % (c, ev[2] if type(ev[2]) is int else -987654321))
        elif k == "exc":
            lines.append("exc %d" % c)
    return lines


# ---------------------------------------------------------------- implementations

def _quiet(fn):
    so = os.dup(1)
    devnull = os.open(os.devnull, os.O_WRONLY)
    sys.stdout.flush()
    os.dup2(devnull, 1)
    try:
        return fn()
    finally:
        sys.stdout.flush()
        os.dup2(so, 1)
        os.close(devnull)
        os.close(so)


class Impls:
    NAMES = ("python", "python+spylock", "c", "c-module")

    def __init__(self, ctx):
        import cffi
        import _cffi_backend
        self.cffi = cffi
        self.backend = _cffi_backend
        modname = "_c26_mod_%d" % os.getpid()
        if modname not in sys.modules:
            ffi = cffi.FFI()
            ffi.cdef("int c26_dummy(int);")
            ffi.set_source(modname, None)
            path = os.path.join(ctx.scratch, modname + ".py")
            _quiet(lambda: ffi.emit_python_code(path))
            if ctx.scratch not in sys.path:
                sys.path.insert(0, ctx.scratch)
        self.mod_ffi = importlib.import_module(modname).ffi
        if type(self.mod_ffi) is not _cffi_backend.FFI:
            raise InfraError("out-of-line module's ffi is not the C FFI type")

    def init_once(self, name):
        if name in ("python", "python+spylock"):
            ffi = self.cffi.FFI()
            if "init_once" in type(ffi).__dict__ and type(ffi).init_once.__module__ == "cffi.api":
                return ffi.init_once
            raise InfraError("cffi.FFI.init_once is not the pure-Python one")
        if name == "c":
            return self.backend.FFI().init_once
        return self.mod_ffi.init_once          # shared object: runs are separated by fresh tags


TAGKINDS = ("int", "str", "tuple", "None-in-tuple")


def make_tag(kind, serial):
    if kind == "int":
        return 100000 + serial
    if kind == "str":
        return "tag-%d" % serial
    if kind == "tuple":
        return ("tag", serial)
    return (None, serial, "x")


# ---------------------------------------------------------------- driving

class Session:
    def __init__(self, ctx, oracle_only=False):
        self.ctx = ctx
        self.impls = Impls(ctx)
        self.serial = 0
        self.lines = []
        self.expect = []          # (case, index of the first line of this run, number of lines)
        self.dead = set()         # implementations with leaked (deadlocked) threads: not used any further
        self.oracle_only = oracle_only

    def one(self, impl, kind, payload, tagkind):
        """kind: 'schedule' (payload = action list) or 'stress' (payload = outcome list)."""
        ctx = self.ctx
        if impl in self.dead:
            return
        self.serial += 1
        tag = make_tag(tagkind, self.serial)
        run = Run(self.impls.init_once(impl), tag, 1000 * self.serial)
        case = {"impl": impl, "kind": kind, "payload": payload, "tagkind": tagkind}
        api = sys.modules["cffi.api"]
        saved = getattr(api, "allocate_lock", None)
        if impl == "python+spylock":
            if saved is None:
                ctx.count("python+spylock:unavailable (cffi.api has no allocate_lock)")
                return
            run.spy = True
            api.allocate_lock = lambda: SpyLock(run)
        try:
            if kind == "schedule":
                div = run.run_schedule(payload)
                if div:
                    ctx.count("%s:diverged-from-abstract-scheduler" % impl)
            else:
                run.run_stress(payload)
        except Deadlock as e:
            trace = run.snapshot()
            self.dead.add(impl)
            if impl.startswith("python"):
                self.dead.update(("python", "python+spylock"))
            ctx.count("%s:deadlock" % impl)
            ctx.case(None)
            ctx.fail(dict(case, trace=trace), "no_deadlock: " + str(e))
            return
        finally:
            if impl == "python+spylock":
                api.allocate_lock = saved
        trace = run.snapshot()
        key = (impl, kind, tuple(payload)) if (kind == "stress" or nontrivial(payload)) else None
        ctx.case(key, sample=dict(case, trace=trace) if self.serial % 97 == 5 else None)
        ctx.count("%s:%s:n=%d" % (impl, kind, sum(1 for ev in trace if ev[0] == "call")))
        for ev in trace:
            if ev[0] in ("fenter", "fret", "fraise"):
                ctx.count("event:" + ev[0])
        nf = sum(1 for ev in trace if ev[0] == "fenter")
        ctx.count("initialiser-runs-per-run:%d" % nf)
        bad = oracle(trace)
        if bad:
            ctx.fail(dict(case, trace=trace, clause=bad[0][0]), "; ".join("%s: %s" % b for b in bad[:3]))
        if not self.oracle_only:
            ls = protocol_lines(trace)
            self.expect.append((dict(case, trace=trace), len(self.lines), len(ls)))
            self.lines.extend(ls)

    def flush(self):
        if self.oracle_only or not self.lines:
            return
        out = self.ctx.driver(self.lines)
        for case, off, n in self.expect:
            for j in range(n):
                if not out[off + j].startswith("ok"):
                    self.ctx.disagree(case, self.lines[off + j], out[off + j],
                                      "the model rejects event %d of the observed trace (line %r)" % (j - 1, self.lines[off + j]))
                    break
            if len(self.ctx.disagreements) > 10:
                break
        self.lines, self.expect = [], []


def explore(ctx, nmax, nstress, stress_calls, rng, oracle_only=False):
    old = sys.getswitchinterval()
    ses = Session(ctx, oracle_only)
    try:
        for n in range(1, nmax + 1):
            scheds = enumerate_schedules(n)
            ctx.coverage["schedules_n%d" % n] = len(scheds)
            for sch in scheds:
                for impl in Impls.NAMES:
                    ses.one(impl, "schedule", sch, rng.choice(TAGKINDS))
        sys.setswitchinterval(1e-5)           # more thread switches inside init_once for the unforced runs
        for _ in range(nstress):
            k = rng.randint(2, stress_calls)
            outcomes = [("raise" if rng.random() < 0.45 else "ret") for _ in range(k)]
            for impl in Impls.NAMES:
                ses.one(impl, "stress", outcomes, rng.choice(TAGKINDS))
    finally:
        sys.setswitchinterval(old)
    ses.flush()


def translators(ctx):
    """Generated/InitOnceSteps.lean: statement skeletons of FFI.init_once (ast) and ffi_init_once, re-extracted from the working tree."""
    sys.path.insert(0, os.path.join(common.VERIF, "translate"))
    import c26_steps
    return [c26_steps.run]


def correspond(ctx):
    explore(ctx, ctx.n(4, 5), ctx.n(60, 700), ctx.n(4, 5), ctx.rng)


def search(ctx):
    explore(ctx, ctx.n(5, 6), ctx.n(300, 5000), 5, random.Random("C26/search/%d" % ctx.seed), oracle_only=True)


def replay(ctx, obj):
    case = obj["case"]
    ses = Session(ctx, oracle_only=True)
    n0 = len(ctx.failures)
    tries = 1 if case["kind"] == "schedule" else 200
    for _ in range(tries):
        ses.one(case["impl"], case["kind"], case["payload"], case.get("tagkind", "int"))
        if len(ctx.failures) > n0:
            break
    for f in ctx.failures[n0:n0 + 1]:
        print("fails:", f["detail"])
        for ev in f["case"].get("trace", []):
            print("   ", ev)
    if len(ctx.failures) == n0:
        print("no clause violated when re-running %s %r on %s" % (case["kind"], case["payload"], case["impl"]))
    return 1 if len(ctx.failures) > n0 else 0
