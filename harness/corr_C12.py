"""C12 -- API-mode modules faithfully reflect the C source and detect mismatches (partial).

Theorems (lean/CffiVerif/Props/C12.lean): check_int_iff, const_decodes_value, checked_const_value,
const_check_iff_partial (+ enumerator_unchecked_witness), unchecked_kinds_use_compiler,
dotdotdot_const_uses_compiler, struct_check_iff, struct_check_outcome,
field_size_mismatch_always_rejected, dotdotdot_uses_compiler -- over the regenerated
`_cffi_check_int` / `_cffi_const_*` terms and the hand model of the checked struct realisation.

Tie to the code:
  * translate/c12_check_int.py re-extracts the macro and the generated statements every run;
  * random (cdef, C source) pairs are compiled into real extension modules: every declared item
    is exercised against facts computed by the C compiler inside the same module (helper
    functions), then `...` variants and single-point mutations of the cdef against the SAME C
    source; each struct / constant of each module is also sent to the Lean model
    (StructCheck.realise / CheckInt.libConst) and the outcomes compared;
  * a deterministic prefix stream in every run: `[...]`-length globals / typedefs / partial structs declared before
    fully declared structs and unions (same or earlier cdef call) -- the generated table must still carry
    _CFFI_F_CHECK_FIELDS for them and a mismatching one must raise.
"""
import concurrent.futures
import importlib
import os
import re
import sys

import common
from common import InfraError
import gen_C12 as G

sys.path.insert(0, os.path.join(common.VERIF, "translate"))

MANIFEST = {
    "text": "Kernel-checked theorems over the regenerated _cffi_check_int macro and _cffi_const_* body and a model of "
            "do_realize_lazy_struct / b_complete_struct_or_union's checks: the constant test raises iff the compiler's "
            "value differs from the cdef's (all of [-2^63, 2^64), incl. -1 vs 2^64-1), the flag+value protocol decodes to the "
            "compiler's value, a struct without '...' realises iff every cdef offset, field size, total size and "
            "alignment equals the compiler's, with '...' the compiler's numbers are adopted; tied to the code by building "
            "random (cdef, C source) pairs, their '...' variants and single-point cdef mutations into real extension "
            "modules and comparing every declared item with facts the C compiler computed in the same module.",
    "note": "PARTIAL: only the logic core is modelled and proved (generated integer check, realize_global_int, the "
            "size/offset/total/alignment comparisons). What gcc computes (offsetof/sizeof/constant values), calls through "
            "the generated wrappers/libffi and global variable access are parameters of the model and covered by the "
            "correspondence run only (incl. a stateful session per module: by-value struct results are fresh objects, kept "
            "results are re-read after all calls). Packed structs (packed=True only: pack=N>1 is NotImplementedError in API "
            "mode) are generated and modelled; bit-fields and anonymous nested structs are generated and checked against the "
            "compiler only (not mutated, not in the Lean model); non-x86-64 layouts are not generated. Known finding C12/enumerator-value-unchecked: API mode never checks enumerator values given in "
            "the cdef (the compiler's value is used silently).",
    "technique": "Lean 4 proof (omega/induction over the field list, terms regenerated from _cffi_include.h and recompiler.py) "
                 "+ differential correspondence with compiled extension modules and compiler-computed facts",
}

RULE = ("a unit = 2-3 integer typedefs, 3-4 structs/unions (integer fields of all sizes, arrays, double/float/pointer/char, "
        "nested structs), 4-7 #define constants from boundary values of [-2^63, 2^64), 2 enums, 2-3 static const, 3-4 "
        "globals, 3-4 functions; each unit is built as: the faithful cdef, a '...' variant (partial structs with shuffled "
        "field subsets, #define X ..., enum {A=..., ...}, typedef int... t), and one module per mutation kind "
        "(field-type, swap-fields, array-len, define-value, enum-value, drop-field) against the same C source; "
        "a case = one probe of one item of one module; non-trivial = every probe of a mutated / '...' module and every "
        "layout, constant, global-write or call probe; distinct = distinct (variant, item, probe)")
ASSUMPTIONS = ["gcc x86-64 SysV layout and constant evaluation (parameters of the model, read back through helper functions "
               "compiled into the same module)",
               "alignments are powers of two (roundUp written with / and *)"]
TRUSTED_EXTRA = ["harness/gen_C12.py: unit generator, C/cdef renderers, the Python natural-layout oracle"]

FINDING = "C12/enumerator-value-unchecked"
CLASSES = {
    FINDING: lambda case: case.get("mutation") == "enum-value" and case.get("observed") == "compiler-value",
}


def translators(ctx):
    import c12_check_int
    import c12_struct_flags
    return [lambda: c12_check_int.run(common), lambda: c12_struct_flags.run(common)]


def table_flags(cpath):
    """{struct/union table name: numeric `flags`} parsed back from the generated C file, with the
    `_CFFI_F_*` values of the working tree."""
    import c12_struct_flags
    fvals, _ = c12_struct_flags.flag_values(common.REPO)
    src = open(cpath).read()
    m = re.search(r"_cffi_struct_unions\[\] = \{(.*?)\n\};", src, re.S)
    out = {}
    if m:
        for nm, flags in re.findall(r'\{ "([^"]+)", \d+, ([A-Za-z_|0-9]+),', m.group(1)):
            v = 0
            for part in flags.split("|"):
                v |= 0 if part == "0" else fvals[part]
            out[nm] = v
    return out


# ---------------------------------------------------------------------------

def build_modules(ctx, specs):
    """specs: [(modname, cdef, csource)] -> {modname: module}; emit sequentially, gcc in parallel."""
    cpaths = []
    for modname, cdef, csource in specs:
        cpath, _ = G.emit_api(cdef, csource, modname, ctx.scratch)
        cpaths.append((modname, cpath))
    with concurrent.futures.ThreadPoolExecutor(max_workers=8) as ex:
        futs = [ex.submit(common.compile_ext, cpath, ctx.scratch, modname) for modname, cpath in cpaths]
        for f in futs:
            f.result()
    if ctx.scratch not in sys.path:
        sys.path.insert(0, ctx.scratch)
    importlib.invalidate_caches()
    return {modname: importlib.import_module(modname) for modname, _ in cpaths}


def is_error(obs):
    return isinstance(obs, dict) and "exc" in obs


ERROR_FAMILY = ("ffi.error", "VerificationError", "TypeError")


def struct_line(unit, s, facts, flags):
    """Protocol line for the Lean model of this struct's realisation (flags: from the generated table)."""
    flds = []
    for f in s["fields"]:
        csize, calign = G.field_size_align(unit, f, facts)
        if f.get("dots_len"):
            csize = facts["fsize:%s.%s" % (s["name"], f["name"])]      # `T a[...]`: length from the compiler
        flds.append("%d:%d:%d:%d" % (csize, calign, facts["offsetof:%s.%s" % (s["name"], f["name"])],
                                     facts["fsize:%s.%s" % (s["name"], f["name"])]))
    return "structf %d %d %d %s" % (flags, facts["sizeof:" + s["name"]], facts["alignof:" + s["name"]], " ".join(flds))


def run_unit(ctx, rng, uid, oracle_only=False, kinds=None):
    orig = G.make_unit(rng, uid)
    csource = G.render_csource(orig)
    variants = [("base", orig, None), ("dots", G.dots_variant(rng, orig), None)]
    for kind in (kinds or G.MUTATIONS):
        mu, d = G.mutate(rng, orig, kind)
        variants.append((kind, mu, d))
    specs = []
    for vname, unit, d in variants:
        modname = "_c12_%d_%d_%s" % (ctx.seed, uid, vname.replace("-", "_"))
        specs.append((modname, G.render_cdef(unit, orig), csource))
    mods = build_modules(ctx, specs)
    lines, expect = [], []
    for (vname, unit, d), (modname, cdef, _) in zip(variants, specs):
        m = mods[modname]
        ffi, lib = m.ffi, m.lib
        facts = G.facts_of(ffi, lib, orig)
        base_case = {"variant": vname, "cdef": cdef, "csource": csource, "mutation_detail": d}
        ctx.count("module:" + vname)
        # --- harness self-check: the Python layout oracle agrees with gcc on the unmutated declarations
        if vname == "base":
            for s in orig["structs"]:
                if s.get("special"):
                    continue
                offs, sizes, total, al = G.natural_layout(orig, s, facts)
                if (total, al) != (facts["sizeof:" + s["name"]], facts["alignof:" + s["name"]]) or any(
                        offs[f["name"]] != facts["offsetof:%s.%s" % (s["name"], f["name"])] for f in s["fields"]):
                    raise InfraError("layout oracle of the harness disagrees with gcc for %s" % G.struct_tag(s))
        # --- which items were touched by the mutation
        mut_struct = d.get("struct") if d else None
        mut_consts = d.get("consts", []) if d else []
        tainted = G.tainted_structs(unit, [mut_struct]) if mut_struct else set()
        skip_consts = set(c["define"] for c in mut_consts)
        # --- the mutated item itself
        if mut_struct:
            s = [x for x in unit["structs"] if x["name"] == mut_struct][0]
            offs, sizes, total, al = G.natural_layout(unit, s, facts)
            differs = (total != facts["sizeof:" + s["name"]] or al != facts["alignof:" + s["name"]] or any(
                offs[f["name"]] != facts["offsetof:%s.%s" % (s["name"], f["name"])] or
                sizes[f["name"]] != facts["fsize:%s.%s" % (s["name"], f["name"])] for f in s["fields"]))
            tag = G.struct_tag(s)
            for pr in ({"k": "sizeof", "tag": tag}, {"k": "layout", "tag": tag, "fields": [f["name"] for f in s["fields"]]},
                       {"k": "offsetof", "tag": tag, "field": s["fields"][0]["name"]}):
                obs = G.probe(ffi, lib, pr)
                case = dict(base_case, mutation=vname, item="struct:" + s["name"], probe=pr, cdef_differs=differs)
                ctx.case((vname, "mutated-struct", pr["k"], differs), sample=dict(case, cdef="...", csource="..."))
                ctx.count("mutated-struct:%s:%s" % (vname, "must-raise" if differs else "layout-unchanged"))
                if differs:
                    if not (is_error(obs) and obs["exc"] in ERROR_FAMILY):
                        ctx.fail(dict(case, expect="error", observed=obs),
                                 "the cdef's layout of %s disagrees with the C source but using it gave %r" % (tag, obs))
                else:
                    if is_error(obs):
                        ctx.fail(dict(case, expect="ok", observed=obs),
                                 "the mutation leaves every offset/size/alignment of %s unchanged, yet using it raised %r" % (tag, obs))
            # further uses keep raising (the failed realisation must not leave a half-built type behind)
            if differs:
                obs2 = G.probe(ffi, lib, {"k": "sizeof", "tag": tag})
                if not is_error(obs2):
                    ctx.fail(dict(base_case, mutation=vname, item="struct:" + s["name"], probe="sizeof-again",
                                  expect="error", observed=obs2), "second use of the mismatching struct succeeded")
            if not differs:
                tainted = set()
        for mc in mut_consts:
            mut_const, new, old = mc["define"], mc["new"], mc["old"]
            for pr in ({"k": "const", "name": mut_const}, {"k": "iconst", "name": mut_const}):
                obs = G.probe(ffi, lib, pr)
                case = dict(base_case, mutation=vname, item="const:" + mut_const, probe=pr)
                ctx.case((vname, "mutated-const", pr["k"], old, new), sample=dict(case, cdef="...", csource="..."))
                ctx.count("mutated-const:%s%s" % (vname, ":sign-alias" if abs(new - old) == 2 ** 64 else ""))
                if is_error(obs) and obs["exc"] in ERROR_FAMILY:
                    continue
                observed = "compiler-value" if obs == facts["const:" + mut_const] else (
                    "cdef-value" if obs == new else "other")
                ctx.fail(dict(case, expect="error", observed=observed, value=obs),
                      "cdef says %s = %d, the C source %d; using it gave %r instead of raising" % (mut_const, new, old, obs))
        # --- every other item must work and show the compiler's facts
        for key, pr, want in G.probes_for(rng, unit, orig, facts, skip_structs=tainted, skip_consts=skip_consts,
                                          ncalls=ctx.n(6, 10)):
            obs = G.probe(ffi, lib, pr)
            nontrivial = vname != "base" or pr["k"] not in ("tdsize", "tdneg", "gaddr")
            ctx.case((vname, key.split(":")[0], pr["k"], str(pr.get("field", pr.get("name", ""))), str(want)[:40])
                     if nontrivial else None, sample=None)
            ctx.count("probe:%s:%s" % (pr["k"], "exc" if is_error(want) else "value"))
            if obs != want:
                ctx.fail(dict(base_case, item=key, probe=pr, expect=want, observed=obs,
                              untouched=bool(d)),
                         "%s of %s in the %s module: got %r, the C compiler/C semantics say %r" % (pr["k"], key, vname, obs, want))
        # --- stateful session: every returned object is kept and re-read after all calls (by-value struct results
        #     are fresh objects, pointers alias what they should, primitives keep their value)
        steps = G.make_session(rng, unit, nsteps=ctx.n(30, 60))
        got, want = G.run_session(ffi, lib, unit, steps), G.expected_session(unit, steps)
        for i, st in enumerate(steps):
            ctx.case((vname, "session", st["op"], i), sample=None)
            ctx.count("session:" + st["op"])
        for part in ("immediate", "final", "alias"):
            if got[part] != want[part]:
                i = [j for j in range(len(steps)) if got[part][j] != want[part][j]][0]
                ctx.fail(dict(base_case, item="session", probe="session", session=steps, part=part, step=i,
                              observed=got[part][i], expect=want[part][i], vstruct=unit["vstruct"], funcs=unit["funcs"]),
                         "stateful session in the %s module: %s of the object kept by step %d (%r) is %r, C semantics say %r"
                         % (vname, part, i, st, got[part][i], want[part][i]))
                break
        if oracle_only:
            continue
        # --- the Lean model on the same structs and constants
        tflags = table_flags(os.path.join(ctx.scratch, modname + ".c"))
        for s in unit["structs"]:
            if (s["name"] in tainted and s["name"] != mut_struct) or s.get("special"):
                continue
            import c12_struct_flags
            fv = c12_struct_flags.flag_values(common.REPO)[0]
            want_flags = ((0 if s["partial"] else fv["_CFFI_F_CHECK_FIELDS"]) | (fv["_CFFI_F_UNION"] if s["union"] else 0) |
                          (fv["_CFFI_F_PACKED"] if s.get("cdef_packed", s.get("packed")) else 0))
            ctx.count("table-flags:%d" % tflags[s["name"]])
            if tflags[s["name"]] != want_flags:
                ctx.disagree({"variant": vname, "struct": s["name"]}, tflags[s["name"]], want_flags,
                             "flags emitted by the recompiler vs declared (CHECK_FIELDS/UNION/PACKED)")
            line = struct_line(unit, s, facts, tflags[s["name"]])
            obs = G.probe(ffi, lib, {"k": "layout", "tag": G.struct_tag(s), "fields": [f["name"] for f in s["fields"]]})
            lines.append(line)
            expect.append(({"variant": vname, "struct": s["name"], "line": line}, "struct", obs))
        for c in G.all_consts(unit):
            cu = _const_decl(unit, c["name"])
            kind = {"define": "define", "enum": "enum", "constant": "constant"}[c["kind"]]
            cdefv = "-" if cu["dots"] else str(cu["value"])
            x = facts["const:" + c["name"]]
            line = "const %s %s %d" % (kind, cdefv, x)
            obs = G.probe(ffi, lib, {"k": "const", "name": c["name"]})
            lines.append(line)
            expect.append(({"variant": vname, "const": c["name"], "line": line}, "const", obs))
    if lines:
        out = ctx.driver(lines)
        for o, (case, what, obs) in zip(out, expect):
            if what == "struct":
                if is_error(obs):
                    impl = "err " + {"ffi.error": "FFIError", "TypeError": "TypeError"}.get(obs["exc"], obs["exc"])
                    model = o
                else:
                    impl = "ok " + " ".join(str(x) for x in obs)
                    w = o.split()
                    model = " ".join(w[:3] + w[4:]) if w[0] == "ok" else o       # drop the custom flag
            else:
                impl = ("err FFIError" if obs.get("exc") == "ffi.error" else "err " + obs["exc"]) if is_error(obs) else "ok %d" % obs
                model = o
            ctx.count("model:%s:%s" % (what, model.split()[0]))
            if impl != model:
                ctx.disagree(case, impl, model, "%s realisation vs Lean model" % what)


def _const_decl(unit, name):
    for k in unit["defines"]:
        if k["name"] == name:
            return {"dots": k["dots"], "value": k["value"]}
    for e in unit["enums"]:
        for it in e["items"]:
            if it["name"] == name:
                # a bare enumerator of a partial enum carries only a guess: treated like '...'
                return {"dots": it["dots"] or not it["explicit"], "value": it["value"]}
    return {"dots": True, "value": None}       # static const: no value in the cdef


# ---------------------------------------------------------------------------- `[...]` before a full struct

PREFIXES = [
    ("extern-array", "extern int tbl[...];"),
    ("typedef-array", "typedef int vec_t[...];"),
    ("extern-array-2d", "extern int arr2[...][3];"),
    ("partial-struct-field", "struct pp { int n; int a[...]; ...; };"),
]
PREFIX_CSOURCE = """#include <stddef.h>
int tbl[5] = {1, 2, 3, 4, 5};
typedef int vec_t[4];
int arr2[2][3];
struct pp { int n; int a[3]; long tail; };
struct mm { char c; long l; short s; };
union mu { int a; char b[3]; long extra; };
struct okk { int x; char y; };
union oku { short h; int w; };
size_t verif_sizeof_pp(void) { return sizeof(struct pp); }
size_t verif_sizeof_okk(void) { return sizeof(struct okk); }
size_t verif_offsetof_okk_y(void) { return offsetof(struct okk, y); }
size_t verif_sizeof_oku(void) { return sizeof(union oku); }
"""
PREFIX_HELPERS = ("size_t verif_sizeof_pp(void); size_t verif_sizeof_okk(void); size_t verif_offsetof_okk_y(void); "
                  "size_t verif_sizeof_oku(void);\n")
# fully declared, but disagreeing with the C source: fields in another order / a member of the C union missing
MISMATCH = {"struct": ("struct mm", "struct mm { long l; char c; short s; };"),
            "union": ("union mu", "union mu { int a; char b[3]; };")}
MATCHING = "struct okk { int x; char y; };\nunion oku { short h; int w; };\n"


def prefix_stream(ctx):
    """Deterministic in every run: a `[...]`-length global / typedef / partial struct declared BEFORE fully declared
    structs and unions (same cdef() call or an earlier one).  What precedes a struct must not matter: every fully
    declared struct/union carries _CFFI_F_CHECK_FIELDS in the generated table (the model's decision: no `...` in
    its own body => checked), a mismatching one raises at first use exactly as without the preceding declaration,
    the matching ones and the `[...]` items themselves show the compiler's facts."""
    import c12_struct_flags
    fv = c12_struct_flags.flag_values(common.REPO)[0]
    specs, meta = [], []
    variants = [(None, "same", "struct")]                       # control: nothing precedes
    for i, (pname, ptext) in enumerate(PREFIXES):
        for j, where in enumerate(("same", "earlier")):
            variants.append(((pname, ptext), where, ("struct", "union")[(i + j) % 2]))
    # both kinds directly after every kind of prefix at least in the "same" placement
    for i, (pname, ptext) in enumerate(PREFIXES[:3]):
        variants.append(((pname, ptext), "same", ("union", "struct")[i % 2]))
    for n, (prefix, where, first) in enumerate(variants):
        other = "union" if first == "struct" else "struct"
        body = MISMATCH[first][1] + "\n" + MATCHING + MISMATCH[other][1] + "\n" + PREFIX_HELPERS
        if prefix is None:
            chunks = [[body, False]]
        elif where == "same":
            chunks = [[prefix[1] + "\n" + body, False]]
        else:
            chunks = [[prefix[1] + "\n", False], [body, False]]
        modname = "_c12_%d_prefix_%d" % (ctx.seed, n)
        specs.append((modname, chunks, PREFIX_CSOURCE))
        meta.append((prefix[0] if prefix else "none", where, first))
    mods = build_modules(ctx, specs)
    for (modname, chunks, csource), (pname, where, first) in zip(specs, meta):
        m = mods[modname]
        ffi, lib = m.ffi, m.lib
        base_case = {"variant": "prefix", "prefix": pname, "placement": where, "first": first, "cdef": chunks,
                     "csource": csource}
        ctx.count("prefix:%s:%s:%s-first" % (pname, where, first))
        # tie between the generator's output and the model's decision: no `...` in the body => CHECK_FIELDS
        tflags = table_flags(os.path.join(ctx.scratch, modname + ".c"))
        for nm, union in (("mm", False), ("mu", True), ("okk", False), ("oku", True)):
            want = fv["_CFFI_F_CHECK_FIELDS"] | (fv["_CFFI_F_UNION"] if union else 0)
            ctx.case(("prefix", pname, where, first, "flags", nm))
            if tflags.get(nm) != want:
                ctx.disagree(dict(base_case, struct=nm, cdef="..."), tflags.get(nm), want,
                             "flags of a fully declared struct/union in the generated table vs the model's decision "
                             "(no `...` in its body => _CFFI_F_CHECK_FIELDS)")
        # the mismatching ones must raise at first use, whatever precedes them
        for kind in (first, "union" if first == "struct" else "struct"):
            tag = MISMATCH[kind][0]
            pr = {"k": "sizeof", "tag": tag}
            obs = G.probe(ffi, lib, pr)
            ctx.case(("prefix", pname, where, first, "mismatch", kind))
            ctx.count("prefix-mismatch:%s" % ("raised" if is_error(obs) else "accepted"))
            if not (is_error(obs) and obs["exc"] in ERROR_FAMILY):
                ctx.fail(dict(base_case, item=tag, probe=pr, expect="error", observed=obs),
                         "%s is fully declared and disagrees with the C source, but after `%s` (%s cdef) using it gave %r "
                         "instead of raising" % (tag, pname, where, obs))
        # everything else shows the compiler's facts
        checks = [({"k": "sizeof", "tag": "struct okk"}, int(lib.verif_sizeof_okk())),
                  ({"k": "offsetof", "tag": "struct okk", "field": "y"}, int(lib.verif_offsetof_okk_y())),
                  ({"k": "sizeof", "tag": "union oku"}, int(lib.verif_sizeof_oku()))]
        if pname == "typedef-array":
            checks.append(({"k": "tdsize", "name": "vec_t"}, 16))
        if pname == "partial-struct-field":
            checks.append(({"k": "sizeof", "tag": "struct pp"}, int(lib.verif_sizeof_pp())))
            checks.append(({"k": "fsize", "tag": "struct pp", "field": "a"}, 12))
        for pr, want in checks:
            obs = G.probe(ffi, lib, pr)
            ctx.case(("prefix", pname, where, first, pr["k"], pr.get("tag", pr.get("name"))))
            if obs != want:
                ctx.fail(dict(base_case, item=pr.get("tag", pr.get("name")), probe=pr, expect=want, observed=obs),
                         "%r after `%s`: got %r, the C compiler says %r" % (pr, pname, obs, want))
        try:
            if pname == "extern-array":
                got, want = (len(lib.tbl), lib.tbl[4]), (5, 5)
            elif pname == "extern-array-2d":
                got, want = (len(lib.arr2), len(lib.arr2[0])), (2, 3)
            else:
                got = want = None
        except Exception as e:
            got = {"exc": type(e).__name__}
        if got != want:
            ctx.fail(dict(base_case, item=pname, probe={"k": "array-global"}, expect=list(want), observed=got),
                     "the `[...]` global declared by `%s` reads %r, the C source says %r" % (pname, got, want))


def correspond(ctx):
    prefix_stream(ctx)
    for uid in range(ctx.n(1, 30)):
        run_unit(ctx, ctx.rng, uid)


def search(ctx):
    prefix_stream(ctx)
    for uid in range(100, 100 + ctx.n(3, 20)):
        run_unit(ctx, ctx.rng, uid, oracle_only=True)


def _rebuild(ctx, case, modname):
    mods = build_modules(ctx, [(modname, case["cdef"], case["csource"])])
    return mods[modname]


def replay(ctx, obj):
    case = G.unjson(obj["case"])
    m = _rebuild(ctx, case, "_c12_replay")
    pr = case["probe"]
    if pr == "session":
        unit = {"vstruct": case["vstruct"], "funcs": case["funcs"]}
        got, want = G.run_session(m.ffi, m.lib, unit, case["session"]), G.expected_session(unit, case["session"])
        i, part = case["step"], case["part"]
        print("step %d %r, %s: observed %r, expected %r" % (i, case["session"][i], part, got[part][i], want[part][i]))
        return 0 if got == want else 1
    if isinstance(pr, dict) and pr.get("k") == "array-global":
        lib = m.lib
        try:
            got = [len(lib.tbl), lib.tbl[4]] if case["item"] == "extern-array" else [len(lib.arr2), len(lib.arr2[0])]
        except Exception as e:
            got = {"exc": type(e).__name__}
        print("array global after %s: observed %r, expected %r" % (case["item"], got, case["expect"]))
        return 0 if got == case["expect"] else 1
    if pr == "sizeof-again":
        text = case["cdef"] if isinstance(case["cdef"], str) else "".join(c[0] for c in case["cdef"])
        tag = [l for l in text.split("\n") if case["item"].split(":")[1] + " {" in l][0].split("{")[0].strip()
        G.probe(m.ffi, m.lib, {"k": "sizeof", "tag": tag})
        obs = G.probe(m.ffi, m.lib, {"k": "sizeof", "tag": tag})
    else:
        obs = G.probe(m.ffi, m.lib, pr)
    print("variant %s, item %s, probe %r: observed %r, expected %r" % (case.get("variant"), case.get("item"), pr, obs,
                                                                    case.get("expect")))
    if case.get("expect") == "error":
        return 0 if is_error(obs) and obs["exc"] in ERROR_FAMILY else 1
    if case.get("expect") == "ok":
        return 1 if is_error(obs) else 0
    return 0 if obs == case.get("expect") else 1


def check_witness(ctx, finding):
    w = finding["witness"]
    m = _rebuild(ctx, {"cdef": w["cdef"], "csource": w["csource"]}, "_c12_witness")
    obs = G.probe(m.ffi, m.lib, {"k": "const", "name": w["name"]})
    return not (is_error(obs) and obs["exc"] in ERROR_FAMILY)
