"""C33 -- verify() produces the same library behaviour as set_source() (partial).

Theorems (lean/CffiVerif/Props/C33.lean): macros_text_equal, cpy_macros_eq_include_macros,
from_c_int_returns_value, to_c_int_selects, cpy_const_decodes_value, gen_const_decodes_value,
gen_enum_check_iff, cpy_enum_check_iff, three_builds_agree_on_constants -- over terms regenerated
every run from vengine_cpy.py, vengine_gen.py and _cffi_include.h (translate/verify_macros.py).

Tie to the code: (cdef, C source) pairs from the C12 generator (restricted to what verify()
supports) are built three ways -- set_source()/emit_c_code + gcc, ffi.verify() with the CPython
engine, ffi.verify(force_generic_engine=True) -- and the same probes (layouts, constants, enum
types, global reads/writes from both sides, field accessors, calls incl. out-of-range and
wrong-type arguments) are run on all three; the observations must be pairwise equal.  Constants,
argument conversions and results are also sent to the Lean model.
"""
import os
import random
import sys

import common
from common import InfraError
import gen_C12 as G
import corr_C12

sys.path.insert(0, os.path.join(common.VERIF, "translate"))

MANIFEST = {
    "text": "Kernel-checked theorems over terms regenerated each run from vengine_cpy.py, vengine_gen.py and _cffi_include.h: "
            "the _cffi_to_c_int/_cffi_from_c_int macros embedded in the CPython verify engine equal the originals used by "
            "set_source() modules (text and denotation), they return the C value / select the helper of the right width and "
            "sign, and the integer-constant protocols of both verify engines decode to the compiler's value on all of "
            "[-2^63, 2^64) and reject exactly the differing values -- hence the three builds publish the same constants; tied "
            "to the code by building random (cdef, C source) pairs three ways and comparing every probe pairwise.",
    "note": "PARTIAL: only the conversion layer (macro dispatch, constant protocols, value checks) is modelled and proved; "
            "everything else in a verify() library is generated C compiled by gcc (setuptools) or reached through libffi and "
            "is covered by the three-way correspondence only -- in particular that a struct returned BY VALUE is a fresh object per "
            "call (no Lean statement): every pair runs a stateful session of interleaved calls (by-value struct results and "
            "arguments, pointers into test-owned and static storage, a struct global, primitives) in which every returned "
            "object is kept, written through, and re-read after all calls; immediate values, final re-reads and the address "
            "aliasing of the kept objects must agree across the three builds. Callbacks are not covered by C33. "
            "ffi.addressof(lib, name) and ffi.integer_const are not compared "
            "(not offered for verify() libraries / answered by the in-line parser). 'typedef int... t' is API-mode only and "
            "is not generated here.",
    "technique": "Lean 4 proof (terms regenerated from the Python/C sources; omega) + three-way differential correspondence "
                 "(set_source module, verify() CPython engine, verify() generic engine)",
}
RULE = ("stateful: per pair one script of 40 (80) interleaved steps over by-value struct functions, pointer-returning "
        "functions, static/global struct storage and integer functions, all results kept and re-read at the end; "
        "pairs = C12 units (typedefs, structs/unions, #define/enum/static const constants, globals, functions) in their "
        "faithful form and in a '...' form (partial structs, #define X ..., partial enums); each pair built three ways; "
        "a case = one probe evaluated on the three builds; non-trivial = layouts, constants, writes, calls; distinct = "
        "distinct (pair form, item kind, probe, argument values)")
ASSUMPTIONS = ["gcc/setuptools build of verify() modules works offline in the sandbox (probed: it does)",
               "LP64: sizeof(long) = 8 in the translated macros"]
TRUSTED_EXTRA = ["harness/gen_C12.py (shared generator and probes)"]
CLASSES = {}

BUILDS = ("api", "vcpy", "vgen")


def translators(ctx):
    import verify_macros
    return [lambda: verify_macros.run(common)]


def build_three(ctx, tagname, cdef, csource):
    """-> {"api": (ffi, lib), "vcpy": (ffi, lib), "vgen": (ffi, lib)}"""
    import cffi
    out = {}
    modname = "_c33_%d_%s" % (ctx.seed, tagname)
    m = corr_C12.build_modules(ctx, [(modname, cdef, csource)])[modname]
    out["api"] = (m.ffi, m.lib)
    for name, kw in (("vcpy", {}), ("vgen", {"force_generic_engine": True})):
        ffi = cffi.FFI()
        G.apply_cdef(ffi, cdef)
        tmp = os.path.join(ctx.scratch, "verify_%s_%s" % (tagname, name))
        try:
            lib = G.quiet(lambda: ffi.verify(csource, tmpdir=tmp, **kw), stderr=True)
        except cffi.VerificationError as e:
            out[name] = (ffi, e)
            continue
        out[name] = (ffi, lib)
    return out


def verify_dots_variant(rng, orig):
    u = G.dots_variant(rng, orig)
    for td in u["typedefs"]:
        td["dots"] = False              # `typedef int... t;` is not available with verify()
    u["variant"] = "dots"
    return u


def run_pair(ctx, rng, uid, form, unit, orig, csource, oracle_only, lines, expect):
    cdef = G.render_cdef(unit, orig)
    builds = build_three(ctx, "%d_%s" % (uid, form), cdef, csource)
    base_case = {"form": form, "cdef": cdef, "csource": csource}
    for b in BUILDS:
        if isinstance(builds[b][1], Exception):
            ctx.fail(dict(base_case, build=b, probe="load"),
                     "%s could not load a library for matching declarations: %r" % (b, builds[b][1]))
            return
    facts = G.facts_of(*builds["api"], orig)
    # the probes are drawn once and run on the three builds
    prng = random.Random(rng.getrandbits(64))
    probes = [(k, p, w) for k, p, w in G.probes_for(prng, unit, orig, facts, ncalls=ctx.n(6, 10))
              if p["k"] not in ("gaddr", "iconst")]
    ctx.count("pair:" + form)
    run_sessions(ctx, prng, form, unit, builds, base_case)
    for key, pr, _want in probes:
        obs = {b: G.probe(builds[b][0], builds[b][1], pr) for b in BUILDS}
        nontrivial = pr["k"] not in ("tdsize", "tdneg")
        ctx.case((form, key.split(":")[0], pr["k"], str(pr.get("field", pr.get("name", ""))),
                  str(pr.get("args", pr.get("v", "")))[:60]) if nontrivial else None,
                 sample=dict(form=form, item=key, probe=pr, observed=obs) if pr["k"] in ("call", "const", "sizeof") else None)
        ctx.count("probe:%s:%s" % (pr["k"], "exc" if corr_C12.is_error(obs["api"]) else "value"))
        if not (obs["api"] == obs["vcpy"] == obs["vgen"]):
            ctx.fail(dict(base_case, item=key, probe=pr, observed=obs),
                     "%s of %s differs between the builds: %r" % (pr["k"], key, obs))
        if oracle_only:
            continue
        # --- model lines
        if pr["k"] == "const":
            c = [c for c in G.all_consts(unit) if c["name"] == pr["name"]][0]
            cu = corr_C12._const_decl(unit, c["name"])
            cdefv = "-" if cu["dots"] else str(cu["value"])
            x = facts["const:" + c["name"]]
            # a non-partial enum is checked by verify() whatever the spelling of its enumerators
            for op, b in (("aconst %s" % {"define": "define", "enum": "enum", "constant": "constant"}[c["kind"]], "api"),
                          ("cconst", "vcpy"), ("gconst", "vgen")):
                line = "%s %s %d" % (op, cdefv, x)
                lines.append(line)
                expect.append((dict(form=form, const=c["name"], build=b, line=line), obs[b]))
        elif pr["k"] == "call":
            fn = [f for f in unit["funcs"] if f["name"] == pr["name"]][0]
            if all(isinstance(a, int) for a in pr["args"]):
                argl = []
                for a, t in zip(pr["args"], fn["args"]):
                    size, signed = G.INTS[t]
                    argl.append("argconv %d %d %d" % (0 if signed else 1, size, a))
                size, signed = G.INTS[fn["ret"]]
                total = sum((a % 2 ** 64) * c for a, c in zip(pr["args"], fn["coef"])) + fn["add"]
                res = "fromc %d %d %d" % (0 if signed else 1, size, G.wrap(total, G.INTS[fn["ret"]]))
                lines.extend(argl + [res])
                expect.extend([None] * len(argl) + [(dict(form=form, func=fn["name"], args=pr["args"], nargs=len(argl)),
                                                    obs["vcpy"])])


def run_sessions(ctx, prng, form, unit, builds, base_case):
    """Stateful part: one script of interleaved calls per pair, the same on the three builds; every result is kept
    and re-read after all calls; immediate results, final re-reads and the aliasing of the kept objects must agree."""
    steps = G.make_session(prng, unit, nsteps=ctx.n(40, 80))
    obs = {b: G.run_session(builds[b][0], builds[b][1], unit, steps) for b in BUILDS}
    for i, st in enumerate(steps):
        ctx.case((form, "session", st["op"], i), sample=None)
        ctx.count("session:" + st["op"])
    for part in ("immediate", "final", "alias"):
        if not (obs["api"][part] == obs["vcpy"][part] == obs["vgen"][part]):
            bad = [i for i in range(len(steps)) if len({repr(obs[b][part][i]) for b in BUILDS}) > 1]
            i = bad[0]
            ctx.fail(dict(base_case, probe="session", session=steps, part=part, step=i,
                          observed={b: obs[b][part][i] for b in BUILDS}),
                     "stateful session: %s of the object kept by step %d (%r) differs between the builds: %r%s"
                     % (part, i, steps[i], {b: obs[b][part][i] for b in BUILDS},
                        " (alias = first kept object with the same address)" if part == "alias" else ""))
            return
    ctx.count("session:agree")


def run_unit(ctx, rng, uid, oracle_only=False):
    orig = G.make_unit(rng, uid, for_verify=True)
    csource = G.render_csource(orig)
    lines, expect = [], []
    run_pair(ctx, rng, uid, "base", orig, orig, csource, oracle_only, lines, expect)
    run_pair(ctx, rng, uid, "dots", verify_dots_variant(rng, orig), orig, csource, oracle_only, lines, expect)
    if not lines:
        return
    out = ctx.driver(lines)
    for i, (o, e) in enumerate(zip(out, expect)):
        if e is None:
            continue
        case, obs = e
        if "nargs" in case:            # a call: the argument conversions precede the result line
            argouts = out[i - case["nargs"]:i]
            model = "err OverflowError" if any(a.startswith("err") for a in argouts) else o
        else:
            model = o
        if corr_C12.is_error(obs):
            impl = "err " + {"ffi.error": "FFIError"}.get(obs["exc"], obs["exc"])
        else:
            impl = "ok %d" % obs
        ctx.count("model:%s:%s" % ("call" if "nargs" in case else "const", model.split()[0]))
        if impl != model:
            ctx.disagree(case, impl, model, "verify()/set_source() conversion layer vs Lean model")


def correspond(ctx):
    for uid in range(ctx.n(2, 10)):
        run_unit(ctx, ctx.rng, uid)


def search(ctx):
    for uid in range(100, 100 + ctx.n(3, 12)):
        run_unit(ctx, ctx.rng, uid, oracle_only=True)


def _vstruct_of(case):
    text = case["cdef"] if isinstance(case["cdef"], str) else "".join(c[0] for c in case["cdef"])
    import re
    name = re.search(r"struct (sv\d+) mk_", text).group(1)
    return {"name": name}


def replay(ctx, obj):
    case = G.unjson(obj["case"])
    builds = build_three(ctx, "replay", case["cdef"], case["csource"])
    if case.get("probe") == "session":
        obs = {b: G.run_session(builds[b][0], builds[b][1], {"vstruct": _vstruct_of(case), "funcs": []}, case["session"])
               for b in BUILDS}
        i, part = case["step"], case["part"]
        print("step %d %r, %s: %r" % (i, case["session"][i], part, {b: obs[b][part][i] for b in BUILDS}))
        return 0 if all(obs["api"][q] == obs["vcpy"][q] == obs["vgen"][q] for q in ("immediate", "final", "alias")) else 1
    if case.get("probe") == "load":
        bad = [b for b in BUILDS if isinstance(builds[b][1], Exception)]
        print("builds that failed to load:", bad)
        return 1 if bad else 0
    obs = {b: (G.probe(builds[b][0], builds[b][1], case["probe"]) if not isinstance(builds[b][1], Exception)
               else {"exc": "load"}) for b in BUILDS}
    print("probe %r: %r" % (case["probe"], obs))
    return 0 if obs["api"] == obs["vcpy"] == obs["vgen"] else 1
