"""C22 -- errno is passed to and from C calls and is thread-local (partial).

Theorems (lean/CffiVerif/Props/C22.lean) over the model of restore_errno/save_errno,
b_get_errno/b_set_errno and the wrappers around calls and callbacks:
set_then_call_sees, call_then_get_returns, callback_assignment_visible,
callback_sees_c_errno, steps_commute, noninterference, one_variable,
errno_is_one_thread_local_variable, steps_are_source (the model's steps are the micro-steps
re-extracted from the C / generator source on every run).

Tie to the code: 2-4 Python threads run random programs of ffi.errno reads/writes,
C calls (API-mode builtin, libffi through ffi.addressof, in-line ABI dlopen,
out-of-line ABI dlopen) and C functions calling back into Python (ffi.callback and
extern "Python"), with nested calls inside callbacks.  A token passed along a random
schedule forces the interleaving at segment granularity (also in the middle of a
callback); every event is recorded in the forced total order.
  oracle (independent of the Lean model): a thread only ever observes the last value
      it wrote itself (through ffi.errno or in C);
  correspondence: the recorded trace is replayed through the model's `step`.
"""
import importlib
import os
import sys
import threading

import common
from common import InfraError

sys.path.insert(0, os.path.join(common.VERIF, "translate"))
import c22_steps  # noqa: E402   (what the code does to errno / cffi_saved_errno, as micro-step lists)

MANIFEST = {
    "text": "Kernel-checked theorems over a model of cffi's errno handling (per thread the C errno and cffi's saved "
            "copy; ffi.errno get/set; calls wrapped in restore_errno/save_errno, callbacks and extern \"Python\" in "
            "save_errno/restore_errno): a value assigned to ffi.errno is what the next C call sees, the errno a C "
            "function leaves is what ffi.errno returns, an assignment inside a callback reaches the C caller, and for "
            "any number of threads and any interleaving each thread's observations are a function of its own events "
            "(noninterference by induction over traces; on well-moded traces the two cells refine one thread-local "
            "variable).  Real runs with 2-4 threads under forced schedules over all four call paths and both callback "
            "kinds are checked against a per-thread last-write oracle and replayed through the model.",
    "note": "PARTIAL: that errno and cffi_saved_errno are per-thread storage is glibc / gcc __thread (USE__THREAD build) "
            "and is a parameter of the model, covered by the correspondence run only; libffi and the generated wrappers "
            "are assumed not to touch errno between restore_errno and the C function (validated by running). The "
            "pthread-key fallback of misc_thread_common.h and Windows' SetLastError handling are not modelled.",
    "technique": "Lean 4 proof (induction over event traces of a per-thread two-cell transition system; refinement to a "
                 "single-variable specification) + forced-schedule multi-thread correspondence with the real backend",
}

RULE = ("a case is one multi-thread trace: 2-4 threads, each a program of 3-7 operations drawn from {ffi.errno = v "
        "(in and out of int range), read ffi.errno, get/set/swap C calls through api|addressof|abi-inline|abi-out-of-line, "
        "C function calling back into Python via ffi.callback or extern \"Python\" with a body of reads, writes and "
        "nested calls}; errno values from {0, 1, small, INT_MAX, INT_MIN, negative, random}; the schedule is a random "
        "interleaving of all segments (a callback body is several segments); non-trivial = at least two threads have "
        "distinct live values at some point while one is inside a C call or callback; distinct = distinct (programs, schedule)")
ASSUMPTIONS = ["errno and cffi_saved_errno are thread-local (glibc, gcc __thread); fresh threads start with both 0",
               "only the token holder runs Python code that records events (schedule forced by threading.Event hand-over)"]
TRUSTED_EXTRA = ["the C helpers of corr_C22 (get/set/swap errno, call a function pointer) compiled by gcc"]
CLASSES = {}

WAIT = 30.0
INT_MIN, INT_MAX = -2 ** 31, 2 ** 31 - 1

HELPERS = r"""
#include <errno.h>
int c22_get(void) { return errno; }
void c22_set(int v) { errno = v; }
int c22_swap(int v) { int old = errno; errno = v; return old; }
int c22_callcb(int (*cb)(int), int pre, int post, int use_post, int *seen)
{
    int r;
    seen[0] = errno;
    errno = pre;
    r = cb(pre);
    seen[1] = errno;
    if (use_post) errno = post;
    return r;
}
"""
CDEF = """
int c22_get(void);
void c22_set(int v);
int c22_swap(int v);
int c22_callcb(int (*cb)(int), int pre, int post, int use_post, int *seen);
"""
API_EXTRA_CDEF = """
extern "Python" int c22_xpy(int);
"""

PATHS = ("api", "addr", "abi", "ool")


def _quiet(fn):
    so = os.dup(1)
    devnull = os.open(os.devnull, os.O_WRONLY)
    sys.stdout.flush()
    os.dup2(devnull, 1)
    try:
        return fn()
    finally:
        sys.stdout.flush()
        os.dup2(so, 1)
        os.close(devnull)
        os.close(so)


class World:
    """The four call paths to the same helper functions."""

    def __init__(self, ctx):
        import cffi
        if ctx.scratch not in sys.path:
            sys.path.insert(0, ctx.scratch)
        tag = "%d_%d" % (ctx.seed, os.getpid())
        # (i) API-mode module
        name = "_c22_api_" + tag
        ffi = cffi.FFI()
        ffi.cdef(CDEF + API_EXTRA_CDEF)
        ffi.set_source(name, HELPERS)
        cpath = os.path.join(ctx.scratch, name + ".c")
        _quiet(lambda: ffi.emit_c_code(cpath))
        common.compile_ext(cpath, ctx.scratch, name)
        m = importlib.import_module(name)
        self.api_ffi, self.api_lib = m.ffi, m.lib
        # (ii) plain shared library, in-line ABI and out-of-line ABI
        src = os.path.join(ctx.scratch, "c22_helpers.c")
        with open(src, "w") as f:
            f.write(HELPERS)
        so = os.path.join(ctx.scratch, "libc22_%s.so" % tag)
        common.compile_shared(src, so)
        self.abi_ffi = cffi.FFI()
        self.abi_ffi.cdef(CDEF)
        self.abi_lib = self.abi_ffi.dlopen(so)
        oname = "_c22_ool_" + tag
        f2 = cffi.FFI()
        f2.cdef(CDEF)
        f2.set_source(oname, None)
        _quiet(lambda: f2.emit_python_code(os.path.join(ctx.scratch, oname + ".py")))
        m2 = importlib.import_module(oname)
        self.ool_ffi = m2.ffi
        self.ool_lib = m2.ffi.dlopen(so)
        self.ffis = {"api": self.api_ffi, "addr": self.api_ffi, "abi": self.abi_ffi, "ool": self.ool_ffi}
        self.fn = {}
        for nm in ("c22_get", "c22_set", "c22_swap", "c22_callcb"):
            self.fn["api", nm] = getattr(self.api_lib, nm)
            self.fn["addr", nm] = self.api_ffi.addressof(self.api_lib, nm)
            self.fn["abi", nm] = getattr(self.abi_lib, nm)
            self.fn["ool", nm] = getattr(self.ool_lib, nm)
        self.xpy_body = {}            # thread ident -> body function for the extern "Python" function

        @self.api_ffi.def_extern()
        def c22_xpy(x):
            return self.xpy_body[threading.get_ident()](x)


# ------------------------------------------------------------------ generation

def gen_value(rng, allow_bad=False):
    r = rng.random()
    if allow_bad and r < 0.08:
        return rng.choice([INT_MAX + 1, INT_MIN - 1, 2 ** 40, -2 ** 63 - 5, 2 ** 70])
    if r < 0.2:
        return rng.choice([0, 1, INT_MAX, INT_MIN, -1])
    if r < 0.6:
        return rng.randint(1, 140)
    return rng.randint(INT_MIN, INT_MAX)


def gen_simple(rng):
    r = rng.random()
    ffi_of = rng.choice(PATHS)
    if r < 0.2:
        return {"op": "set", "v": gen_value(rng, True), "ffi": ffi_of}
    if r < 0.4:
        return {"op": "get", "ffi": ffi_of}
    path = rng.choice(PATHS)
    if r < 0.55:
        return {"op": "cget", "path": path}
    if r < 0.7:
        return {"op": "cset", "path": path, "v": gen_value(rng)}
    return {"op": "cswap", "path": path, "v": gen_value(rng)}


def gen_op(rng, depth=0):
    if depth < 2 and rng.random() < 0.3:
        path = rng.choice(PATHS)
        kinds = ["callback", "extern"] if path in ("api", "addr") else ["callback"]
        body = [gen_op(rng, depth + 1) if rng.random() < 0.25 else gen_simple(rng)
                for _ in range(rng.randint(0, 3))]
        return {"op": "callcb", "path": path, "cb": rng.choice(kinds), "pre": gen_value(rng),
                "post": gen_value(rng), "use_post": rng.random() < 0.4, "body": body,
                "ffi": rng.choice(PATHS)}
    return gen_simple(rng)


def nsegments(op):
    if op["op"] == "callcb":
        return 2 + sum(nsegments(b) for b in op["body"])
    return 1


def gen_case(rng):
    nthreads = rng.randint(2, 4)
    programs = [[gen_op(rng) for _ in range(rng.randint(3, 7))] for _ in range(nthreads)]
    slots = []
    for t, prog in enumerate(programs):
        slots += [t] * sum(nsegments(o) for o in prog)
    rng.shuffle(slots)
    return {"programs": programs, "schedule": slots}


# ------------------------------------------------------------------ execution

class Aborted(Exception):
    pass


class Run:
    def __init__(self, world, case):
        self.w = world
        self.case = case
        sched = case["schedule"]
        self.events = [threading.Event() for _ in range(len(sched) + 1)]
        self.positions = {}
        for pos, t in enumerate(sched):
            self.positions.setdefault(t, []).append(pos)
        self.next_seg = {t: 0 for t in range(len(case["programs"]))}
        self.cur = {}
        self.trace = []           # (tid, kind, value or None, observed or None)
        self.errors = []
        self.abort = False

    # -- token
    def begin(self, t):
        k = self.next_seg[t]
        self.next_seg[t] = k + 1
        pos = self.positions[t][k]
        if not self.events[pos].wait(WAIT) or self.abort:
            self.abort = True
            for e in self.events:
                e.set()
            raise Aborted("thread %d did not get its turn %d" % (t, pos))
        self.cur[t] = pos

    def end(self, t):
        self.events[self.cur[t] + 1].set()

    def rec(self, t, kind, v=None, seen=None):
        self.trace.append((t, kind, v, seen))

    # -- operations (each runs while the thread holds the token, except where a callback body yields)
    def simple(self, t, op):
        w = self.w
        kind = op["op"]
        if kind == "set":
            ffi = w.ffis[op["ffi"]]
            try:
                ffi.errno = op["v"]
                self.rec(t, "pySet", op["v"], "none")
            except OverflowError:
                self.rec(t, "pySet", op["v"], "overflow")
        elif kind == "get":
            self.rec(t, "pyGet", None, w.ffis[op["ffi"]].errno)
        elif kind == "cget":
            r = w.fn[op["path"], "c22_get"]()
            self.rec(t, "callEnter"); self.rec(t, "cRead", None, r); self.rec(t, "callExit")
        elif kind == "cset":
            w.fn[op["path"], "c22_set"](op["v"])
            self.rec(t, "callEnter"); self.rec(t, "cWrite", op["v"]); self.rec(t, "callExit")
        elif kind == "cswap":
            r = w.fn[op["path"], "c22_swap"](op["v"])
            self.rec(t, "callEnter"); self.rec(t, "cRead", None, r); self.rec(t, "cWrite", op["v"])
            self.rec(t, "callExit")
        else:
            raise AssertionError(kind)

    def do_op(self, t, op):
        if op["op"] != "callcb":
            self.begin(t)
            try:
                self.simple(t, op)
            finally:
                self.end(t)
            return
        w = self.w
        ffi = w.ffis[op["path"]]
        seen = ffi.new("int[2]", [12345, 12345])
        state = {"exc": None, "in_turn": False}

        def body(x):
            # first segment continues: we are inside the C function, called back
            try:
                self.rec(t, "callEnter"); self.rec(t, "cRead", None, seen[0])
                self.rec(t, "cWrite", op["pre"]); self.rec(t, "cbEnter")
                self.rec(t, "pyGet", None, w.ffis[op["ffi"]].errno)
                self.end(t); state["in_turn"] = False
                for b in op["body"]:
                    self.do_op(t, b)
                self.begin(t); state["in_turn"] = True
            except BaseException as e:          # must not be swallowed by cffi's error handling
                state["exc"] = e
            return x

        self.begin(t); state["in_turn"] = True
        try:
            if op["cb"] == "extern":
                w.xpy_body[threading.get_ident()] = body
                cb = w.api_lib.c22_xpy
            else:
                cb = ffi.callback("int(int)", body)
            r = w.fn[op["path"], "c22_callcb"](cb, op["pre"], op["post"], int(op["use_post"]), seen)
            if state["exc"] is not None:
                raise state["exc"]
            if r != op["pre"]:
                raise InfraError("callback result %r != %r" % (r, op["pre"]))
            self.rec(t, "cbExit"); self.rec(t, "cRead", None, seen[1])
            if op["use_post"]:
                self.rec(t, "cWrite", op["post"])
            self.rec(t, "callExit")
        finally:
            if state["in_turn"]:
                self.end(t)

    def thread_main(self, t):
        try:
            for op in self.case["programs"][t]:
                self.do_op(t, op)
        except BaseException as e:
            self.errors.append((t, e))
            self.abort = True
            for ev in self.events:
                ev.set()

    def go(self):
        threads = [threading.Thread(target=self.thread_main, args=(t,), daemon=True)
                   for t in range(len(self.case["programs"]))]
        for th in threads:
            th.start()
        self.events[0].set()
        for th in threads:
            th.join(WAIT * 2)
            if th.is_alive():
                self.abort = True
                for e in self.events:
                    e.set()
                raise InfraError("thread did not finish (schedule not realised)")
        if self.errors:
            t, e = self.errors[0]
            if isinstance(e, InfraError):
                raise e
            raise InfraError("thread %d failed: %r" % (t, e))
        return self.trace


def oracle(trace, nthreads):
    """Per-thread last-write semantics, independent of the Lean model.  Returns
    (list of mismatches, nontrivial?)."""
    live = [0] * nthreads
    depth = [0] * nthreads
    bad = []
    nontrivial = False
    for i, (t, kind, v, seen) in enumerate(trace):
        if kind == "pySet":
            inrange = INT_MIN <= v <= INT_MAX
            if (seen == "overflow") != (not inrange):
                bad.append((i, "ffi.errno = %d: %s" % (v, seen)))
            if inrange:
                live[t] = v
        elif kind in ("pyGet", "cRead"):
            if seen != live[t]:
                bad.append((i, "thread %d %s observed %r, its own last write is %r" % (t, kind, seen, live[t])))
        elif kind == "cWrite":
            live[t] = v
        elif kind in ("callEnter", "cbEnter"):
            depth[t] += 1
        elif kind in ("callExit", "cbExit"):
            depth[t] -= 1
        if len(set(live)) > 1 and any(depth):
            nontrivial = True
    return bad, nontrivial


def lines_of(trace, nthreads):
    lines, expect = ["reset"], ["ok -"]
    for (t, kind, v, seen) in trace:
        lines.append("ev %d %s%s" % (t, kind, "" if v is None else " %d" % v))
        if kind in ("pyGet", "cRead"):
            expect.append("ok %d" % seen)
        elif kind == "pySet" and seen == "overflow":
            expect.append("err OverflowError")
        else:
            expect.append("ok -")
    for t in range(nthreads):
        own = []
        for (u, kind, v, seen) in trace:
            if u == t:
                own.append(kind if v is None else "%s %d" % (kind, v))
        lines.append("wf " + " ".join(own))
        expect.append("ok 1")
    return lines, expect


def run_cases(ctx, n, model=True):
    import time
    t0 = time.time()
    world = World(ctx)
    all_lines, all_expect, owners = [], [], []
    for _ in range(n):
        case = gen_case(ctx.rng)
        trace = Run(world, case).go()
        nthreads = len(case["programs"])
        bad, nontrivial = oracle(trace, nthreads)
        key = repr((case["programs"], case["schedule"]))
        ctx.case(key if nontrivial else None,
                 sample={"threads": nthreads, "segments": len(case["schedule"]), "events": len(trace)})
        ctx.count("threads:%d" % nthreads)
        for (_, kind, v, seen) in trace:
            ctx.count("ev:" + kind + (":overflow" if seen == "overflow" else ""))
        for prog in case["programs"]:
            for op in prog:
                ctx.count("op:%s:%s" % (op["op"], op.get("path", op.get("ffi"))))
        if bad:
            ctx.fail(case, "; ".join(d for _, d in bad[:3]))
        if model:
            ls, ex = lines_of(trace, nthreads)
            all_lines += ls
            all_expect += ex
            owners += [case] * len(ls)
    common.log("C22: %d traces run in %.1fs" % (n, time.time() - t0))
    if model and all_lines:
        out = ctx.driver(all_lines)
        common.log("C22: model replayed %d lines at %.1fs" % (len(all_lines), time.time() - t0))
        for line, o, e, case in zip(all_lines, out, all_expect, owners):
            if o != e:
                ctx.disagree(case, e, o, "trace event %r" % line)
                break


def translators(ctx):
    """Generated/ErrnoSteps.lean: save/restore bodies, b_get_errno/b_set_errno, the wrappers around C calls and
    callbacks; `steps_are_source` proves the model's step function equal to running them."""
    return [c22_steps.translator(ctx)]


def correspond(ctx):
    run_cases(ctx, ctx.n(150, 1000))


def search(ctx):
    run_cases(ctx, ctx.n(400, 6000), model=False)


def _fix_op(op):
    """Replay files store integers beyond 2**62 as decimal strings (common.jsonable)."""
    for k in ("v", "pre", "post"):
        if k in op:
            op[k] = int(op[k])
    for b in op.get("body", ()):
        _fix_op(b)


def replay(ctx, obj):
    case = obj["case"]
    for prog in case["programs"]:
        for op in prog:
            _fix_op(op)
    world = World(ctx)
    trace = Run(world, case).go()
    bad, _ = oracle(trace, len(case["programs"]))
    for t, kind, v, seen in trace:
        print("thread %d %s %s -> %s" % (t, kind, "" if v is None else v, "" if seen is None else seen))
    for _, d in bad:
        print("MISMATCH:", d)
    return 1 if bad else 0
