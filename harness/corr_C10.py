"""C10 -- enum values and underlying integer type match the C compiler.

Theorems (lean/CffiVerif/Props/C10.lean): values_eq_c, base_eq_gcc, rejected_iff_gcc_rejects,
range_bounds, nameOf_first_declared, prim_int_table_total_and_correct,
base_candidates_as_modelled (the last two over tables re-extracted from the source on every
run), cffi_accepts_more.

Tie to the code, for random enumerator sequences (explicit values that are negative, beyond
INT_MAX / UINT_MAX / LONG_MAX, duplicates, implicit runs, references to earlier enumerators):
  * cffi in-line (values, ffi.sizeof, signedness, ffi.string), an out-of-line ABI module
    (emit_python_code) and one compiled API-mode module per run (common.compile_ext);
  * the Lean driver: model of _build_enum_type / build_baseinttype / the name dictionary, and
    the specification of gcc's build_enumerator / finish_enum;
  * REAL gcc: one program per batch printing sizeof, signedness and every enumerator;
    declarations the specification calls rejected are confirmed with `gcc -fsyntax-only -Werror`.
"""
import importlib
import os
import sys
import time
import warnings

import common
from common import InfraError
import corr_C09 as c9

MANIFEST = {
    "text": "Kernel-checked theorems over a model of _build_enum_type, EnumType.build_baseinttype and the value->name "
            "dictionary of b_new_enum_type against a specification of gcc's build_enumerator/finish_enum: whenever gcc accepts "
            "an enumerator list of any length (explicit values, implicit +1 runs, references to earlier enumerators) cffi gives "
            "every enumerator gcc's value (values_eq_c; premise on each explicit expression: a bare literal, all-signed operands, "
            "or no unsigned wrap-around -- C09's theorems); cffi's underlying type "
            "is exactly the one gcc's min-precision rule picks and cffi raises CDefError exactly when gcc has no type "
            "(base_eq_gcc, rejected_iff_gcc_rejects); ffi.string yields the first declared name or the decimal value "
            "(nameOf_first_declared); the (size, signed)->PRIM tables of recompiler.py and _cffi_include.h, re-extracted every "
            "run, agree and name the right fixed-width type. Tied to the code and to gcc by random enumerator sequences in "
            "in-line, out-of-line ABI and compiled API modes against a gcc-compiled program.",
    "note": "Trusted: Lean kernel; the gcc rule is a specification validated against real gcc on every run, not derived from "
            "gcc's source; pycparser; the harness. sizeof(int)=4 / sizeof(long)=8 are platform parameters of the model. Partial "
            "('...') and empty enums are excluded by the property and not modelled.",
    "technique": "Lean 4 proof (induction over the enumerator list with a scope-agreement invariant; Nat.log2 characterisation of "
                 "gcc's min precision; decide over regenerated tables) + differential correspondence of cffi (three modes), the "
                 "Lean model/spec driver and gcc",
}

RULE = ("enums of 1..8 enumerators; each enumerator implicit, an explicit literal (small, negative, around 2^31, 2^32, 2^63, 2^64 "
        "in decimal/octal/hex/binary with suffixes), a duplicate of an earlier value, or an expression over earlier enumerators; "
        "`enum tag {...}` and `typedef enum {...} name`; non-trivial when the enum has a negative value, a value beyond INT_MAX, "
        "a duplicate, or a reference; distinct = distinct declaration texts")
ASSUMPTIONS = ["gcc 12 x86-64 LP64 is the C oracle (sizeof(int)=4, sizeof(long)=8)"]
TRUSTED_EXTRA = ["translate/enum_prim.py (regex extraction of prim_index, _cffi_prim_int, primitive_name[], build_baseinttype candidates)"]

CLASSES = {
    # C09's known finding seen through an enumerator: an explicit value expression is outside
    # `exprOk` (it has an unsigned operation that wraps) and cffi computed the exact unbounded values
    # (or, when those exact values fit no 64-bit type, refused them with CDefError)
    "C10/unsigned-typed-enumerator-expression":
        lambda case: bool(case.get("unsigned_operand")) and (
            (case.get("cffi_values") is not None
             and [str(v) for v in case.get("cffi_values")] == [str(v) for v in (case.get("exact_values") or [])])
            or (case.get("cffi_values") is None and case.get("cffi_err") == "err:cdef"
                and case.get("cffi_stage") == "typeof" and case.get("exact_fit") is False)),
}


BASES = {"int": (4, True), "uint": (4, False), "long": (8, True), "ulong": (8, False),
         "llong": (8, True), "ullong": (8, False)}


def translators(ctx):
    sys.path.insert(0, os.path.join(common.VERIF, "translate"))
    import constexpr_py
    import enum_prim
    return [constexpr_py.run, enum_prim.run]


# ---------------------------------------------------------------- generation

INTERESTING = [0, 1, 2, 5, 100, 127, 128, 255, 256, 32767, 65535, 2 ** 31 - 2, 2 ** 31 - 1, 2 ** 31, 2 ** 31 + 1,
               2 ** 32 - 2, 2 ** 32 - 1, 2 ** 32, 2 ** 32 + 1, 2 ** 62, 2 ** 63 - 2, 2 ** 63 - 1, 2 ** 63, 2 ** 63 + 1,
               2 ** 64 - 2, 2 ** 64 - 1]


def lit_for(rng, v, signed_only=False):
    """A literal token with value v >= 0 whose C type exists (mostly)."""
    if signed_only and v < 2 ** 63:
        return ("lit", str(v) + rng.choice(["", "", "l", "LL"]), v)
    base = rng.choice(["dec", "dec", "hex", "oct", "bin"]) if v < 2 ** 63 else rng.choice(["hex", "hex", "oct", "dec"])
    if base == "dec":
        s = str(v)
    elif base == "hex":
        s = rng.choice(["0x", "0X"]) + "".join(rng.choice([c, c.upper()]) for c in hex(v)[2:])
    elif base == "oct":
        s = "0" + (oct(v)[2:] if v else "")
    else:
        s = "0b" + bin(v)[2:]
    r = rng.random()
    if v >= 2 ** 63 and base == "dec":
        s += rng.choice(["u", "ul", "ULL", "Ul"])
    elif r < 0.2:
        s += rng.choice(["u", "U", "l", "L", "ul", "LL", "ull", "lu"])
    return ("lit", s, v)


def gen_item_tree(rng, prev):
    """prev: [(name, exact value)] of the earlier enumerators.  Returns a tree or None (implicit)."""
    r = rng.random()
    if r < 0.38:
        return None
    if prev and r < 0.46:                      # duplicate of an earlier value
        v = rng.choice(prev)[1]
        t = lit_for(rng, abs(v), v < 0) if abs(v) < 2 ** 64 else ("lit", "7", 7)
        return ("neg", t) if v < 0 else t
    if prev and r < 0.62:                      # expression over earlier enumerators
        n, v = rng.choice(prev)
        ref = ("ref", n, v)
        k = rng.random()
        if k < 0.25:
            return ref
        if k < 0.5:
            return ("bin", rng.choice(["add", "sub"]), ref, c9.gen_literal(rng, small=True))
        if k < 0.65:
            return ("bin", rng.choice(["bor", "band", "bxor"]), ref, lit_for(rng, rng.choice([1, 4, 255, 2 ** 31])))
        if k < 0.8:
            n2, v2 = rng.choice(prev)
            return ("bin", rng.choice(["sub", "add", "mul"]), ref, ("ref", n2, v2))
        if k < 0.9:
            return ("neg", ref)
        return ("bin", rng.choice(["mul", "shl", "div"]), ref, c9.gen_literal(rng, small=True))
    v = rng.choice(INTERESTING) if rng.random() < 0.7 else rng.getrandbits(rng.choice([4, 8, 31, 32, 33, 63, 64]))
    t = lit_for(rng, v)
    k = rng.random()
    if k < 0.28:
        so = rng.random() < 0.85
        if rng.random() < 0.3 and v > 0:
            return ("bin", "sub", ("neg", lit_for(rng, v - 1, so)), ("lit", "1", 1))     # e.g. -2147483647 - 1
        return ("neg", lit_for(rng, v, so))
    return t


def gen_enum(rng, idx):
    n = rng.choice([1, 2, 2, 3, 3, 4, 5, 6, 8])
    items, prev, nxt = [], [], 0
    for j in range(n):
        name = "e%d_%d" % (idx, j)
        for _ in range(20):
            t = gen_item_tree(rng, prev)
            if t is None:
                break
            try:
                v = c9.exact(t)
            except OverflowError:
                continue
            if v is not None and not c9.too_big(t):
                break
        else:
            t = None
        v = nxt if t is None else c9.exact(t)
        items.append((name, t))
        prev.append((name, v))
        nxt = v + 1
    style = "typedef" if rng.random() < 0.25 else "tag"
    return {"idx": idx, "items": items, "exact_values": [v for _, v in prev], "style": style}


def directed_enums(start):
    """Boundary cases every run checks: each edge of build_baseinttype's range tests, duplicates,
    implicit runs across 0, references."""
    L = lambda v: ("lit", str(v), v) if v < 2 ** 63 else ("lit", hex(v), v)
    N = lambda v: ("neg", ("lit", str(v), v))
    MIN32 = ("bin", "sub", N(2 ** 31 - 1), ("lit", "1", 1))
    MIN64 = ("bin", "sub", N(2 ** 63 - 1), ("lit", "1", 1))
    BELOW32 = ("bin", "sub", N(2 ** 31), ("lit", "1", 1))
    seqs = [
        [L(2 ** 31 - 1)], [L(2 ** 31)], [L(2 ** 32 - 1)], [L(2 ** 32)], [L(2 ** 63 - 1)], [L(2 ** 63)], [L(2 ** 64 - 1)],
        [N(1), L(2 ** 31 - 1)], [N(1), L(2 ** 31)], [N(1), L(2 ** 32 - 1)], [N(1), L(2 ** 63 - 1)], [N(1), L(2 ** 63)],
        [N(1), L(2 ** 64 - 1)], [MIN32], [MIN32, L(2 ** 31 - 1)], [BELOW32], [MIN64], [MIN64, L(2 ** 63 - 1)],
        [MIN32, L(2 ** 31)], [L(0)], [None], [None, None, None], [N(2), None, None, None, None],
        [L(2 ** 31 - 2), None], [L(2 ** 31 - 1), None], [L(2 ** 32 - 2), ("lit", "0xFFFFFFFE", 2 ** 32 - 2)],
        [("lit", "0xFFFFFFFE", 2 ** 32 - 2), None], [("lit", "0xFFFFFFFF", 2 ** 32 - 1), None],
        [("lit", "4294967295L", 2 ** 32 - 1), None], [L(2 ** 63 - 2), None], [L(2 ** 63 - 1), None],
        [L(5), L(5), L(5)], [L(1), None, L(1), None], [N(1), None, N(1), None, L(0)], [L(3), L(2), L(1), L(2), L(3)],
    ]
    out = []
    for k, seq in enumerate(seqs):
        idx = start + k
        items, prev, nxt = [], [], 0
        for j, t in enumerate(seq):
            v = nxt if t is None else c9.exact(t)
            items.append(("e%d_%d" % (idx, j), t))
            prev.append(v)
            nxt = v + 1
        out.append({"idx": idx, "items": items, "exact_values": prev, "style": "typedef" if k % 4 == 3 else "tag"})
    # references to earlier enumerators: each item is a function of `ref(j)` (the j-th enumerator)
    one, zero, four = ("lit", "1", 1), ("lit", "0", 0), ("lit", "4", 4)
    refseqs = [
        [lambda r: ("lit", "5", 5), lambda r: ("bin", "add", r(0), one), lambda r: None,
         lambda r: ("bin", "mul", r(1), r(0))],
        [lambda r: ("neg", ("lit", "3", 3)), lambda r: r(0), lambda r: ("neg", r(0)), lambda r: ("bin", "sub", r(2), r(0))],
        [lambda r: ("lit", "0x7fffffff", 2 ** 31 - 1), lambda r: ("bin", "bor", r(0), zero),
         lambda r: ("bin", "shr", r(0), four), lambda r: None],
    ]
    for k, fs in enumerate(refseqs):
        idx = start + len(seqs) + k
        items, vals, nxt = [], [], 0
        for j, f in enumerate(fs):
            t = f(lambda q: ("ref", "e%d_%d" % (idx, q), vals[q]))
            v = nxt if t is None else c9.exact(t)
            items.append(("e%d_%d" % (idx, j), t))
            vals.append(v)
            nxt = v + 1
        out.append({"idx": idx, "items": items, "exact_values": vals, "style": "tag"})
    return out


def decl_text(e):
    if "decl" in e:
        return e["decl"]
    body = ", ".join(n if t is None else "%s = %s" % (n, c9.render(t)) for n, t in e["items"])
    if e["style"] == "typedef":
        return "typedef enum { %s } t%d;" % (body, e["idx"])
    return "enum g%d { %s };" % (e["idx"], body)


def type_name(e):
    return "t%d" % e["idx"] if e["style"] == "typedef" else "enum g%d" % e["idx"]


def driver_line(e):
    parts = []
    for n, t in e["items"]:
        parts.append(n + " " + ("-" if t is None else " ".join(c9.tokens(t))))
    return "enum " + " ; ".join(parts)


def nontrivial(e):
    vs = e["exact_values"]
    return (min(vs) < 0 or max(vs) > 2 ** 31 - 1 or len(set(vs)) < len(vs)
            or any(t is not None and t[0] != "lit" for _, t in e["items"]))


# ---------------------------------------------------------------- observing cffi

def observe(ffi, e, probe_values):
    """Canonical observation of one enum through an FFI object (any mode)."""
    tn = type_name(e)
    try:
        tp = ffi.typeof(tn)
        rel = tp.relements
        values = [rel[n] for n, _ in e["items"]]
        size = ffi.sizeof(tn)
        signed = int(ffi.cast(tn, -1)) < 0
        strings = {}
        for v in probe_values:
            lo, hi = (-(2 ** (8 * size - 1)), 2 ** (8 * size - 1) - 1) if signed else (0, 2 ** (8 * size) - 1)
            if lo <= v <= hi:
                strings[v] = ffi.string(ffi.cast(tn, v))
        return {"ok": True, "values": values, "size": size, "signed": signed, "strings": strings}
    except Exception as ex:
        return {"ok": False, "err": c9.err_kind(ex)}


def observe_inline(e, probe_values):
    import cffi
    ffi = cffi.FFI()
    try:
        ffi.cdef(decl_text(e))
    except Exception as ex:
        return {"ok": False, "err": c9.err_kind(ex), "stage": "cdef"}
    o = observe(ffi, e, probe_values)
    if not o["ok"]:
        o["stage"] = "typeof"
    return o


def first_name(e, values, v):
    for (n, _), x in zip(e["items"], values):
        if x == v:
            return n
    return str(v)


# ---------------------------------------------------------------- gcc

def gcc_enums(ctx, enums):
    if not enums:
        return {}
    lines = ["#include <stdio.h>"]
    for e in enums:
        lines.append(decl_text(e))
    lines.append("int main(void) {")
    for k, e in enumerate(enums):
        tn = type_name(e)
        lines.append('  printf("T %d %%d %%d\\n", (int)sizeof(%s), (int)((%s)-1 < 0));' % (k, tn, tn))
        for n, _ in e["items"]:
            lines.append('  printf("V %d %%lld %%llu %%d\\n", (long long)(%s), (unsigned long long)(%s), (int)((%s) < 0));'
                         % (k, n, n, n))
    lines.append("  return 0;\n}")
    num = len([f for f in os.listdir(ctx.scratch) if f.startswith("c10_oracle")])
    cfile = os.path.join(ctx.scratch, "c10_oracle_%d.c" % num)
    with open(cfile, "w") as f:
        f.write("\n".join(lines) + "\n")
    exe = common.compile_prog(cfile, cfile[:-2] + ".exe")
    out = common.run_prog(exe)
    res = {}
    for line in out.splitlines():
        w = line.split()
        k = int(w[1])
        r = res.setdefault(enums[k]["idx"], {"values": []})
        if w[0] == "T":
            r["size"], r["signed"] = int(w[2]), bool(int(w[3]))
        else:
            r["values"].append(int(w[2]) if int(w[4]) else int(w[3]))
    return res


def gcc_accepted_among(ctx, enums):
    """`gcc -fsyntax-only -Werror` on a file with one declaration per line: the declarations gcc
    has NO diagnostic for (warnings such as "enumeration values exceed range of largest integer"
    count as rejection)."""
    if not enums:
        return []
    import re
    num = len([f for f in os.listdir(ctx.scratch) if f.startswith("c10_reject")])
    cfile = os.path.join(ctx.scratch, "c10_reject_%d.c" % num)
    with open(cfile, "w") as f:
        for e in enums:
            f.write(decl_text(e).replace("\n", " ") + "\n")
    r = common.run(["gcc", "-fsyntax-only", "-Werror", "-fmax-errors=0", cfile])
    bad = set(int(m.group(1)) for m in re.finditer(r"^%s:(\d+):\d+: error" % re.escape(cfile), r.stdout, re.M))
    if r.returncode == 0 or not bad:
        return list(enums)
    return [e for i, e in enumerate(enums, 1) if i not in bad]


# ---------------------------------------------------------------- one batch

def parse_driver(line):
    if not line.startswith("ok "):
        raise InfraError("driver answered %r" % line)
    return dict(kv.split("=", 1) for kv in line.split()[1:])


def case_of(e, mode, o=None):
    c = {"decl": decl_text(e), "mode": mode, "idx": e["idx"], "style": e["style"],
         "exact_values": e["exact_values"], "unsigned_operand": e.get("unsigned_operand"),
         "driver": driver_line(e)}
    if o is not None and o.get("ok"):
        c["cffi_values"] = o["values"]
        c["cffi_size"], c["cffi_signed"] = o["size"], o["signed"]
    elif o is not None:
        c["cffi_values"] = None
        c["cffi_err"] = o.get("err")
        c["cffi_stage"] = o.get("stage")
    vs = e["exact_values"]
    if vs:
        c["exact_fit"] = (min(vs) >= -2 ** 63 and max(vs) < 2 ** 63) if min(vs) < 0 else max(vs) < 2 ** 64
    return c


def compare_with_gcc(ctx, e, o, g, mode):
    """The property's own statement for one enum in one mode."""
    if not o["ok"]:
        ctx.fail(case_of(e, mode, o), "gcc accepts the declaration, cffi (%s) raises %s" % (mode, o["err"]))
        return
    if o["values"] != g["values"]:
        ctx.fail(case_of(e, mode, o), "%s: enumerator values %r, gcc has %r" % (mode, o["values"], g["values"]))
    elif o["size"] != g["size"] or o["signed"] != g["signed"]:
        ctx.fail(case_of(e, mode, o), "%s: underlying type (size %d, signed %s), gcc has (size %d, signed %s)"
                 % (mode, o["size"], o["signed"], g["size"], g["signed"]))
    for v, s in o["strings"].items():
        want = first_name(e, o["values"], v)
        if s != want:
            ctx.fail(case_of(e, mode, o), "%s: ffi.string of value %d is %r, first declared name / decimal is %r"
                     % (mode, v, s, want))


def probes(e, values):
    vs = sorted(set(values))[:6]
    absent = max(vs) + 1 if vs else 0
    while absent in values:
        absent += 1
    return vs + [absent, 0 if 0 not in values else absent + 2]


def _t(label, t0):
    if os.environ.get("C10_DEBUG"):
        common.log("  [%s] %.1fs" % (label, time.time() - t0))
    return time.time()


def run_batch(ctx, n, start, oracle_only=False, api=False, directed=False):
    rng = ctx.rng
    t0 = time.time()
    enums = directed_enums(start + n) if directed else []
    enums = enums + [gen_enum(rng, start + i) for i in range(n)]
    lines, pos = [], []
    for e in enums:
        lines.append("reset")
        pos.append(len(lines))
        lines.append(driver_line(e))
        e["probes"] = probes(e, e["exact_values"])
        for v in e["probes"]:
            lines.append("nameof %d" % v)
    out = ctx.driver(lines, name="C10")
    t0 = _t("driver", t0)
    gcc_list, accepted, rejected = [], [], []
    for k, e in enumerate(enums):
        d = parse_driver(out[pos[k]])
        e["model_names"] = dict((v, out[pos[k] + 1 + j]) for j, v in enumerate(e["probes"]))
        e["d"] = d
        e["unsigned_operand"] = d["itemsok"] == "0"
        spec_ok = d["spec"] not in ("reject", "undef", "nogrammar") and d["sbase"] not in ("none", "-")
        e["spec_ok"] = spec_ok
        model_vals = None if d["model"].startswith("err") else [int(x) for x in d["model"].split(",")]
        o = observe_inline(e, e["probes"])
        e["o"] = o
        ctx.case(decl_text(e) if nontrivial(e) else None,
                 sample={"decl": decl_text(e), "cffi": o.get("values"), "size": o.get("size"), "signed": o.get("signed"),
                         "gcc_rule": d["spec"] + "/" + d["sbase"]})
        ctx.count("n-enumerators:%d" % len(e["items"]))
        ctx.count("cffi:" + (("%d-byte-%s" % (o["size"], "signed" if o["signed"] else "unsigned")) if o["ok"]
                             else o["err"] + "@" + o.get("stage", "?")))
        ctx.count("gcc-rule:" + ("accept:" + d["sbase"] if spec_ok else
                                 d["spec"] if d["spec"] in ("undef", "nogrammar") else "reject"))
        # ---- cffi vs model
        if not oracle_only:
            if model_vals is None:
                want = {"ok": False, "err": d["model"], "stage": "cdef"}
            elif d["base"].startswith("err"):
                want = {"ok": False, "err": d["base"], "stage": "typeof"}
            else:
                sz, sg = BASES[d["base"]]
                want = {"ok": True, "values": model_vals, "size": sz, "signed": sg}
            got = dict((k2, o.get(k2)) for k2 in want)
            if got != want:
                _disagree(ctx, case_of(e, "in-line", o), got, want, "cffi in-line vs model of _build_enum_type/build_baseinttype")
            if o["ok"]:
                for v, s in o["strings"].items():
                    if e["model_names"][v] != "ok " + s:
                        _disagree(ctx, case_of(e, "in-line", o), s, e["model_names"][v],
                                     "ffi.string(%d) vs model nameOf" % v)
        # ---- oracle
        if spec_ok:
            gcc_list.append(e)
        elif d["spec"] == "undef":
            pass            # an explicit value has undefined behaviour in C: outside the property
        else:
            rejected.append(e)
            ctx.count("gcc-reject-confirmed")
            if o["ok"]:
                ctx.count("cffi-accepts-what-gcc-rejects")
        if o["ok"]:
            accepted.append(e)
    t0 = _t("cffi in-line", t0)
    for e in gcc_accepted_among(ctx, rejected):
        raise InfraError("specification vs gcc: Spec/GccEnum rejects %r, gcc -Werror accepts it" % decl_text(e))
    t0 = _t("gcc -Werror on the rejected ones", t0)
    g = gcc_enums(ctx, gcc_list)
    t0 = _t("gcc", t0)
    for e in gcc_list:
        d, ge = e["d"], g[e["idx"]]
        spec_vals = [int(x) for x in d["spec"].split(",")]
        if spec_vals != ge["values"] or BASES[d["sbase"]] != (ge["size"], ge["signed"]):
            raise InfraError("specification vs gcc: %r is %r %s for Spec/GccEnum, %r for gcc"
                             % (decl_text(e), spec_vals, d["sbase"], ge))
        ctx.count("gcc-checked")
        compare_with_gcc(ctx, e, e["o"], ge, "in-line")
    # ---- out-of-line ABI: every enum cffi accepted, in one module
    both = [e for e in accepted if e["spec_ok"]]
    check_module(ctx, both, g, "abi")
    t0 = _t("abi module", t0)
    if api:
        check_module(ctx, both[:80], g, "api")
        t0 = _t("api module", t0)
    return enums


def check_module(ctx, enums, g, mode, depth=0):
    if not enums:
        return
    import cffi
    src = "\n".join(decl_text(e) for e in enums) + "\n"
    modname = "_c10_%s_%d_%d" % (mode, ctx.seed, len(os.listdir(ctx.scratch)))
    ffi = cffi.FFI()
    try:
        ffi.cdef(src)
        if mode == "abi":
            ffi.set_source(modname, None)
            path = os.path.join(ctx.scratch, modname + ".py")
            c9._quiet(lambda: ffi.emit_python_code(path))
        else:
            ffi.set_source(modname, src)
            cpath = os.path.join(ctx.scratch, modname + ".c")
            c9._quiet(lambda: ffi.emit_c_code(cpath))
            common.compile_ext(cpath, ctx.scratch, modname)
        m = importlib.import_module(modname)
    except InfraError:
        raise
    except Exception as ex:
        if len(enums) == 1:
            ctx.fail(case_of(enums[0], mode), "accepted in-line, but the %s module cannot be generated: %r" % (mode, ex))
            return
        if depth > 10:
            raise InfraError("%s module keeps failing: %r" % (mode, ex))
        h = len(enums) // 2
        check_module(ctx, enums[:h], g, mode, depth + 1)
        check_module(ctx, enums[h:], g, mode, depth + 1)
        return
    for e in enums:
        o = observe(m.ffi, e, probes(e, g[e["idx"]]["values"]))
        ctx.case(None)
        ctx.count("mode:" + mode)
        compare_with_gcc(ctx, e, o, g[e["idx"]], mode)


# ---------------------------------------------------------------- entry points

def _disagree(ctx, case, impl, model, what):
    """Record a model-vs-implementation disagreement and make it visible in the log."""
    line = "DISAGREEMENT %s: %s | impl=%r model=%r | %s" % (ctx.prop, what, impl, model,
                                                        case.get("expr") or case.get("decl"))
    if len(ctx.disagreements) < 25:          # enough to diagnose from the log alone, no flood
        common.log(line[:300])
    ctx.disagree(case, impl, model, what)


def _setup(ctx):
    warnings.simplefilter("ignore")
    if ctx.scratch not in sys.path:
        sys.path.insert(0, ctx.scratch)


def correspond(ctx):
    _setup(ctx)
    total = ctx.n(500, 10000)
    per = 500 if ctx.quick else 1000
    done = 0
    while done < total:
        k = min(per, total - done)
        run_batch(ctx, k, done, api=(done == 0), directed=(done == 0))
        done += k


def search(ctx):
    _setup(ctx)
    total = ctx.n(2500, 30000)
    done = 0
    while done < total and not ctx.failures:
        run_batch(ctx, 500, 100000 + done, oracle_only=True, api=(done == 0), directed=(done == 0))
        done += 500


def _enum_from_decl(decl):
    """Rebuild the minimal structure `observe` / gcc need from a declaration text."""
    import re
    m = re.match(r"(typedef )?enum (g\d+ )?\{ (.*) \}( t\d+)?;", decl)
    idx = int(re.search(r"[gt](\d+)", (m.group(2) or "") + (m.group(4) or "")).group(1))
    names = [p.split("=")[0].strip() for p in m.group(3).split(",")]

    return {"idx": idx, "items": [(n, None) for n in names], "style": "typedef" if m.group(1) else "tag",
            "decl": decl, "exact_values": None}


def replay(ctx, obj):
    _setup(ctx)
    case = obj["case"]
    e = _enum_from_decl(case["decl"])
    g = gcc_enums(ctx, [e])[e["idx"]]
    pv = probes(e, g["values"])
    before = len(ctx.failures)
    if case.get("mode") in ("abi", "api"):
        check_module(ctx, [e], {e["idx"]: g}, case["mode"])
        print("%s in %s mode: gcc has %r; %d mismatch(es)" % (case["decl"], case["mode"], g, len(ctx.failures) - before))
    else:
        o = observe_inline(e, pv)
        compare_with_gcc(ctx, e, o, g, "in-line")
        print("%s: cffi %r, gcc %r" % (case["decl"], o, g))
    return 1 if len(ctx.failures) > before else 0


def check_witness(ctx, finding):
    _setup(ctx)
    import cffi
    ffi = cffi.FFI()
    ffi.cdef(finding["witness"]["decl"])
    rel = ffi.typeof("enum e").relements
    return [rel["A"], rel["B"]] != finding["witness"]["c"]
