"""C09 -- integer constant expressions in a cdef evaluate as C evaluates them.

Theorems (lean/CffiVerif/Props/C09.lean): c_div_is_tdiv, c_mod_is_tmod, literal_agrees,
define_literal_agrees, char_agrees, eval_agrees_partial (all operands / intermediates signed),
eval_agrees_nowrap (any types, no wrap-around), spec_value_in_range, the error branches, and
unrestricted_statement_false (witness `1u - 2`).

Tie to the code, for random expression trees (depth <= 6):
  * cffi (in-process, in-line FFI and an out-of-line module written by emit_python_code)
    evaluates the expression in an array length, an enumerator value, a bit-field width and --
    for bare literals -- `#define NAME literal` / `static const T NAME = literal;`;
  * the Lean driver evaluates the same tree with the model of `_parse_constant` /
    `_add_integer_constant` and with the C11 typed specification;
  * REAL gcc compiles one program per batch printing `(long long)(expr)` and a `_Generic`
    type tag for every expression the specification calls defined.
  cffi vs gcc  -> ctx.fail (unless in the known class C09/unsigned-typed-operand),
  cffi vs model -> ctx.disagree, specification vs gcc -> InfraError (harness self-check).
"""
import importlib
import os
import sys
import time
import warnings

import common
from common import InfraError

MANIFEST = {
    "text": "Kernel-checked theorems over a model of cffi's constant evaluator (_parse_constant, _c_div, literal lexing) and a "
            "C11/LP64 typed-evaluation specification: _c_div is truncating division and the % formula is C's remainder for all "
            "integers; every well-formed C integer literal and simple character constant is read to its C value; for expression "
            "trees of any depth whose operands and intermediate results all have signed C types, whenever C defines the value "
            "cffi accepts the expression and computes exactly that value (eval_agrees_partial), and more generally for every "
            "expression in which no unsigned operation wraps and no negative value is converted to unsigned (eval_agrees_nowrap); "
            "decimal/octal/hex literals in #define / static const are bound to their C value (define_literal_agrees); the "
            "unrestricted statement is refuted at `1u - 2` (known finding). Model and specification are tied to the code and to gcc on every run by random "
            "expression trees evaluated by cffi (array lengths, enumerators, bit-field widths, #define, static const; in-line and "
            "out-of-line), by the Lean driver and by a gcc-compiled program.",
    "note": "Trusted: Lean kernel; pycparser (tokens and tree shape are inputs of the model); gcc as the C oracle; the harness "
            "(tree rendering, exact evaluator used only to classify the known finding); Python int(s, base) modelled for "
            "pycparser-producible tokens only. Expressions in which an unsigned operation wraps are outside the proved theorems "
            "(that is the known finding) and are covered by testing only.",
    "technique": "Lean 4 proof (induction on expression trees; BitVec lemmas for & | ^; case analysis of fdiv/tdiv) + differential "
                 "correspondence of cffi, the Lean model/spec driver and gcc on random expression trees",
}

RULE = ("random expression trees of depth 0..6 over + - * / % << >> & | ^, unary + -, integer literals (decimal/octal/hex/binary, "
        "all u/l/ll suffix spellings, values around 0, 2^31, 2^32, 2^63, 2^64), plain and escaped character constants, references "
        "to #define'd names and earlier enumerators, plus malformed tokens and unsupported operators for the error branches; each "
        "is placed in an array length / enumerator / bit-field width / #define / static const as its value allows; a case is "
        "non-trivial when it has an operator, a non-decimal or suffixed literal, a character constant or a reference; distinct = "
        "distinct (expression text, form)")
ASSUMPTIONS = ["gcc 12 x86-64 LP64 is the C oracle", "pycparser delivers the token texts and the tree the harness rendered"]

CLASSES = {
    # an operand or intermediate result has an unsigned C type, some operation wraps around (or
    # converts a negative value to unsigned) according to the specification's `noWrap`, AND cffi
    # computed the exact (unbounded) value: the disagreement is C's modular arithmetic
    "C09/unsigned-typed-operand":
        lambda case: bool(case.get("unsigned_operand")) and bool(case.get("wraps")) and case.get("cffi") is not None
        and str(case.get("cffi")) == str(case.get("exact")),
}


BINOPS = {"add": "+", "sub": "-", "mul": "*", "div": "/", "mod": "%", "shl": "<<", "shr": ">>",
          "band": "&", "bor": "|", "bxor": "^"}
PREC = {"mul": 13, "div": 13, "mod": 13, "add": 12, "sub": 12, "shl": 11, "shr": 11, "band": 8, "bxor": 7, "bor": 6}
SUFFIXES = ["", "", "", "", "u", "U", "l", "L", "ll", "LL", "ul", "uL", "Ul", "UL", "lu", "lU", "Lu", "LU",
            "ull", "uLL", "Ull", "ULL", "llu", "llU", "LLu", "LLU"]
ESCAPES = {"'": 39, '"': 34, "?": 63, "\\": 92, "0": 0, "a": 7, "b": 8, "f": 12, "n": 10, "r": 13, "t": 9, "v": 11}
PLAIN_CHARS = [c for c in map(chr, range(32, 127)) if c not in "'\\/*\""]
BAD_TOKENS = ["1.5", "1e3", "0x1p3", "'ab'", "'\\x41'", "'\\1'", "'\\e'", "L'a'", "0.5", "1.0f", "'\\12'", "u'a'"]
UNSUPPORTED = ["~", "!", "<", "==", "&&", "||", "?:", "sizeof", "cast"]
CTYPE_OF_TAG = {"int": "int", "uint": "unsigned int", "long": "long", "ulong": "unsigned long",
                "llong": "long long", "ullong": "unsigned long long"}


# ---------------------------------------------------------------- generation

def gen_value(rng):
    r = rng.random()
    if r < 0.45:
        return rng.randint(0, 20)
    if r < 0.60:
        return rng.randint(0, 300)
    if r < 0.85:
        base = rng.choice([2 ** 7, 2 ** 8, 2 ** 15, 2 ** 16, 2 ** 31, 2 ** 32, 2 ** 63, 2 ** 64])
        return max(0, base + rng.randint(-3, 2))
    return rng.getrandbits(rng.choice([8, 16, 31, 32, 33, 48, 62, 63, 64]))


def gen_literal(rng, small=False):
    v = rng.randint(0, 12) if small else gen_value(rng)
    base = rng.choice(["dec", "dec", "dec", "oct", "hex", "hex", "bin"])
    if base == "dec":
        digits = str(v)
    elif base == "oct":
        digits = "0" + (oct(v)[2:] if v else rng.choice(["", "0"]))
    elif base == "hex":
        h = hex(v)[2:]
        h = "".join(rng.choice([c.lower(), c.upper()]) for c in h)
        if rng.random() < 0.15:
            h = "0" * rng.randint(1, 3) + h
        digits = rng.choice(["0x", "0X"]) + h
    else:
        digits = rng.choice(["0b", "0B"]) + bin(v)[2:]
    suf = rng.choice(SUFFIXES) if rng.random() < 0.45 else ""
    if small and rng.random() < 0.8:
        suf = rng.choice(["", "", "", "l", "L", "ll"])
    return ("lit", digits + suf, v)


def gen_char(rng):
    if rng.random() < 0.4:
        c = rng.choice(sorted(ESCAPES))
        return ("lit", "'\\" + c + "'", ESCAPES[c])
    c = rng.choice(PLAIN_CHARS)
    return ("lit", "'" + c + "'", ord(c))


def gen_tree(rng, depth, names, errors=False):
    """names: list of (name, exact value) that may be referenced."""
    r = rng.random()
    if depth == 0 or r < 0.22:
        r2 = rng.random()
        if errors and r2 < 0.25:
            return ("lit", rng.choice(BAD_TOKENS), None)
        if names and r2 < 0.30:
            n, v = rng.choice(names)
            return ("ref", n, v)
        if r2 < 0.42:
            return gen_char(rng)
        return gen_literal(rng)
    if r < 0.34:
        return (rng.choice(["neg", "neg", "pos"]), gen_tree(rng, depth - 1, names, errors))
    if errors and r < 0.40:
        return ("unsup", rng.choice(UNSUPPORTED), gen_tree(rng, depth - 1, names, False))
    op = rng.choice(["add", "add", "sub", "sub", "mul", "mul", "div", "div", "mod", "mod", "shl", "shr",
                     "band", "bor", "bxor"])
    left = gen_tree(rng, depth - 1, names, errors)
    if op in ("shl", "shr") and rng.random() < 0.85:
        right = gen_literal(rng, small=True)        # keep most shift counts sensible
        if rng.random() < 0.1:
            right = ("neg", right)
    elif op in ("div", "mod") and rng.random() < 0.5:
        right = gen_literal(rng, small=True)
        if rng.random() < 0.3:
            right = ("neg", right)
    else:
        right = gen_tree(rng, depth - 1, names, errors)
    return ("bin", op, left, right)


def exact(t):
    """The value on unbounded integers with C's truncating / and %; None when a division by
    zero, a negative shift count or a malformed token makes it undefined."""
    k = t[0]
    if k == "lit" or k == "ref":
        return t[2]
    if k == "pos":
        return exact(t[1])
    if k == "neg":
        v = exact(t[1])
        return None if v is None else -v
    if k == "unsup":
        return None
    a, b = exact(t[2]), exact(t[3])
    if a is None or b is None:
        return None
    op = t[1]
    if op == "add":
        return a + b
    if op == "sub":
        return a - b
    if op == "mul":
        return a * b
    if op in ("div", "mod"):
        if b == 0:
            return None
        q = abs(a) // abs(b)
        if (a < 0) != (b < 0):
            q = -q
        return q if op == "div" else a - q * b
    if op in ("shl", "shr"):
        if b < 0:
            return None
        if b > 4096:
            raise OverflowError
        return a * 2 ** b if op == "shl" else a // 2 ** b
    if op == "band":
        return a & b
    if op == "bor":
        return a | b
    return a ^ b


def too_big(t):
    """Trees whose evaluation would need huge integers (a shift by 2^40) are not generated."""
    try:
        return _max_bits(t) > 600
    except OverflowError:
        return True


def _max_bits(t):
    k = t[0]
    if k in ("lit", "ref"):
        return 0 if t[2] is None else abs(t[2]).bit_length()
    if k in ("pos", "neg"):
        return _max_bits(t[1])
    if k == "unsup":
        return _max_bits(t[2])
    m = max(_max_bits(t[2]), _max_bits(t[3]))
    if t[1] in ("shl", "shr"):
        b = exact(t[3])
        if b is not None and b > 300:
            raise OverflowError
    v = exact(t)
    return max(m, 0 if v is None else abs(v).bit_length())


def render(t, rng=None, minimal=False, parent=None, right=False):
    """C source text.  Fully parenthesised unless `minimal` (then by C precedence)."""
    k = t[0]
    if k == "lit":
        return t[1]
    if k == "ref":
        return t[1]
    if k in ("pos", "neg"):
        inner = render(t[1], rng, minimal, "unary")
        if t[1][0] == "bin" and minimal:
            inner = "(" + inner + ")"
        s = ("-" if k == "neg" else "+") + " " + inner
        return s if minimal and parent in (None, "unary") else "(" + s + ")"
    if k == "unsup":
        inner = render(t[2], rng, False)
        op = t[1]
        if op in ("~", "!"):
            return "(" + op + inner + ")"
        if op == "?:":
            return "(" + inner + " ? 1 : 2)"
        if op == "sizeof":
            return "sizeof(" + inner + ")"
        if op == "cast":
            return "((int)" + inner + ")"
        return "(" + inner + " " + op + " 1)"
    op = t[1]
    ls = render(t[2], rng, minimal, op, False)
    rs = render(t[3], rng, minimal, op, True)
    s = ls + " " + BINOPS[op] + " " + rs
    if not minimal:
        return "(" + s + ")"
    if parent is None:
        return s
    if parent == "unary":
        return s          # the caller adds the parentheses
    if PREC[op] < PREC[parent] or (PREC[op] == PREC[parent] and right):
        return "(" + s + ")"
    return s


def tokens(t):
    k = t[0]
    if k == "lit":
        return ["L" + ".".join(str(ord(c)) for c in t[1])]
    if k == "ref":
        return ["R" + t[1]]
    if k in ("pos", "neg"):
        return [k] + tokens(t[1])
    if k == "unsup":
        if t[1] in ("<", "==", "&&", "||"):
            # a BinaryOp whose operator cffi does not know: rendered as `(inner op 1)`
            return ["unsupbin"] + tokens(t[2]) + tokens(("lit", "1", 1))
        return ["unsup"]
    return [t[1]] + tokens(t[2]) + tokens(t[3])


def has_unsup(t):
    k = t[0]
    if k == "unsup":
        return True
    if k in ("pos", "neg"):
        return has_unsup(t[1])
    if k == "bin":
        return has_unsup(t[2]) or has_unsup(t[3])
    return False


def nontrivial(t):
    if t[0] == "lit":
        s = t[1]
        return not s.isdigit() or (s.startswith("0") and len(s) > 1)
    return True


def depth_of(t):
    k = t[0]
    if k in ("lit", "ref"):
        return 0
    if k in ("pos", "neg"):
        return 1 + depth_of(t[1])
    if k == "unsup":
        return 1 + depth_of(t[2])
    return 1 + max(depth_of(t[2]), depth_of(t[3]))


# ---------------------------------------------------------------- cffi side

def _quiet(fn):
    so = os.dup(1)
    devnull = os.open(os.devnull, os.O_WRONLY)
    sys.stdout.flush()
    os.dup2(devnull, 1)
    try:
        return fn()
    finally:
        sys.stdout.flush()
        os.dup2(so, 1)
        os.close(devnull)
        os.close(so)


def err_kind(e):
    import cffi
    if isinstance(e, cffi.CDefError):
        return "err:cdef"
    if isinstance(e, cffi.FFIError):
        return "err:ffi"
    if isinstance(e, ValueError):
        return "err:value"
    if isinstance(e, IndexError):
        return "err:index"
    if isinstance(e, (OverflowError, MemoryError)):
        return "err:overflow"
    return "err:other:" + type(e).__name__


def parses(src):
    """Does pycparser accept the declaration at all?  (Token-level rejections such as `08` never
    reach cffi's evaluator.)"""
    from cffi import cparser
    import pycparser
    src = "\n".join(l for l in src.split("\n") if not l.lstrip().startswith("#"))
    try:
        cparser._get_parser().parse("typedef int __dotdotdot__;\n" + src)
        return True
    except pycparser.c_parser.ParseError:
        return False
    except Exception:
        return True      # let cffi itself show what it does


def decl_of(form, idx, text, prelude, ctype="int"):
    """(cdef source, observation function over (ffi, lib))."""
    if form == "array":
        return (prelude + "typedef char T%d[%s];" % (idx, text),
                lambda ffi, lib: ffi.sizeof("T%d" % idx))
    if form == "enum":
        return (prelude + "enum E%d { V%d = %s };" % (idx, idx, text),
                lambda ffi, lib: getattr(lib, "V%d" % idx) if lib is not None else ffi.integer_const("V%d" % idx))
    if form == "bitfield":
        return (prelude + "struct S%d { int f : %s; };" % (idx, text),
                lambda ffi, lib: ffi.typeof("struct S%d" % idx).fields[0][1].bitsize)
    if form == "define":
        return (prelude + "#define N%d %s\n" % (idx, text),
                lambda ffi, lib: getattr(lib, "N%d" % idx) if lib is not None else ffi.integer_const("N%d" % idx))
    if form == "const":
        return (prelude + "static const %s C%d = %s;" % (ctype, idx, text),
                lambda ffi, lib: getattr(lib, "C%d" % idx) if lib is not None else ffi.integer_const("C%d" % idx))
    raise AssertionError(form)


def observe_inline(src, obs):
    import cffi
    ffi = cffi.FFI()
    try:
        ffi.cdef(src)
        lib = ffi.dlopen(None)
        v = obs(ffi, lib)
        if not isinstance(v, int) or isinstance(v, bool):
            return "err:other:" + type(v).__name__
        return v
    except Exception as e:
        return err_kind(e)


# ---------------------------------------------------------------- gcc side

def gcc_values(ctx, items, tagname):
    """items: [(key, prelude lines, expression text, want_tag)] -> {key: (tag, value)}."""
    if not items:
        return {}
    lines = ["#include <stdio.h>",
             "#define TAG(x) _Generic((x), int:\"int\", unsigned:\"uint\", long:\"long\", unsigned long:\"ulong\", "
             "long long:\"llong\", unsigned long long:\"ullong\", default:\"other\")"]
    seen = set()
    for _, prelude, _, _ in items:
        for p in prelude:
            if p not in seen:
                seen.add(p)
                lines.append(p)
    lines.append("int main(void) {")
    for i, (_, _, text, want_tag) in enumerate(items):
        if want_tag:
            lines.append('  printf("%%d %%s %%lld %%llu\\n", %d, TAG(%s), (long long)(%s), (unsigned long long)(%s));'
                         % (i, text, text, text))
        else:
            lines.append('  printf("%%d - %%lld %%llu\\n", %d, (long long)(%s), (unsigned long long)(%s));' % (i, text, text))
    lines.append("  return 0;\n}")
    n = len([f for f in os.listdir(ctx.scratch) if f.startswith(tagname)])
    cfile = os.path.join(ctx.scratch, "%s_%d.c" % (tagname, n))
    with open(cfile, "w") as f:
        f.write("\n".join(lines) + "\n")
    exe = common.compile_prog(cfile, cfile[:-2] + ".exe")
    out = common.run_prog(exe)
    res = {}
    for line in out.splitlines():
        i, tag, sv, uv = line.split()
        key = items[int(i)][0]
        res[key] = (tag, int(sv), int(uv))
    if len(res) != len(items):
        raise InfraError("gcc oracle printed %d lines for %d expressions" % (len(res), len(items)))
    return res


def gcc_value_of(tag, sv, uv, spec_tag=None):
    t = tag if tag != "-" else spec_tag
    return uv if t in ("uint", "ulong", "ullong") else sv


# ---------------------------------------------------------------- one batch

def parse_driver(line):
    if not line.startswith("ok"):
        raise InfraError("driver answered %r" % line)
    return dict(kv.split("=", 1) for kv in line.split()[1:])


def _L(text, value):
    return ("lit", text, value)


def _B(op, a, b):
    return ("bin", op, a, b)


def _N(a):
    return ("neg", a)


def directed_trees():
    """Edge cases every run checks, whatever the seed: signs of / and %, every escape, every base
    and suffix family, shifts and bitwise operators on negative values, type boundaries."""
    L, B, N = _L, _B, _N
    out = []
    for a, b in ((7, 2), (-7, 2), (7, -2), (-7, -2), (6, 3), (-6, 3), (6, -3), (-1, 2), (1, -2), (-9, 4), (0, -5)):
        la = N(L(str(-a), -a)) if a < 0 else L(str(a), a)
        lb = N(L(str(-b), -b)) if b < 0 else L(str(b), b)
        out.append(B("div", la, lb))
        out.append(B("mod", la, lb))
        out.append(B("add", B("mul", B("div", la, lb), lb), B("mod", la, lb)))
    for c, v in sorted(ESCAPES.items()):
        out.append(L("'\\" + c + "'", v))
        out.append(B("add", L("'\\" + c + "'", v), L("1", 1)))
    for c in ("a", "Z", "0", " ", "~", "#", "{", "@"):
        out.append(L("'" + c + "'", ord(c)))
    for text, v in (("0", 0), ("00", 0), ("017", 15), ("0777", 511), ("0x1F", 31), ("0X1f", 31), ("0b101", 5), ("0B11", 3),
                    ("10u", 10), ("10U", 10), ("10l", 10), ("10L", 10), ("10ul", 10), ("10LU", 10), ("10ll", 10),
                    ("10ULL", 10), ("10llu", 10), ("0x7fffffff", 2 ** 31 - 1), ("2147483647", 2 ** 31 - 1),
                    ("2147483648", 2 ** 31), ("0x80000000", 2 ** 31), ("4294967295", 2 ** 32 - 1), ("0xFFFFFFFF", 2 ** 32 - 1),
                    ("4294967296", 2 ** 32), ("9223372036854775807", 2 ** 63 - 1), ("0x8000000000000000", 2 ** 63),
                    ("0xFFFFFFFFFFFFFFFF", 2 ** 64 - 1), ("18446744073709551615u", 2 ** 64 - 1), ("0x0", 0), ("0x00ff", 255),
                    ("01777777777777777777777", 2 ** 64 - 1), ("0uL", 0)):
        out.append(L(text, v))
        out.append(N(L(text, v)))
    m1 = N(L("1", 1))
    m8 = N(L("8", 8))
    for op in ("band", "bor", "bxor"):
        for a in (m1, m8, L("12", 12), N(L("2147483648", 2 ** 31)), L("0x7fffffffffffffff", 2 ** 63 - 1)):
            for b in (L("5", 5), N(L("3", 3)), L("255", 255), N(L("9223372036854775807", 2 ** 63 - 1))):
                out.append(B(op, a, b))
    for a in (m8, L("8", 8), N(L("1", 1)), L("1", 1), L("1L", 1), L("1u", 1), L("0x40000000", 2 ** 30)):
        for sh in (0, 1, 3, 30, 31, 32, 62, 63, 64):
            out.append(B("shr", a, L(str(sh), sh)))
            out.append(B("shl", a, L(str(sh), sh)))
    out.append(B("shl", L("1", 1), N(L("1", 1))))
    out.append(B("shr", L("1", 1), N(L("1", 1))))
    out.append(B("div", L("5", 5), L("0", 0)))
    out.append(B("mod", L("5", 5), L("0", 0)))
    out.append(B("div", B("sub", N(L("2147483647", 2 ** 31 - 1)), L("1", 1)), N(L("1", 1))))       # INT_MIN / -1
    out.append(B("mod", B("sub", N(L("2147483647", 2 ** 31 - 1)), L("1", 1)), N(L("1", 1))))
    out.append(B("sub", L("1u", 1), L("2", 2)))                                                    # the known finding
    out.append(B("add", L("0xFFFFFFFF", 2 ** 32 - 1), L("1", 1)))
    out.append(B("add", L("2147483647", 2 ** 31 - 1), L("1", 1)))                                  # signed overflow: undefined
    out.append(B("mul", L("65536", 65536), L("65536", 65536)))
    out.append(B("mul", L("65536L", 65536), L("65536", 65536)))
    out.append(B("sub", N(L("9223372036854775807", 2 ** 63 - 1)), L("1", 1)))
    out.append(("pos", N(("pos", L("5", 5)))))
    out.append(N(N(L("5", 5))))
    return out


def make_cases(ctx, n, directed=False):
    rng = ctx.rng
    cases = []
    if directed:
        for tree in directed_trees():
            cases.append({"idx": len(cases), "tree": tree, "macros": [], "enum_prev": None, "minimal": False,
                          "formpick": (len(cases) % 7) / 7.0, "formpick2": (len(cases) % 2) * 0.9})
    for idx in range(len(cases), len(cases) + n):
        errors = rng.random() < 0.12
        kind = rng.random()
        macros, enum_prev = [], None
        names = []
        if kind < 0.10:            # references to #define'd names
            for j in range(rng.randint(1, 2)):
                lit = gen_literal(rng)
                neg = rng.random() < 0.3
                macros.append(("M%d_%d" % (idx, j), ("-" if neg else "") + lit[1], -lit[2] if neg else lit[2]))
            names = [(m[0], m[2]) for m in macros]
        elif kind < 0.20:          # reference to an earlier enumerator of the same enum
            for _ in range(20):
                prev = gen_tree(rng, rng.randint(0, 2), [], False)
                if not too_big(prev) and exact(prev) is not None:
                    break
            else:
                prev = ("lit", "5", 5)
            enum_prev = ("A%d" % idx, prev)
            names = [("A%d" % idx, exact(prev))]
        for _ in range(50):
            d = rng.choice([0, 1, 1, 2, 2, 3, 3, 4, 5, 6])
            tree = gen_tree(rng, d, names, errors)
            if not too_big(tree):
                break
        else:
            tree = ("lit", "7", 7)
        cases.append({"idx": idx, "tree": tree, "macros": macros, "enum_prev": enum_prev,
                      "minimal": rng.random() < 0.3, "formpick": rng.random(), "formpick2": rng.random()})
    return cases


def driver_pass(ctx, cases):
    lines, where = [], []
    for c in cases:
        lines.append("reset")
        where.append(None)
        for name, text, _ in c["macros"]:
            lines.append("macro %s L%s" % (name, ".".join(str(ord(ch)) for ch in text)))
            where.append((c, "macro", name))
        if c["enum_prev"]:
            lines.append("expr " + " ".join(tokens(c["enum_prev"][1])))
            where.append((c, "prev", None))
            lines.append("bindlast " + c["enum_prev"][0])
            where.append(None)
        lines.append("expr " + " ".join(tokens(c["tree"])))
        where.append((c, "expr", None))
        # bare literal (optionally negated): also through _add_integer_constant
        lt = literal_text(c["tree"])
        if lt is not None:
            lines.append("macro LIT L%s" % ".".join(str(ord(ch)) for ch in lt))
            where.append((c, "literal", None))
    out = ctx.driver(lines, name="C09")
    for o, w in zip(out, where):
        if w is None:
            continue
        c, what, name = w
        d = parse_driver(o)
        if what == "macro":
            c.setdefault("macro_res", {})[name] = d
        elif what == "prev":
            c["prev_res"] = d
        elif what == "expr":
            c["res"] = d
        else:
            c["lit_res"] = d


def literal_text(t):
    """The text of `#define N <text>` when the tree is a bare integer literal or its negation."""
    if t[0] == "lit" and t[1][0].isdigit():
        return t[1]
    if t[0] == "neg" and t[1][0] == "lit" and t[1][1][0].isdigit():
        return "-" + t[1][1]
    return None


def spec_of(d):
    s = d.get("spec", "undef")
    if s in ("undef", "nogrammar"):
        return None
    tag, v = s.split(":")
    return tag, int(v)


def model_of(d):
    m = d["model"]
    return int(m) if not m.startswith("err") and m != "nomatch" else m


def _t(label, t0):
    if os.environ.get("C09_DEBUG"):
        common.log("  [%s] %.1fs" % (label, time.time() - t0))
    return time.time()


def run_batch(ctx, n, oracle_only=False, directed=False):
    t0 = time.time()
    cases = make_cases(ctx, n, directed)
    t0 = _t("gen", t0)
    driver_pass(ctx, cases)
    t0 = _t("driver", t0)
    gcc_items = []
    outline = []        # (case, form, decl source, obs, expected gcc value or None)
    for c in cases:
        tree = c["tree"]
        idx = c["idx"]
        text = render(tree, minimal=c["minimal"])
        c["text"] = text
        ex = exact(tree)
        model = model_of(c["res"])
        spec = spec_of(c["res"])
        c["exact"], c["model"], c["spec"] = ex, model, spec
        c["unsigned_operand"] = (c["res"].get("allsigned") == "0" or
                                 (c["enum_prev"] is not None and c["prev_res"].get("allsigned") == "0"))
        c["wraps"] = (c["res"].get("nowrap") == "0" or
                      (c["enum_prev"] is not None and c["prev_res"].get("nowrap") == "0") or
                      any(c["macro_res"][m[0]].get("nowrap") == "0" for m in c["macros"]))
        prelude_c, prelude_cffi = [], ""
        for name, mtext, _ in c["macros"]:
            prelude_c.append("#define %s %s" % (name, mtext))
            prelude_cffi += "#define %s %s\n" % (name, mtext)
        # forms
        forms = []
        if c["enum_prev"]:
            forms = ["enumref"]
        elif isinstance(ex, int) and not has_unsup(tree):
            cand = []
            if 0 <= ex < 2 ** 31:          # out-of-line modules cannot encode a length >= 2**31 (OverflowError at emit)
                cand.append("array")
            if 1 <= ex <= 32:
                cand.append("bitfield")
            cand.append("enum")
            k = int(c["formpick"] * len(cand))
            forms = [cand[k]]
            if len(cand) > 1 and c["formpick2"] < 0.5:
                forms.append(cand[(k + 1) % len(cand)])
        else:
            forms = [["array", "enum", "bitfield"][int(c["formpick"] * 3)]]
        lt = literal_text(tree) if not c["macros"] else None
        key_base = (text,)
        c["obs"] = {}
        for form in forms:
            if form == "enumref":
                pname, ptree = c["enum_prev"]
                ptext = render(ptree)
                src = prelude_cffi + "enum E%d { %s = %s, V%d = %s };" % (idx, pname, ptext, idx, text)
                obs = (lambda i: lambda ffi, lib: getattr(lib, "V%d" % i) if lib is not None
                       else ffi.integer_const("V%d" % i))(idx)
                cdecl = "enum E%d { %s = %s, V%d = %s };" % (idx, pname, ptext, idx, text)
            else:
                src, obs = decl_of(form, idx, text, prelude_cffi)
                cdecl = None
            if not parses(src):
                ctx.count("skipped:pycparser-rejects")
                continue
            got = observe_inline(src, obs)
            c["obs"][form] = got
            ctx.case((text, form) if nontrivial(tree) else None,
                     sample={"expr": text, "form": form, "cffi": got, "model": model,
                             "c": None if spec is None else spec[1]})
            ctx.count("form:" + form)
            ctx.count("depth:%d" % depth_of(tree))
            ctx.count("result:" + (got if isinstance(got, str) else "value"))
            # --- cffi vs model
            if not oracle_only:
                want = model
                if form == "enumref" and isinstance(model_of(c["prev_res"]), str):
                    want = model_of(c["prev_res"])       # the first enumerator already raises
                if c["macros"]:
                    bad = [model_of(c["macro_res"][m[0]]) for m in c["macros"]
                           if isinstance(model_of(c["macro_res"][m[0]]), str)]
                    if bad:
                        want = "err:cdef"                   # _process_macros raises CDefError first
                if got != want:
                    _disagree(ctx, case_of(c, form), got, want, "cffi in-line vs model of _parse_constant")
            # --- oracle
            prev_defined = True
            if form == "enumref":
                prev_defined = spec_of(c["prev_res"]) is not None
                pv = model_of(c["prev_res"])
                if isinstance(pv, int) and isinstance(model, int):
                    lo, hi = min(pv, model), max(pv, model)
                    if not ((lo >= -2 ** 63 and hi < 2 ** 63) if lo < 0 else hi < 2 ** 64):
                        # the two enumerators fit no integer type together: gcc truncates (with a
                        # warning), cffi refuses to build the type -- a C10 matter, not a value of C09
                        prev_defined = False
                        ctx.count("skipped:enum-has-no-type")
            if spec is not None and prev_defined:
                if cdecl is not None:
                    gcc_items.append(((idx, form), prelude_c + [cdecl], "V%d" % idx, False))
                else:
                    gcc_items.append(((idx, form), prelude_c, text, True))
                if isinstance(got, int):
                    outline.append((c, form, src, obs))
        # --- bare literals: #define and static const
        if lt is not None and "lit_res" in c:
            lm = model_of(c["lit_res"])
            lspec = spec_of(c["lit_res"])
            for form in ("define", "const"):
                ctype = CTYPE_OF_TAG[lspec[0]] if lspec else "long long"
                src, obs = decl_of(form, idx, lt, "", ctype)
                if not parses(src):
                    ctx.count("skipped:pycparser-rejects")
                    continue
                got = observe_inline(src, obs)
                c["obs"][form] = got
                ctx.case((lt, form), sample=None)
                ctx.count("form:" + form)
                if form == "define":
                    want = "err:cdef" if lm == "nomatch" else lm
                else:
                    # no match: a plain variable is declared; reading lib.NAME then needs the symbol
                    want = None if lm == "nomatch" else lm
                if not oracle_only and want is not None and got != want:
                    _disagree(ctx, case_of(c, form), got, want, "cffi in-line vs model of _add_integer_constant")
                if lspec is not None:
                    gcc_items.append(((idx, form), [], lt, True))
                    if isinstance(got, int):
                        outline.append((c, form, src, obs))
    # ---- gcc
    t0 = _t("cffi in-line", t0)
    by_idx = dict((c["idx"], c) for c in cases)
    res = gcc_values(ctx, gcc_items, "c09_oracle")
    t0 = _t("gcc", t0)
    for (idx, form), (tag, sv, uv) in res.items():
        c = by_idx[idx]
        spec = spec_of(c["lit_res"]) if form in ("define", "const") else c["spec"]
        gv = gcc_value_of(tag, sv, uv, spec[0])
        if form == "enumref":
            # the enumerator was printed after the enum is complete: reduce the specification's value the same way
            gv = sv if spec[1] < 0 or spec[0] in ("int", "long", "llong") else uv
        if (tag != "-" and tag != spec[0]) or gv != spec[1]:
            raise InfraError("specification vs gcc: %r is %s:%d for gcc, %s:%d for Spec/CConstExpr"
                             % (c["text"], tag, gv, spec[0], spec[1]))
        ctx.count("gcc-checked")
        got = c["obs"].get(form)
        if not isinstance(got, int):
            # cffi rejects an expression C defines: not what C09 states (it is about accepted
            # expressions); inside the theorem's domain it shows up as a model disagreement
            ctx.count("cffi-rejects-what-c-defines:%s:%s" % (form, got))
            if os.environ.get("C09_DEBUG"):
                common.log("cffi rejects", c["text"], form, got, c["macros"])
            continue
        if got != gv:
            case = case_of(c, form)
            case["c"] = gv
            case["cffi"] = got if isinstance(got, int) else None
            case["cffi_raw"] = got
            r = ctx.fail(case, "cffi in-line reports %r, gcc computes %d (type %s)" % (got, gv, spec[0]))
            ctx.count("mismatch:" + r)
    # ---- out-of-line
    check_outline(ctx, outline, res)
    _t("out-of-line", t0)
    return cases


def case_of(c, form):
    return {"expr": c["text"], "form": form, "tokens": tokens(c["tree"]), "exact": c.get("exact"),
            "unsigned_operand": c.get("unsigned_operand"), "wraps": c.get("wraps"), "macros": [(m[0], m[1]) for m in c["macros"]],
            "enum_prev": None if not c["enum_prev"] else (c["enum_prev"][0], render(c["enum_prev"][1])),
            "idx": c["idx"], "cffi": c.get("obs", {}).get(form) if isinstance(c.get("obs", {}).get(form), int) else None}


def check_outline(ctx, outline, gcc_res, depth=0):
    """All declarations cffi accepted in-line, in ONE out-of-line module: the values it reports
    must be gcc's as well."""
    if not outline:
        return
    import cffi
    srcs = []
    seen = set()
    for c, form, src, obs in outline:
        for line in src.split("\n"):
            if line.startswith("#define"):
                if line not in seen:
                    seen.add(line)
                    srcs.append(line + "\n")
            elif line.strip():
                srcs.append(line + "\n")
    modname = "_c09_mod_%d_%d" % (ctx.seed, len(os.listdir(ctx.scratch)))
    ffi = cffi.FFI()
    try:
        ffi.cdef("".join(srcs))
        ffi.set_source(modname, None)
        path = os.path.join(ctx.scratch, modname + ".py")
        _quiet(lambda: ffi.emit_python_code(path))
        m = importlib.import_module(modname)
    except Exception as e:
        if len(outline) == 1:
            c, form, src, obs = outline[0]
            ctx.fail(case_of(c, form), "accepted in-line, but the out-of-line module cannot be generated: %r" % (e,))
            return
        if depth > 12:
            raise InfraError("out-of-line batch keeps failing: %r" % (e,))
        h = len(outline) // 2
        check_outline(ctx, outline[:h], gcc_res, depth + 1)
        check_outline(ctx, outline[h:], gcc_res, depth + 1)
        return
    for c, form, src, obs in outline:
        key = (c["idx"], form)
        if key not in gcc_res:
            continue
        tag, sv, uv = gcc_res[key]
        spec = spec_of(c["lit_res"]) if form in ("define", "const") else c["spec"]
        gv = gcc_value_of(tag, sv, uv, spec[0])
        if form == "enumref":
            gv = sv if spec[1] < 0 or spec[0] in ("int", "long", "llong") else uv
        try:
            got = obs(m.ffi, None)
        except Exception as e:
            got = err_kind(e)
        ctx.case(None)
        ctx.count("outline:" + form)
        if got != gv:
            case = case_of(c, form)
            case["mode"] = "out-of-line"
            case["c"] = gv
            case["cffi"] = got if isinstance(got, int) else None
            ctx.fail(case, "out-of-line module reports %r, gcc computes %d" % (got, gv))


# ---------------------------------------------------------------- entry points

def translators(ctx):
    sys.path.insert(0, os.path.join(common.VERIF, "translate"))
    import constexpr_py
    return [constexpr_py.run]


def _disagree(ctx, case, impl, model, what):
    """Record a model-vs-implementation disagreement and make it visible in the log."""
    line = "DISAGREEMENT %s: %s | impl=%r model=%r | %s" % (ctx.prop, what, impl, model,
                                                        case.get("expr") or case.get("decl"))
    if len(ctx.disagreements) < 25:          # enough to diagnose from the log alone, no flood
        common.log(line[:300])
    ctx.disagree(case, impl, model, what)


def _setup(ctx):
    warnings.simplefilter("ignore")
    if ctx.scratch not in sys.path:
        sys.path.insert(0, ctx.scratch)


def correspond(ctx):
    _setup(ctx)
    total = ctx.n(1000, 30000)
    per = 1000
    done = 0
    while done < total:
        k = min(per, total - done)
        run_batch(ctx, k, directed=(done == 0))
        done += k


def search(ctx):
    _setup(ctx)
    total = ctx.n(3000, 60000)
    done = 0
    while done < total and not ctx.failures:
        run_batch(ctx, 500, oracle_only=True, directed=(done == 0))
        done += 500


def _single(ctx, text, form, macros, enum_prev):
    """cffi's and gcc's value of one expression (used by replay and check_witness)."""
    idx = 0
    prelude = "".join("#define %s %s\n" % (n, t) for n, t in macros)
    if form == "enumref":
        src = prelude + "enum E0 { %s = %s, V0 = %s };" % (enum_prev[0], enum_prev[1], text)
        obs = lambda ffi, lib: lib.V0
        items = [((0, form), ["#define %s %s" % (n, t) for n, t in macros] + [src.split("\n")[-1]], "V0", False)]
    else:
        if form in ("define", "const"):
            src, obs = decl_of(form, idx, text, "", "long long")
        else:
            src, obs = decl_of(form, idx, text, prelude)
        items = [((0, form), ["#define %s %s" % (n, t) for n, t in macros], text, True)]
    got = observe_inline(src, obs)
    res = gcc_values(ctx, items, "c09_single")
    tag, sv, uv = res[(0, form)]
    return got, tag, sv, uv


def replay(ctx, obj):
    _setup(ctx)
    case = obj["case"]
    got, tag, sv, uv = _single(ctx, case["expr"], case["form"], case.get("macros") or [], case.get("enum_prev"))
    gv = gcc_value_of(tag, sv, uv, None) if tag != "-" else (sv if sv < 0 or sv == uv else uv)
    print("expression %s in form %s: cffi reports %r, gcc computes %d (type %s)" % (case["expr"], case["form"], got, gv, tag))
    return 0 if got == gv else 1


def check_witness(ctx, finding):
    w = finding["witness"]
    got, tag, sv, uv = _single(ctx, w["expr"], "enum", [], None)
    gv = gcc_value_of(tag, sv, uv)
    return got != gv
