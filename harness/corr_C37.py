"""C37 -- closed dlopen libraries refuse further symbol access.

Theorems (lean/CffiVerif/Props/C37.lean) over the model of both ABI-mode library
objects (lean/CffiVerif/Model/DlClose.lean): after_close_var_errors,
after_close_new_function_errors, close_idempotent (+ the invariant "a closed
library caches nothing holding an address", closed_step, open_write_then_read).

Tie to the code: a gcc-compiled test library (3 int globals, 6 functions; the
cdef also declares one function and one global the library does not export) is
dlopen'ed from a fresh copy for every sequence, in-line (cffi.FFI().dlopen) and
out-of-line (emit_python_code module + ffi.dlopen); a random sequence of
attribute reads / writes / function fetches / calls (before the close only) /
ffi.dlclose is executed on the library object and on the model and compared
(values, ok-vs-error).  Oracle on the implementation, independent of the model:
after the first dlclose every read or write of a global and every fetch of a
function not fetched before raises; every further dlclose returns normally.

Most sequences run with the library *pinned* by a second, RTLD_GLOBAL handle
(ctypes), so an implementation that forgets a check finds the symbol / reads
valid memory and returns a value instead of raising or crashing the check; a smaller number runs unpinned (the library is
really unmapped by dlclose) in a forked child, where dying from a signal after
the close is the failure "touched the unloaded library".
Functions fetched before the close are never called after it.

Every run also forces, in both modes, the schedule "ffi.dlclose(lib) while another
thread accesses lib": a C helper thread (no GIL) dlopen()s a library whose
constructor blocks ~300 ms (bounded: poll with timeout), so the dynamic loader's
lock is held and the C-level dlclose() inside ffi.dlclose has to wait; a second
Python thread reads / writes lib.<var> and fetches functions as soon as it gets
to run; once ffi.dlclose has returned and everything has finished, every access
through lib must raise.  (If the close ever lets other threads in between
clearing its cache and forgetting the handle, thread B re-caches a raw address
and the later accesses return values.)  The model side of this is the stepwise
close (`closestep`), proved safe for every interleaving.
"""
import ctypes
import importlib
import json
import os
import random
import select
import shutil
import signal
import sys
import threading
import time

import common
from common import InfraError

MANIFEST = {
    "text": "Kernel-checked theorems over a model of both ABI-mode library objects: after ffi.dlclose (anywhere in any access "
            "history) reading/writing any global and fetching any function is refused with the closed error and leaves the "
            "state untouched, and dlclose is idempotent; the model is tied to the code by random access sequences over a "
            "gcc-compiled library in in-line and out-of-line mode, with an independent oracle that every post-close variable "
            "access and new function fetch raises and that closing again is harmless.",
    "note": "Trusted: Lean kernel; dlopen/dlsym/dlclose of glibc; the harness. Not modelled: ffi.addressof(lib, ...), integer "
            "constants, calling a function object fetched before the close (outside the property), value range checks.",
    "technique": "Lean 4 proof (invariant over all operation sequences, both implementations) + differential correspondence "
                 "with real dlopen'ed libraries + independent raises-after-close oracle (pinned in-process, unpinned in a forked child)",
}

RULE = ("a sequence = 4..30 operations drawn from {fetch function, fetch+call function, read global, write global, dlclose} "
        "over 7 function names and 4 variable names (one of each not exported by the library), with 0..3 dlclose at random "
        "positions, executed on a fresh copy of the library in each mode; plus forced dlclose-vs-second-thread schedules "
        "(random accesses before, random accesses by the second thread, loader lock held ~300 ms); "
        "one case = one operation; non-trivial = an operation "
        "after the first dlclose that targets a name accessed before the close or never accessed, or a repeated dlclose; "
        "distinct = distinct (mode, operation prefix)")
ASSUMPTIONS = ["values written are within the range of int", "a fresh copy of the library file is a fresh load (initial values of the globals)"]
CLASSES = {}

LIB_C = r"""
int g0 = 10; int g1 = -7; int g2 = 1234567;
int f0(int x) { return x + 1; }
int f1(int x) { return x * 2; }
int f2(int x) { return x - 3; }
int get_g0(void) { return g0; }
int get_g1(void) { return g1; }
int get_g2(void) { return g2; }
"""
CDEF = """
extern int g0; extern int g1; extern int g2; extern int gmissing;
int f0(int); int f1(int); int f2(int);
int get_g0(void); int get_g1(void); int get_g2(void);
int fmissing(int);
"""
FUNCS = ["f0", "f1", "f2", "get_g0", "get_g1", "get_g2", "fmissing"]       # model names 0..6
EXPORTED_F = FUNCS[:6]
VARS = ["g0", "g1", "g2", "gmissing"]                                       # model names 10..13
INIT = {"g0": 10, "g1": -7, "g2": 1234567}
FID = {n: i for i, n in enumerate(FUNCS)}
VID = {n: 10 + i for i, n in enumerate(VARS)}
PYF = {"f0": lambda x: x + 1, "f1": lambda x: x * 2, "f2": lambda x: x - 3}
TIMEOUT = 120


def _quiet(fn):
    so = os.dup(1)
    devnull = os.open(os.devnull, os.O_WRONLY)
    sys.stdout.flush()
    os.dup2(devnull, 1)
    try:
        return fn()
    finally:
        sys.stdout.flush()
        os.dup2(so, 1)
        os.close(devnull)
        os.close(so)


class World:
    """Both ways of getting a library object for the same cdef."""
    def __init__(self, ctx):
        import cffi
        self.scratch = ctx.scratch
        self.src_so = os.path.join(ctx.scratch, "c37_lib.so")
        if not os.path.exists(self.src_so):
            c = os.path.join(ctx.scratch, "c37_lib.c")
            with open(c, "w") as f:
                f.write(LIB_C)
            # -Bsymbolic: the library's own functions refer to its own globals even when another copy of the
            # library is globally visible in the process (no symbol interposition between the copies)
            common.compile_shared(c, self.src_so, extra=["-Wl,-Bsymbolic"])
        self.inline_ffi = cffi.FFI()
        self.inline_ffi.cdef(CDEF)
        modname = "_c37_mod_%d" % os.getpid()
        path = os.path.join(ctx.scratch, modname + ".py")
        if modname not in sys.modules:
            ffi = cffi.FFI()
            ffi.cdef(CDEF)
            ffi.set_source(modname, None)
            _quiet(lambda: ffi.emit_python_code(path))
            if ctx.scratch not in sys.path:
                sys.path.insert(0, ctx.scratch)
        self.ool_ffi = importlib.import_module(modname).ffi
        self.counter = 0

    def ffi(self, mode):
        return self.inline_ffi if mode == "inline" else self.ool_ffi

    def fresh_copy(self):
        self.counter += 1
        p = os.path.join(self.scratch, "c37_copy_%d_%d.so" % (os.getpid(), self.counter))
        shutil.copyfile(self.src_so, p)
        return p


def gen_sequence(rng):
    n = rng.randint(4, 30)
    nclose = rng.choice([0, 1, 1, 1, 2, 3])
    closes = set(rng.sample(range(n), min(nclose, n)))
    if rng.random() < 0.1:
        closes.add(0)           # close before anything is cached
    ops = []
    for i in range(n):
        if i in closes:
            ops.append(["close"])
            continue
        r = rng.random()
        if r < 0.3:
            ops.append(["getf", rng.choice(FUNCS if rng.random() < 0.85 else ["fmissing"])])
        elif r < 0.45:
            ops.append(["call", rng.choice(EXPORTED_F), rng.randint(-1000, 1000)])
        elif r < 0.75:
            ops.append(["read", rng.choice(VARS if rng.random() < 0.9 else ["gmissing"])])
        else:
            ops.append(["write", rng.choice(VARS if rng.random() < 0.9 else ["gmissing"]),
                        rng.choice([0, 1, -1, 2 ** 31 - 1, -2 ** 31, rng.randint(-10 ** 6, 10 ** 6)])])
    return ops


def run_sequence(world, mode, ops, pinned, progress=None):
    """Execute on the real implementation.  Returns one observation per op:
    [canonical result, exception type name or None, extra]."""
    ffi = world.ffi(mode)
    path = world.fresh_copy()
    # pinned with RTLD_GLOBAL: the same library is also loaded (and globally visible) through another handle, as when
    # something else in the process links it; a closed library object must refuse access all the same, and an
    # implementation that forgot the closed check would find the symbols (dlsym(NULL, ...) searches the global scope)
    pin = ctypes.CDLL(path, mode=ctypes.RTLD_GLOBAL) if pinned else None
    lib = ffi.dlopen(path)
    closed = False
    fetched = {}              # function objects fetched while open (never called after the close)
    obs = []
    try:
        for i, op in enumerate(ops):
            if progress:
                progress(i)
            kind = op[0]
            extra = None
            try:
                if kind == "getf" or (kind == "call" and closed):
                    x = getattr(lib, op[1])
                    res = "ok func" if ffi.typeof(x).kind == "function" else "ok other"
                    if not closed:
                        fetched[op[1]] = x
                elif kind == "call":
                    x = getattr(lib, op[1])
                    fetched[op[1]] = x
                    res = "ok func"
                    if op[1] in PYF:
                        got, want = x(op[2]), PYF[op[1]](op[2])
                        extra = ["callresult", got, want]
                    else:
                        # getter: the C code's view of the global must agree with lib.<var> read right after
                        extra = ["getter", op[1][4:], x()]
                elif kind == "read":
                    v = getattr(lib, op[1])
                    res = "ok %d" % v
                elif kind == "write":
                    setattr(lib, op[1], op[2])
                    res = "ok"
                elif kind == "close":
                    ffi.dlclose(lib)
                    closed = True
                    res = "ok"
                else:
                    raise InfraError("unknown op %r" % (op,))
                exc = None
            except InfraError:
                raise
            except Exception as e:
                res, exc = "err", type(e).__name__
                if kind == "close":
                    closed = True
            obs.append([res, exc, extra])
    finally:
        fetched.clear()
        try:
            ffi.dlclose(lib)          # do not leave copies loaded (in-line FFI objects keep their library objects alive)
        except Exception:
            pass
        del lib
        if pin is not None:
            import _ctypes
            h = pin._handle
            del pin
            _ctypes.dlclose(h)
        try:
            os.unlink(path)
        except OSError:
            pass
    return obs


def model_lines(mode, ops, obs, extra_fetched=()):
    """Protocol lines for the model and, per op, the index of its answer line (or None when the op is not sent)."""
    lines = ["open %s F %s V %s" % ("inline" if mode == "inline" else "outofline",
                                    " ".join(str(FID[f]) for f in EXPORTED_F),
                                    " ".join("%d %d" % (VID[v], INIT[v]) for v in VARS if v in INIT))]
    idx = []
    closed = False
    fetched_before = set(extra_fetched)
    for op, ob in zip(ops, obs):
        kind = op[0]
        if kind in ("getf", "call"):
            if closed and op[1] in fetched_before:
                idx.append(None)      # refetching a function fetched before the close: outside the property, only observed
                continue
            if not closed and ob[0].startswith("ok"):
                fetched_before.add(op[1])
            lines.append("getf %d" % FID[op[1]])
        elif kind == "read":
            lines.append("read %d" % VID[op[1]])
        elif kind == "write":
            lines.append("write %d %d" % (VID[op[1]], op[2]))
        elif len(op) > 1 and op[1] == "stepwise":
            # the same call as the sequence of its steps (other threads' accesses, if any, were before or after)
            lines.extend(["closestep"] * (2 if mode == "inline" else 3))
            closed = True
        else:
            lines.append("close")
            closed = True
        idx.append(len(lines) - 1)
    return lines, idx


def judge(ctx, mode, ops, obs, pinned, all_lines, pending, extra_fetched=(), case_base=None):
    """Oracle on the observations + queue the model comparison."""
    closed = False
    fetched_ok = set(extra_fetched)
    touched = set()
    lines, idx = model_lines(mode, ops, obs, extra_fetched)
    off = len(all_lines)
    all_lines.extend(lines)
    for i, (op, ob) in enumerate(zip(ops, obs)):
        res, exc, extra = ob
        kind = op[0]
        case = dict(case_base or {}, mode=mode, pinned=pinned, ops=ops, index=i)
        name = op[1] if len(op) > 1 and op[0] != "close" else None
        nontrivial = None
        if closed:
            if kind == "close":
                nontrivial = "reclose"
            elif kind in ("read", "write"):
                nontrivial = "var-touched-before" if name in touched else "var-new"
            elif name not in fetched_ok:
                nontrivial = "func-new"
        ctx.case((mode, json.dumps(ops[:i + 1])) if nontrivial else None,
                 sample=case if (nontrivial and ctx.evaluations % 400 == 3) else None)
        tagk = "%s:%s:%s" % (mode, "after-close" if closed else "open", kind if kind != "call" else "getf")
        ctx.count("%s:%s" % (tagk, exc or "ok"))
        # ---- the property's own statement, on the implementation alone
        if closed and kind in ("read", "write") and res != "err":
            ctx.fail(case, "%s of global %s after dlclose did not raise (got %r)" % (kind, name, res))
        if closed and kind in ("getf", "call") and name not in fetched_ok and res != "err":
            ctx.fail(case, "fetching function %s (not fetched before the close) after dlclose did not raise" % name)
        if closed and kind in ("getf", "call") and name in fetched_ok:
            ctx.count("%s:refetch-of-function-fetched-before-close:%s" % (mode, exc or "ok"))
        if kind == "close" and res != "ok":
            ctx.fail(case, "dlclose raised %s%s" % (exc, " (closing again must be harmless)" if closed else ""))
        # ---- bookkeeping
        if not closed and kind in ("getf", "call") and res.startswith("ok"):
            fetched_ok.add(name)
        if not closed and kind in ("read", "write"):
            touched.add(name)
        if kind == "close":
            closed = True
        # ---- model comparison
        if idx[i] is not None:
            pending.append((case, res, off + idx[i]))
        if extra and extra[0] == "callresult" and extra[1] != extra[2]:
            ctx.disagree(case, extra[1], extra[2], "calling a function of the open library returned a wrong value")


def compare_with_model(ctx, all_lines, pending):
    if not all_lines:
        return
    out = ctx.driver(all_lines)
    for case, impl, k in pending:
        m = out[k]
        mc = "err" if m.startswith("err") else m
        if mc != impl:
            ctx.disagree(case, impl, m, "library object vs model")
            if len(ctx.disagreements) > 20:
                return


def getter_checks(ctx, mode, ops, obs):
    """Two real code paths must agree: the value a C getter returns equals what the last successful
    write through lib stored (or the initial value)."""
    cur = dict(INIT)
    for i, (op, ob) in enumerate(zip(ops, obs)):
        res, exc, extra = ob
        if op[0] == "close":
            return
        if op[0] == "write" and res == "ok":
            cur[op[1]] = op[2]
        if op[0] == "read" and res.startswith("ok ") and op[1] in cur and int(res[3:]) != cur[op[1]]:
            ctx.disagree({"mode": mode, "ops": ops, "index": i}, res, cur[op[1]], "lib.<var> does not read back the last value written")
        if extra and extra[0] == "getter" and extra[2] != cur[extra[1]]:
            ctx.disagree({"mode": mode, "ops": ops, "index": i}, extra[2], cur[extra[1]],
                         "the library's own getter does not see the value written through lib")


# ---------------------------------------------------------------- dlclose racing with another thread's accesses

LAUNCH_C = r"""
#include <dlfcn.h>
#include <pthread.h>
#include <stdlib.h>
#include <string.h>
#include <unistd.h>
struct job { char path[1024]; int done_fd; };
static void *runner(void *a)
{
    struct job *j = (struct job *)a;
    void *h = dlopen(j->path, RTLD_NOW | RTLD_LOCAL);   /* runs the blocking constructor with the loader lock held */
    char c = h ? 'y' : 'n';
    if (h) dlclose(h);                                  /* unload: the next dlopen runs the constructor again */
    if (write(j->done_fd, &c, 1) < 0) {}
    free(j);
    return 0;
}
int c37_launch(const char *path, int done_fd)
{
    pthread_t t;
    struct job *j = (struct job *)malloc(sizeof *j);
    if (!j) return -1;
    strncpy(j->path, path, sizeof j->path - 1);
    j->path[sizeof j->path - 1] = 0;
    j->done_fd = done_fd;
    if (pthread_create(&t, 0, runner, j)) { free(j); return -1; }
    pthread_detach(t);
    return 0;
}
"""
SLOW_C = r"""
#include <poll.h>
#include <stdlib.h>
#include <unistd.h>
/* Runs inside dlopen(), i.e. with the dynamic loader's lock held: announce, then block for a bounded
   time (or until the release pipe becomes readable).  Never blocks for ever. */
__attribute__((constructor)) static void c37_slow_init(void)
{
    const char *s = getenv("C37_START_FD"), *r = getenv("C37_RELEASE_FD"), *ms = getenv("C37_HOLD_MS");
    struct pollfd p;
    char c = 's';
    if (!s || !r) return;
    if (write(atoi(s), &c, 1) < 0) {}
    p.fd = atoi(r); p.events = POLLIN; p.revents = 0;
    poll(&p, 1, ms ? atoi(ms) : 300);
}
"""
HOLD_MS = 300
RACE_WAIT = 30.0


def race_helpers(world):
    if getattr(world, "launcher", None) is None:
        lc = os.path.join(world.scratch, "c37_launch.c")
        lso = os.path.join(world.scratch, "c37_launch.so")
        sc = os.path.join(world.scratch, "c37_slow.c")
        world.slow_so = os.path.join(world.scratch, "c37_slow.so")
        with open(lc, "w") as f:
            f.write(LAUNCH_C)
        with open(sc, "w") as f:
            f.write(SLOW_C)
        common.compile_shared(lc, lso, extra=["-pthread", "-ldl"])
        common.compile_shared(sc, world.slow_so)
        world.launcher = ctypes.CDLL(lso)
        world.launcher.c37_launch.argtypes = [ctypes.c_char_p, ctypes.c_int]
        world.launcher.c37_launch.restype = ctypes.c_int
    return world.launcher


def wait_fd(fd, what):
    ready, _, _ = select.select([fd], [], [], RACE_WAIT)
    if not ready:
        raise InfraError("timeout (%.0f s) waiting for %s" % (RACE_WAIT, what))
    return os.read(fd, 1)


def do_access(ffi, lib, op):
    """read / write / getf on a library object -> [canonical result, exception type or None, None]"""
    try:
        if op[0] == "read":
            return ["ok %d" % getattr(lib, op[1]), None, None]
        if op[0] == "write":
            setattr(lib, op[1], op[2])
            return ["ok", None, None]
        x = getattr(lib, op[1])
        return ["ok func" if ffi.typeof(x).kind == "function" else "ok other", None, None]
    except Exception as e:
        return ["err", type(e).__name__, None]


def gen_race(rng):
    pre = []
    for _ in range(rng.randint(0, 5)):
        r = rng.random()
        if r < 0.4:
            pre.append(["read", rng.choice(VARS[:3])])
        elif r < 0.6:
            pre.append(["write", rng.choice(VARS[:3]), rng.randint(-1000, 1000)])
        else:
            pre.append(["getf", rng.choice(EXPORTED_F)])
    b_ops = [[rng.choice(["read", "read", "write"]), rng.choice(VARS[:3])]]     # always an exported global
    for _ in range(rng.randint(0, 3)):
        r = rng.random()
        if r < 0.6:
            b_ops.append([rng.choice(["read", "write"]), rng.choice(VARS)])
        else:
            b_ops.append(["getf", rng.choice(FUNCS)])
    for op in b_ops:
        if op[0] == "write":
            op.append(rng.randint(-1000, 1000))
    rng.shuffle(b_ops)
    return pre, b_ops


def run_race(world, mode, pre, b_ops):
    """ffi.dlclose(lib) in the main thread while the dynamic loader's lock is held by a helper thread (so the
    C-level dlclose() has to wait), with a second Python thread accessing lib as soon as it gets to run.
    Returns (pre observations, [(op, obs, started_after_close_returned)] of thread B, close observation,
    after ops, after observations)."""
    ffi = world.ffi(mode)
    launcher = race_helpers(world)
    path = world.fresh_copy()
    pin = ctypes.CDLL(path, mode=ctypes.RTLD_GLOBAL)
    lib = ffi.dlopen(path)
    fds = []
    go = threading.Event()
    close_returned = threading.Event()
    b_log = []
    b_state = {"error": None}

    def thread_b():
        try:
            if not go.wait(RACE_WAIT):
                b_state["error"] = "thread B was never released"
                return
            # first round at once: whenever this thread first gets to run after the main thread set off
            after = close_returned.is_set()
            for op in b_ops:
                b_log.append((op, do_access(ffi, lib, op), after))
            # second round once ffi.dlclose has returned in the main thread
            if not close_returned.wait(RACE_WAIT):
                b_state["error"] = "ffi.dlclose did not return within %.0f s" % RACE_WAIT
                return
            if not after:
                for op in b_ops:
                    b_log.append((op, do_access(ffi, lib, op), True))
        except BaseException as e:
            b_state["error"] = "%s: %s" % (type(e).__name__, e)

    try:
        pre_obs = [do_access(ffi, lib, op) for op in pre]
        start_r, start_w = os.pipe()
        rel_r, rel_w = os.pipe()
        done_r, done_w = os.pipe()
        fds = [start_r, start_w, rel_r, rel_w, done_r, done_w]
        os.environ["C37_START_FD"] = str(start_w)
        os.environ["C37_RELEASE_FD"] = str(rel_r)
        os.environ["C37_HOLD_MS"] = str(HOLD_MS)
        tb = threading.Thread(target=thread_b, daemon=True)
        tb.start()
        if launcher.c37_launch(world.slow_so.encode(), done_w) != 0:
            raise InfraError("could not start the loader-lock helper thread")
        wait_fd(start_r, "the blocking constructor to start (loader lock held)")
        go.set()
        try:
            ffi.dlclose(lib)
            close_obs = ["ok", None, None]
        except Exception as e:
            close_obs = ["err", type(e).__name__, None]
        close_returned.set()
        tb.join(RACE_WAIT)
        if tb.is_alive():
            raise InfraError("thread B did not finish within %.0f s" % RACE_WAIT)
        if b_state["error"]:
            raise InfraError("thread B: " + b_state["error"])
        if wait_fd(done_r, "the helper's dlopen to return") != b"y":
            raise InfraError("the helper could not dlopen the blocking library")
        fetched_before = set(op[1] for op, ob in zip(pre, pre_obs) if op[0] == "getf" and ob[0].startswith("ok"))
        fetched_before |= set(op[1] for op, ob, after in b_log if op[0] == "getf" and not after and ob[0].startswith("ok"))
        after_ops = [list(op) for op, ob, after in b_log if after]
        after_obs = [ob for op, ob, after in b_log if after]
        for v in VARS:
            for op in (["read", v], ["write", v, 77], ["read", v]):
                after_ops.append(op)
                after_obs.append(do_access(ffi, lib, op))
        for f in FUNCS:
            after_ops.append(["getf", f])
            after_obs.append(do_access(ffi, lib, ["getf", f]))
        try:
            ffi.dlclose(lib)
            again = ["ok", None, None]
        except Exception as e:
            again = ["err", type(e).__name__, None]
        after_ops.append(["close"])
        after_obs.append(again)
        during = [[op, ob[0]] for op, ob, after in b_log if not after]
        return pre_obs, during, close_obs, after_ops, after_obs, sorted(fetched_before)
    finally:
        for k in ("C37_START_FD", "C37_RELEASE_FD", "C37_HOLD_MS"):
            os.environ.pop(k, None)
        for fd in fds:
            try:
                os.close(fd)
            except OSError:
                pass
        try:
            ffi.dlclose(lib)
        except Exception:
            pass
        del lib
        import _ctypes
        h = pin._handle
        del pin
        _ctypes.dlclose(h)
        try:
            os.unlink(path)
        except OSError:
            pass


def race_scenarios(ctx, world, n, rng, all_lines, pending):
    for k in range(n):
        pre, b_ops = gen_race(rng)
        for mode in ("inline", "outofline"):
            pre_obs, during, close_obs, after_ops, after_obs, fetched = run_race(world, mode, pre, b_ops)
            ops = pre + [["close", "stepwise"]] + after_ops
            obs = pre_obs + [close_obs] + after_obs
            base = {"scenario": "dlclose-vs-thread", "pre": pre, "b_ops": b_ops, "hold_ms": HOLD_MS,
                    "accesses_of_thread_B_before_dlclose_returned": during}
            ctx.count("%s:race-scenarios" % mode)
            ctx.count("%s:race:accesses-of-B-before-dlclose-returned" % mode, len(during))
            ctx.count("%s:race:accesses-of-B-that-succeeded-before-dlclose-returned" % mode,
                      sum(1 for d in during if d[1].startswith("ok")))
            judge(ctx, mode, ops, obs, True, all_lines, pending, extra_fetched=fetched, case_base=base)


# ---------------------------------------------------------------- unpinned runs in a forked child

def run_forked(ctx, world, jobs):
    """jobs: [(mode, ops)].  Returns [(obs or None, died_at or None)] per job; a job the child never reached has (None, None)."""
    r, w = os.pipe()
    sys.stdout.flush()
    sys.stderr.flush()
    pid = os.fork()
    if pid == 0:
        code = 0
        try:
            os.close(r)
            devnull = os.open(os.devnull, os.O_WRONLY)
            os.dup2(devnull, 1)
            for j, (mode, ops) in enumerate(jobs):
                def progress(i, j=j):
                    os.write(w, (json.dumps({"j": j, "at": i}) + "\n").encode())
                obs = run_sequence(world, mode, ops, False, progress)
                os.write(w, (json.dumps({"j": j, "obs": obs}) + "\n").encode())
            os.write(w, b'{"end": true}\n')
        except BaseException as e:
            try:
                os.write(w, (json.dumps({"error": "%s: %s" % (type(e).__name__, e)}) + "\n").encode())
            except Exception:
                pass
            code = 3
        finally:
            os._exit(code)
    os.close(w)
    buf = b""
    deadline = time.time() + TIMEOUT
    while True:
        left = deadline - time.time()
        if left <= 0:
            os.kill(pid, signal.SIGKILL)
            os.waitpid(pid, 0)
            os.close(r)
            raise InfraError("forked dlclose runner did not finish within %d s" % TIMEOUT)
        ready, _, _ = select.select([r], [], [], left)
        if not ready:
            continue
        chunk = os.read(r, 1 << 16)
        if not chunk:
            break
        buf += chunk
    os.close(r)
    _, status = os.waitpid(pid, 0)
    results = [(None, None) for _ in jobs]
    last = None
    ended = False
    for line in buf.decode().split("\n"):
        if not line.strip():
            continue
        try:
            msg = json.loads(line)
        except ValueError:
            continue          # a line cut short by the child's death
        if "error" in msg:
            raise InfraError("forked dlclose runner failed: " + msg["error"])
        if msg.get("end"):
            ended = True
        elif "obs" in msg:
            results[msg["j"]] = (msg["obs"], None)
            last = None
        else:
            last = (msg["j"], msg["at"])
    if os.WIFSIGNALED(status):
        if last is None:
            raise InfraError("forked dlclose runner died from signal %d outside any operation" % os.WTERMSIG(status))
        results[last[0]] = (None, (last[1], os.WTERMSIG(status)))
    elif not ended:
        raise InfraError("forked dlclose runner exited with status %r before finishing" % (status,))
    return results


# ---------------------------------------------------------------- entry points

def translators(ctx):
    """Generated/DlCloseSteps.lean: the order of the steps of both dlclose implementations, GIL release and the
    closed checks, re-extracted from the working tree (Model/DlClose.closeStep is built from it)."""
    sys.path.insert(0, os.path.join(common.VERIF, "translate"))
    import c37_steps
    return [c37_steps.run]



def explore(ctx, nseq_pinned, nseq_forked, nrace, rng, oracle_only=False):
    world = World(ctx)
    all_lines, pending = [], []
    race_scenarios(ctx, world, nrace, rng, all_lines, pending)
    for k in range(nseq_pinned):
        ops = gen_sequence(rng)
        for mode in ("inline", "outofline"):
            obs = run_sequence(world, mode, ops, True)
            judge(ctx, mode, ops, obs, True, all_lines, pending)
            getter_checks(ctx, mode, ops, obs)
    jobs = []
    for k in range(nseq_forked):
        ops = gen_sequence(rng)
        if not any(op[0] == "close" for op in ops):
            ops.insert(rng.randrange(len(ops)), ["close"])
        for mode in ("inline", "outofline"):
            jobs.append((mode, ops))
    if jobs:
        for (mode, ops), (obs, died) in zip(jobs, run_forked(ctx, world, jobs)):
            if died is not None:
                at, sig = died
                case = {"mode": mode, "pinned": False, "ops": ops, "index": at}
                first_close = min(i for i, op in enumerate(ops) if op[0] == "close")
                ctx.count("%s:child-died-signal-%d" % (mode, sig))
                if at > first_close:
                    ctx.fail(case, "the process died from signal %d at an access after dlclose: the unloaded library was touched" % sig)
                else:
                    raise InfraError("forked runner died from signal %d before/at the first dlclose (op %d of %r)" % (sig, at, ops))
            elif obs is not None:
                judge(ctx, mode, ops, obs, False, all_lines, pending)
                getter_checks(ctx, mode, ops, obs)
                ctx.count("%s:unpinned-sequences" % mode)
    if not oracle_only:
        compare_with_model(ctx, all_lines, pending)


def correspond(ctx):
    explore(ctx, ctx.n(160, 6000), ctx.n(30, 600), ctx.n(4, 40), ctx.rng)


def search(ctx):
    explore(ctx, ctx.n(1500, 20000), ctx.n(100, 1000), ctx.n(12, 80), random.Random("C37/search/%d" % ctx.seed), oracle_only=True)


def replay(ctx, obj):
    case = obj["case"]
    world = World(ctx)
    mode, ops = case["mode"], case["ops"]
    if case.get("scenario"):
        n0 = len(ctx.failures)
        pre_obs, during, close_obs, after_ops, after_obs, fetched = run_race(world, mode, case["pre"], case["b_ops"])
        print("%s: thread B before dlclose returned: %r" % (mode, during))
        for op, ob in zip(after_ops, after_obs):
            print(mode, "after dlclose:", op, "->", ob[0], ob[1] or "")
        judge(ctx, mode, case["pre"] + [["close", "stepwise"]] + after_ops, pre_obs + [close_obs] + after_obs, True, [], [],
              extra_fetched=fetched, case_base={"scenario": case["scenario"]})
        for f in ctx.failures[n0:]:
            print("fails:", f["detail"])
        return 1 if len(ctx.failures) > n0 else 0
    if case.get("pinned", True):
        obs = run_sequence(world, mode, ops, True)
        died = None
    else:
        obs, died = run_forked(ctx, world, [(mode, ops)])[0]
    if died is not None:
        print("%s: process died from signal %d at op %d %r of %r" % (mode, died[1], died[0], ops[died[0]], ops))
        return 1
    n0 = len(ctx.failures)
    judge(ctx, mode, ops, obs, case.get("pinned", True), [], [])
    for op, ob in zip(ops, obs):
        print(mode, op, "->", ob[0], ob[1] or "")
    for f in ctx.failures[n0:]:
        print("fails:", f["detail"])
    return 1 if len(ctx.failures) > n0 else 0
